"""E6 -- typestate / path queries: product of a CFG with a small automaton, worklist to fixpoint, witnesses.

``explore(cfg, init, step)`` runs the product construction.  ``step(node, state)`` returns a list of
``(edge_selector, new_state)`` pairs for the normal out-edges and may report findings through its closure;
``edge_selector`` is None (all non-exceptional edges), or an edge kind such as 'T' / 'F'.
Exceptional edges (``exc``) are followed with *every* intermediate state of the node (an exception may be
raised before or after each event of the node) -- ``step`` returns these as a second list.
"""
from collections import deque

EXC_EDGES = ("exc",)


class Product:
    def __init__(self, cfg):
        self.cfg = cfg
        self.seen = {}  # (node id, state) -> predecessor (node id, state) or None
        self.at_node = {}  # node id -> set of states on entry
        self.transitions = set()  # (pred id, pred state, edge kind, target id, target state)

    def path_to(self, nid, state, limit=60):
        """Witness: list of CFG nodes from the entry to (nid, state)."""
        path = []
        cur = (nid, state)
        while cur is not None and len(path) < 400:
            path.append(cur)
            cur = self.seen.get(cur)
        path.reverse()
        byid = {n.id: n for n in self.cfg.nodes}
        return [(byid[i], s) for i, s in path]

    def witness_lines(self, nid, state):
        out = []
        for n, s in self.path_to(nid, state):
            if n.kind in ("ENTRY",):
                continue
            lab = "%s[%s]" % (n.lineno, s if not isinstance(s, tuple) else "/".join(str(x) for x in s))
            if n.kind in ("EXIT_RETURN", "EXIT_RAISE"):
                lab = "%s[%s]" % (n.kind, s if not isinstance(s, tuple) else "/".join(str(x) for x in s))
            if n.fin:
                lab += "~finally:" + n.fin[-1][1]
            out.append(lab)
        return out


def explore(cfg, init, step):
    """Worklist over (node, state).  Returns the Product with reachability and predecessor links."""
    prod = Product(cfg)
    start = (cfg.entry.id, init)
    prod.seen[start] = None
    work = deque([(cfg.entry, init)])
    while work:
        node, state = work.popleft()
        prod.at_node.setdefault(node.id, set()).add(state)
        if node.kind in ("EXIT_RETURN", "EXIT_RAISE"):
            continue
        normal, exceptional = step(node, state)
        for kind, tgt in node.succ:
            if kind in EXC_EDGES:
                outs = exceptional
            else:
                outs = [s for sel, s in normal if sel is None or sel == kind]
            for s in outs:
                prod.transitions.add((node.id, state, kind, tgt.id, s))
                key = (tgt.id, s)
                if key not in prod.seen:
                    prod.seen[key] = (node.id, state)
                    work.append((tgt, s))
    return prod
