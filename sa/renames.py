"""Recognise renamed module-level anchors and analyse them under the name the rules know.

Renaming a private helper is not a change of behaviour.  An anchor (``known.KNOWN``) that is missing from its module
is matched to a module-level function the table does not know when that function has exactly the anchor's parameter
list and the match is unique both ways; the definition and every reference (``name``, ``icontract._mod.name``,
``from icontract._mod import name``) are renamed back in the parsed trees.  Anything less clear-cut is left alone, and the
rules then fail closed with "anchor not found" (exit 2).
"""
import ast

from .known import KNOWN, SIGNATURES


def _sig(st):
    a = st.args
    parts = [x.arg for x in a.posonlyargs + a.args] + (["*" + a.vararg.arg] if a.vararg else []) + [x.arg for x in a.kwonlyargs] + (["**" + a.kwarg.arg] if a.kwarg else [])
    return ("async " if isinstance(st, ast.AsyncFunctionDef) else "") + ",".join(parts)


def _toplevel(tree):
    out = {}

    def walk(body):
        for st in body:
            if isinstance(st, (ast.FunctionDef, ast.AsyncFunctionDef)):
                out.setdefault(st.name, st)
            elif isinstance(st, ast.If):
                walk(st.body)
                walk(st.orelse)

    walk(tree.body)
    return out


def detect(trees):
    """{(module, new name): anchor name}"""
    mapping = {}
    for mod, tree in trees.items():
        sigs = SIGNATURES.get(mod, {})
        top = _toplevel(tree)
        listed = set(KNOWN.get(mod, []))
        missing = [k for k in sigs if k not in top]
        unknown = [n for n in top if n not in listed]
        for old in missing:
            cands = [n for n in unknown if _sig(top[n]) == sigs[old]]
            rivals = [o for o in missing if sigs[o] == sigs[old]]
            if len(cands) == 1 and len(rivals) == 1:
                mapping[(mod, cands[0])] = old
    return mapping


class _Apply(ast.NodeTransformer):
    def __init__(self, mod, mapping):
        self.mod = mod
        self.local = {new: old for (m, new), old in mapping.items() if m == mod}
        self.foreign = {(m, new): old for (m, new), old in mapping.items()}

    def visit_FunctionDef(self, node):
        self.generic_visit(node)
        if node.name in self.local and node.col_offset == 0 or node.name in self.local and getattr(node, "_toplevel", False):
            node.name = self.local[node.name]
        return node

    visit_AsyncFunctionDef = visit_FunctionDef

    def visit_Name(self, node):
        if node.id in self.local:
            node.id = self.local[node.id]
        return node

    def visit_Attribute(self, node):
        self.generic_visit(node)
        for (m, new), old in self.foreign.items():
            if node.attr == new:
                v = node.value
                tail = v.attr if isinstance(v, ast.Attribute) else (v.id if isinstance(v, ast.Name) else None)
                if tail == m:
                    node.attr = old
        return node

    def visit_ImportFrom(self, node):
        if node.module:
            m = node.module.split(".")[-1]
            for al in node.names:
                if (m, al.name) in self.foreign:
                    if al.asname is None:
                        al.asname = al.name
                    al.name = self.foreign[(m, al.name)]
        return node


def _kinds(sig):
    return [("async " if sig.startswith("async ") else "")] + [("**" if x.startswith("**") else "*" if x.startswith("*") else "") for x in sig.replace("async ", "").split(",")]


def _bound_names(node):
    out = set()
    for x in ast.walk(node):
        if isinstance(x, ast.Name):
            out.add(x.id)
        elif isinstance(x, ast.arg):
            out.add(x.arg)
        elif isinstance(x, (ast.FunctionDef, ast.AsyncFunctionDef, ast.ClassDef)):
            out.add(x.name)
        elif isinstance(x, ast.alias):
            out.add((x.asname or x.name).split(".")[0])
        elif isinstance(x, (ast.Global, ast.Nonlocal)):
            out.update(x.names)
        elif isinstance(x, ast.ExceptHandler) and x.name:
            out.add(x.name)
    return out


def param_renames(trees):
    """A known helper whose parameters were renamed (same count, same kinds) is analysed under the parameter names the
    rules know: the names are put back in its body and in the keyword arguments of its call sites.  Left alone when an
    old name is already in use in the function or a nested scope binds one of the names again."""
    done = []
    for mod, tree in trees.items():
        sigs = SIGNATURES.get(mod, {})
        top = _toplevel(tree)
        for fname, want in sigs.items():
            st = top.get(fname)
            if st is None:
                continue
            have = _sig(st)
            if have == want or _kinds(have) != _kinds(want):
                continue
            strip = lambda x: x.lstrip("*")
            hs = [strip(x) for x in have.replace("async ", "").split(",")]
            ws = [strip(x) for x in want.replace("async ", "").split(",")]
            ren = {h: w for h, w in zip(hs, ws) if h != w}
            used = _bound_names(st)
            if any(w in used for w in ren.values()):
                continue
            nested = [x for x in ast.walk(st) if x is not st and isinstance(x, (ast.FunctionDef, ast.AsyncFunctionDef, ast.Lambda))]
            if any(a.arg in ren for n in nested for a in ast.walk(n.args) if isinstance(a, ast.arg)):
                continue
            for x in ast.walk(st):
                if isinstance(x, ast.Name) and x.id in ren:
                    x.id = ren[x.id]
            a = st.args
            for x in a.posonlyargs + a.args + a.kwonlyargs + ([a.vararg] if a.vararg else []) + ([a.kwarg] if a.kwarg else []):
                if x.arg in ren:
                    x.arg = ren[x.arg]
            for m2, t2 in trees.items():
                for c in ast.walk(t2):
                    if not isinstance(c, ast.Call):
                        continue
                    f = c.func
                    hit = (isinstance(f, ast.Name) and f.id == fname and m2 == mod) or (isinstance(f, ast.Attribute) and f.attr == fname and ((isinstance(f.value, ast.Attribute) and f.value.attr == mod) or (isinstance(f.value, ast.Name) and f.value.id == mod)))
                    if hit:
                        for kw in c.keywords:
                            if kw.arg in ren:
                                kw.arg = ren[kw.arg]
            done.append("%s.%s parameters %s" % (mod, fname, ", ".join("%s (found as %s)" % (w, h) for h, w in sorted(ren.items()))))
    return done


def apply(trees):
    mapping = detect(trees)
    if mapping:
        for mod, tree in trees.items():
            for name, st in _toplevel(tree).items():
                st._toplevel = True
            _Apply(mod, mapping).visit(tree)
    return ["%s.%s (found as %s)" % (m, old, new) for (m, new), old in sorted(mapping.items())] + param_renames(trees)
