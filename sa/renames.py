"""Recognise renamed module-level anchors and analyse them under the name the rules know.

Renaming a private helper is not a change of behaviour.  An anchor (``known.KNOWN``) that is missing from its module
is matched to a module-level function the table does not know when that function has exactly the anchor's parameter
list and the match is unique both ways; the definition and every reference (``name``, ``icontract._mod.name``,
``from icontract._mod import name``) are renamed back in the parsed trees.  Anything less clear-cut is left alone, and the
rules then fail closed with "anchor not found" (exit 2).
"""
import ast

from .known import KNOWN, SIGNATURES


def _sig(st):
    a = st.args
    parts = [x.arg for x in a.posonlyargs + a.args] + (["*" + a.vararg.arg] if a.vararg else []) + [x.arg for x in a.kwonlyargs] + (["**" + a.kwarg.arg] if a.kwarg else [])
    return ("async " if isinstance(st, ast.AsyncFunctionDef) else "") + ",".join(parts)


def _toplevel(tree):
    out = {}

    def walk(body):
        for st in body:
            if isinstance(st, (ast.FunctionDef, ast.AsyncFunctionDef)):
                out.setdefault(st.name, st)
            elif isinstance(st, ast.If):
                walk(st.body)
                walk(st.orelse)

    walk(tree.body)
    return out


def detect(trees):
    """{(module, new name): anchor name}"""
    mapping = {}
    for mod, tree in trees.items():
        sigs = SIGNATURES.get(mod, {})
        top = _toplevel(tree)
        listed = set(KNOWN.get(mod, []))
        missing = [k for k in sigs if k not in top]
        unknown = [n for n in top if n not in listed]
        for old in missing:
            cands = [n for n in unknown if _sig(top[n]) == sigs[old]]
            rivals = [o for o in missing if sigs[o] == sigs[old]]
            if len(cands) == 1 and len(rivals) == 1:
                mapping[(mod, cands[0])] = old
    return mapping


class _Apply(ast.NodeTransformer):
    def __init__(self, mod, mapping):
        self.mod = mod
        self.local = {new: old for (m, new), old in mapping.items() if m == mod}
        self.foreign = {(m, new): old for (m, new), old in mapping.items()}

    def visit_FunctionDef(self, node):
        self.generic_visit(node)
        if node.name in self.local and node.col_offset == 0 or node.name in self.local and getattr(node, "_toplevel", False):
            node.name = self.local[node.name]
        return node

    visit_AsyncFunctionDef = visit_FunctionDef

    def visit_Name(self, node):
        if node.id in self.local:
            node.id = self.local[node.id]
        return node

    def visit_Attribute(self, node):
        self.generic_visit(node)
        for (m, new), old in self.foreign.items():
            if node.attr == new:
                v = node.value
                tail = v.attr if isinstance(v, ast.Attribute) else (v.id if isinstance(v, ast.Name) else None)
                if tail == m:
                    node.attr = old
        return node

    def visit_ImportFrom(self, node):
        if node.module:
            m = node.module.split(".")[-1]
            for al in node.names:
                if (m, al.name) in self.foreign:
                    if al.asname is None:
                        al.asname = al.name
                    al.name = self.foreign[(m, al.name)]
        return node


def apply(trees):
    mapping = detect(trees)
    if mapping:
        for mod, tree in trees.items():
            for name, st in _toplevel(tree).items():
                st._toplevel = True
            _Apply(mod, mapping).visit(tree)
    return ["%s.%s (found as %s)" % (m, old, new) for (m, new), old in sorted(mapping.items())]
