"""E7 -- decision-table extraction over loop-free regions (predicate abstraction, no solver).

``paths(flow)`` enumerates the non-exceptional paths of a loop-free function: the branch decisions taken
(test term, polarity), the calls made, the attribute/subscript stores, and the outcome (return term / raised
term / fall-through).  ``outcomes(paths, evaluator)`` evaluates every decision in 3-valued logic for one
abstract input; a decision on an atom the evaluator does not know is *free* (both edges feasible), so an
outcome that depends on an unknown atom shows up as several possible outcomes -- which is a deviation from a
table that expects exactly one.
"""
import ast

from .cfg import eval_order
from .flow import show, strip_sites
from .model import AnalysisError, first_line

MAX_PATHS = 20000


class Path:
    __slots__ = ("decisions", "calls", "stores", "outcome", "nodes", "env")

    def __init__(self):
        self.decisions = []  # (test term, polarity, node)
        self.calls = []  # (call term, node)
        self.stores = []  # (target term, value term, node)
        self.outcome = None  # ('return', term, node) | ('raise', term, node) | ('assert', node)
        self.nodes = []
        self.env = {}

    def copy(self):
        p = Path()
        p.decisions = list(self.decisions)
        p.calls = list(self.calls)
        p.stores = list(self.stores)
        p.nodes = list(self.nodes)
        p.env = dict(self.env)
        return p


def paths(flow, start=None, stop_ids=None, follow_assert_fail=False, max_paths=MAX_PATHS, stop_at_loops=False, havoc_loops=False):
    """All non-exceptional paths from ``start`` (default: entry) to an exit / ``stop_ids`` of a loop-free region."""
    cfg = flow.cfg
    start = start or cfg.entry
    stop_ids = stop_ids or set()
    out = []

    def rec(node, p, onpath):
        if len(out) > max_paths:
            raise AnalysisError("too many paths in %s" % flow.fi.qual)
        if node.id in onpath:
            raise AnalysisError("region of %s is not loop-free (node at line %s repeats)" % (flow.fi.qual, node.lineno))
        onpath = onpath | {node.id}
        p.nodes.append(node)
        if node.kind == "EXIT_RETURN":
            if p.outcome is None:
                p.outcome = ("return", ("const", "None"), node)
            out.append(p)
            return
        if node.kind == "EXIT_RAISE":
            out.append(p)
            return
        if node.id in stop_ids:
            p.outcome = ("stop", None, node)
            out.append(p)
            return
        # record calls / stores of this node
        if node.ast is not None and node.kind not in ("def", "dispatch", "handler"):
            for e, cond in eval_order(node.ast):
                if isinstance(e, ast.Call):
                    ct = flow.term_env(e, node, p.env)
                    # identity-normalised calls (typing.cast, getattr with a literal) are not calls of their own
                    if ct[0] == "call" and ct[4] == flow.site(e):
                        p.calls.append((ct, node))
            st = node.ast
            if node.kind == "stmt" and isinstance(st, (ast.Assign, ast.AnnAssign)):
                targets = st.targets if isinstance(st, ast.Assign) else [st.target]
                for tg in targets:
                    if isinstance(tg, (ast.Attribute, ast.Subscript)) and getattr(st, "value", None) is not None:
                        p.stores.append((flow.term_env(tg, node, p.env), flow.term_env(st.value, node, p.env), node))
        # path environment: plain assignments to names
        if node.kind == "stmt" and isinstance(node.ast, (ast.Assign, ast.AnnAssign)) and getattr(node.ast, "value", None) is not None:
            st = node.ast
            targets = st.targets if isinstance(st, ast.Assign) else [st.target]
            vt = flow.term_env(st.value, node, p.env)
            for tg in targets:
                if isinstance(tg, ast.Name):
                    p.env[tg.id] = vt
                elif isinstance(tg, (ast.Tuple, ast.List)):
                    for i, el in enumerate(tg.elts):
                        if isinstance(el, ast.Name):
                            from .flow import mk_idx

                            p.env[el.id] = mk_idx(vt, ("const", repr(i)))
        if node.kind == "return":
            p.outcome = ("return", flow.term_env(node.ast, node, p.env) if node.ast is not None else ("const", "None"), node)
        elif node.kind == "raise":
            p.outcome = ("raise", flow.term_env(node.ast.exc, node, p.env) if node.ast.exc is not None else ("reraise",), node)
            out.append(p)
            return
        elif node.kind == "assertfail":
            if follow_assert_fail:
                p.outcome = ("assert", None, node)
                out.append(p)
            return
        succs = [(k, t) for k, t in node.succ if k not in ("exc", "unmatched", "handler")]
        if node.kind == "test":
            t = flow.term_env(node.ast, node, p.env)
            for k, tgt in succs:
                q = p.copy()
                q.outcome = p.outcome
                q.decisions.append((t, k == "T", node))
                rec(tgt, q, onpath)
            return
        if node.kind == "next" and havoc_loops and node is not start and isinstance(node.stmt, (ast.For, ast.AsyncFor, ast.While)):
            # a loop inside the region is read as an opaque computation: every name it binds is unknown afterwards,
            # and the region goes on where the loop is left (exhausted, or through one of its ``break``s)
            lp = node.stmt
            inner = set(id(x) for b_ in lp.body for x in ast.walk(b_))
            if any(isinstance(x, (ast.Return, ast.Raise, ast.Yield, ast.YieldFrom, ast.Await)) for b_ in lp.body for x in ast.walk(b_)):
                raise AnalysisError("region of %s contains a loop at line %s that returns, raises or suspends" % (flow.fi.qual, node.lineno))
            bound = set(x.id for x in ast.walk(lp) if isinstance(x, ast.Name) and isinstance(x.ctx, (ast.Store, ast.Del)) and (id(x) in inner or any(x is y for y in ast.walk(lp.target)) if hasattr(lp, "target") else id(x) in inner))
            for nm in bound:
                p.env[nm] = ("unk", "loop@%s:%s" % (node.lineno, nm))
            p.calls.append((("call", ("unk", "loop@%s" % node.lineno), (), (), ("site", node.lineno, 0)), node))
            exits = [t for k, t in node.succ if k == "F"]
            for x in cfg.nodes:
                if x.kind == "break" and x.stmt is not None and id(x.stmt) in inner:
                    # only the breaks of this loop (not of a loop nested in it)
                    nested = any(isinstance(l2, (ast.For, ast.AsyncFor, ast.While)) and l2 is not lp and any(y is x.stmt for y in ast.walk(l2)) for l2 in ast.walk(lp))
                    if not nested:
                        exits += [t for k, t in x.succ if k not in ("exc",)]
            seen_t = []
            for tgt in exits:
                if any(tgt is y for y in seen_t):
                    continue
                seen_t.append(tgt)
                q = p.copy()
                q.outcome = p.outcome
                rec(tgt, q, onpath)
            return
        if node.kind == "next":
            if node is start or not stop_at_loops:
                raise AnalysisError("region of %s contains a loop at line %s" % (flow.fi.qual, node.lineno))
            p.outcome = ("stop", None, node)
            out.append(p)
            return
        if len(succs) == 1:
            rec(succs[0][1], p, onpath)
            return
        for k, tgt in succs:
            q = p.copy()
            q.outcome = p.outcome
            rec(tgt, q, onpath)

    p0 = Path()
    if start is cfg.entry:
        # parameters keep their value along a path unless the path rebinds them
        for name in flow.fi.params:
            p0.env[name] = ("param", name)
    rec(start, p0, frozenset())
    return out


# ---------------------------------------------------------------------- 3-valued evaluation
def tv_not(v):
    return None if v is None else (not v)


def evaluate(t, atom_eval):
    """3-valued truth of test term ``t``; ``atom_eval(term)`` returns True / False / None (unknown)."""
    if t[0] == "op":
        name, ops = t[1], t[2]
        if name == "Not":
            return tv_not(evaluate(ops[0], atom_eval))
        if name == "And":
            vals = [evaluate(o, atom_eval) for o in ops]
            if any(v is False for v in vals):
                return False
            if all(v is True for v in vals):
                return True
            return None
        if name == "Or":
            vals = [evaluate(o, atom_eval) for o in ops]
            if any(v is True for v in vals):
                return True
            if all(v is False for v in vals):
                return False
            return None
    v = atom_eval(t)
    if v is None and t[0] == "op" and t[1] in ("cmp:NotIn", "cmp:NotEq", "cmp:IsNot") and len(t[2]) == 2:
        # the negative spelling of an atom the evaluator knows in its positive spelling
        pos = {"cmp:NotIn": "cmp:In", "cmp:NotEq": "cmp:Eq", "cmp:IsNot": "cmp:Is"}[t[1]]
        v = tv_not(atom_eval(("op", pos, t[2])))
    if v is None and t[0] == "const":
        # a test of a local the path has just bound to a literal (flags, results of inlined helpers)
        try:
            return bool(ast.literal_eval(t[1]))
        except (ValueError, SyntaxError):
            return None
    return v


def feasible(path, atom_eval):
    """Is the path possible for the abstract input described by ``atom_eval``?  (unknown decisions are free)"""
    for t, pol, node in path.decisions:
        v = evaluate(t, atom_eval)
        if v is not None and v != pol:
            return False
    return True


def unknown_atoms(path, atom_eval):
    out = []
    for t, pol, node in path.decisions:
        if evaluate(t, atom_eval) is None:
            out.append((t, node))
    return out


def exc_name(t):
    """Name of the exception class constructed by a raised term, e.g. 'ValueError'."""
    if t is None:
        return None
    if t[0] == "call":
        c = t[1]
        if c[0] == "builtin":
            return c[1]
        if c[0] == "class":
            return c[2]
        if c[0] == "attr":
            return c[2]
        return show(c)
    if t[0] == "builtin":
        return t[1]
    if t[0] == "class":
        return t[2]
    return None


def classify(path):
    """Outcome label of a path: 'raise <Exc>' / 'return' / 'return <const>'."""
    if path.outcome is None:
        return "fallthrough"
    kind, t, node = path.outcome
    if kind == "raise":
        n = exc_name(t)
        return "raise %s" % (n if n else show(strip_sites(t)))
    if kind == "assert":
        return "raise AssertionError"
    if kind == "stop":
        return "reaches"
    return "return"
