"""Flatten private base classes of the package into their subclasses (a normalisation of the parsed trees).

Pulling the shared code of two classes up into a private base class (``class _Base: def __call__(self, f): ...
self._hook(...)``; ``class require(_Base): def _hook(...)``) does not change behaviour.  For the rules the methods a
class inherits from a private (underscore) base class of the same module are copied into the subclass, so that the
anchor ``require.__call__`` exists again and ``self._hook(...)`` resolves -- and is inlined -- per subclass.  Public
base classes, bases from other modules and ``super()`` calls are left alone.
"""
import ast
import copy


def apply(tree):
    classes = {st.name: st for st in tree.body if isinstance(st, ast.ClassDef)}
    flattened = []

    def own_methods(cd):
        return {st.name: st for st in cd.body if isinstance(st, (ast.FunctionDef, ast.AsyncFunctionDef))}

    def inherited(cd, seen):
        """methods visible through private in-module bases, nearest first"""
        out = {}
        for b in cd.bases:
            if isinstance(b, ast.Name) and b.id.startswith("_") and b.id in classes and b.id not in seen:
                base = classes[b.id]
                for k, v in own_methods(base).items():
                    out.setdefault(k, v)
                for k, v in inherited(base, seen | {b.id}).items():
                    out.setdefault(k, v)
        return out

    for name, cd in classes.items():
        inh = inherited(cd, {name})
        if not inh:
            continue
        own = own_methods(cd)
        for k, v in inh.items():
            if k in own:
                continue
            if any(isinstance(x, ast.Call) and isinstance(x.func, ast.Name) and x.func.id == "super" for x in ast.walk(v)):
                continue  # a method using super() means something else in the subclass
            cd.body.append(copy.deepcopy(v))
            flattened.append("%s.%s" % (name, k))
    return flattened
