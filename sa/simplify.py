"""Small syntactic normalisations of the parsed trees (before inlining), so that equivalent spellings give one shape.

Every rewrite keeps the meaning of the code *for the rules* (they never look at the evaluation order inside one
statement when the parts involved are free of calls):

* ``if (x := E) ...:``                       ->  ``x = E`` ; ``if x ...:``            (walrus evaluated first in the test)
* ``isinstance(v, (A, B))``                   ->  ``isinstance(v, A) or isinstance(v, B)``   (``v`` a name / attribute)
* ``any(P(m) for m in (c1, c2))``             ->  ``P(c1) or P(c2)``   (``all`` -> ``and``; the iterable is a literal
  tuple / list of constants, or a module-level name bound once to such a tuple)
* ``for a, b in ((x1, y1), (x2, y2)): body``   ->  ``body[a:=x1, b:=y1]`` ; ``body[a:=x2, b:=y2]``   (a table-driven loop:
  the target is a tuple of names, the iterable a literal of at most four tuples of names / attributes / constants --
  written in place, bound once to a local just for the loop, or a module-level constant --, the body has no
  ``break`` / ``continue`` of this loop and does not re-bind the targets, no ``else``)
* ``S[ A if t else B ]`` (assignment, return, expression statement; ``t`` free of calls; the only conditional
  expression of the statement; an arm performs a call or the chosen value is the argument of a call)
                                              ->  ``if t: S[A]`` ``else: S[B]``

Locations of the new nodes are those of the nodes they replace.
"""
import ast
import copy

_MAX_SPLIT = 3  # nested conditional expressions expanded per statement


def _const_tuples(tree):
    """module-level NAME = (<constants>) bound exactly once and never re-bound anywhere in the module"""
    bound = {}
    for st in tree.body:
        tg = None
        if isinstance(st, ast.Assign) and len(st.targets) == 1 and isinstance(st.targets[0], ast.Name):
            tg, val = st.targets[0].id, st.value
        elif isinstance(st, ast.AnnAssign) and isinstance(st.target, ast.Name) and st.value is not None:
            tg, val = st.target.id, st.value
        if tg is not None:
            bound.setdefault(tg, []).append(val)
    out = {}
    for name, vals in bound.items():
        # a tuple of types (names / dotted names) for ``isinstance(v, NAME)``
        if len(vals) == 1 and isinstance(vals[0], ast.Tuple) and len(vals[0].elts) >= 2 and all(_dotted(e) for e in vals[0].elts):
            out[name] = vals[0]
        if len(vals) == 1 and isinstance(vals[0], ast.Tuple) and vals[0].elts and all(isinstance(e, ast.Constant) or (isinstance(e, ast.Tuple) and e.elts and all(isinstance(x, ast.Constant) for x in e.elts)) for e in vals[0].elts):
            out[name] = vals[0]
    # any other store to the name (global statement + assignment, del, augmented) disqualifies it
    for sub in ast.walk(tree):
        if isinstance(sub, ast.Name) and sub.id in out and isinstance(sub.ctx, (ast.Store, ast.Del)):
            n_defs = sum(1 for st in tree.body for t in (st.targets if isinstance(st, ast.Assign) else [st.target] if isinstance(st, ast.AnnAssign) else []) if t is sub)
            if n_defs == 0:
                out.pop(sub.id, None)
    return out


def _dotted(e):
    while isinstance(e, ast.Attribute):
        e = e.value
    return isinstance(e, ast.Name)


def _simple_subject(e):
    while isinstance(e, ast.Attribute):
        e = e.value
    return isinstance(e, ast.Name)


_PURE_PREDICATES = ("isinstance", "issubclass", "callable", "hasattr", "len", "bool", "type", "id")


def _call_free(e):
    for sub in ast.walk(e):
        if isinstance(sub, ast.Call):
            # predicates of the standard library that look at their argument and nothing else
            f = sub.func
            if (isinstance(f, ast.Name) and f.id in _PURE_PREDICATES) or (isinstance(f, ast.Attribute) and isinstance(f.value, ast.Name) and f.value.id == "inspect" and f.attr.startswith("is")):
                if not sub.keywords and all(isinstance(a, (ast.Name, ast.Attribute, ast.Constant)) for a in sub.args):
                    continue
            return False
        if isinstance(sub, (ast.Await, ast.Yield, ast.YieldFrom, ast.NamedExpr, ast.Lambda, ast.ListComp, ast.SetComp, ast.DictComp, ast.GeneratorExp, ast.Subscript)):
            return False
    return True


class _Subst(ast.NodeTransformer):
    def __init__(self, name, value):
        self.name, self.value = name, value

    def visit_Name(self, node):
        if node.id == self.name and isinstance(node.ctx, ast.Load):
            return ast.copy_location(copy.deepcopy(self.value), node)
        return node


class _Exprs(ast.NodeTransformer):
    """expression-level rewrites"""

    def __init__(self, consts):
        self.consts = consts
        self.count = 0

    def visit_Call(self, node):
        self.generic_visit(node)
        f = node.func
        if isinstance(f, ast.Name) and f.id == "isinstance" and len(node.args) == 2 and not node.keywords and isinstance(node.args[1], ast.Name) and node.args[1].id in self.consts and all(_dotted(e) for e in self.consts[node.args[1].id].elts):
            node.args[1] = copy.deepcopy(self.consts[node.args[1].id])
        if isinstance(f, ast.Name) and f.id == "isinstance" and len(node.args) == 2 and not node.keywords and isinstance(node.args[1], ast.Tuple) and len(node.args[1].elts) >= 2 and _simple_subject(node.args[0]) and not any(isinstance(e, ast.Starred) for e in node.args[1].elts):
            parts = [ast.copy_location(ast.Call(func=copy.deepcopy(f), args=[copy.deepcopy(node.args[0]), e], keywords=[]), node) for e in node.args[1].elts]
            self.count += 1
            return ast.copy_location(ast.BoolOp(op=ast.Or(), values=parts), node)
        if isinstance(f, ast.Name) and f.id in ("any", "all") and len(node.args) == 1 and not node.keywords and isinstance(node.args[0], (ast.GeneratorExp, ast.ListComp)):
            comp = node.args[0]
            if len(comp.generators) == 1:
                g = comp.generators[0]
                it = g.iter
                if isinstance(it, ast.Name) and it.id in self.consts:
                    it = self.consts[it.id]
                if not g.ifs and not g.is_async and isinstance(g.target, ast.Name) and isinstance(it, (ast.Tuple, ast.List)) and it.elts and all(isinstance(e, ast.Constant) for e in it.elts) and len(it.elts) <= 6:
                    # the target must not be re-bound inside the element
                    if not any(isinstance(s, ast.Name) and s.id == g.target.id and isinstance(s.ctx, ast.Store) for s in ast.walk(comp.elt)):
                        parts = [_Subst(g.target.id, e).visit(copy.deepcopy(comp.elt)) for e in it.elts]
                        self.count += 1
                        if len(parts) == 1:
                            return ast.copy_location(parts[0], node)
                        return ast.copy_location(ast.BoolOp(op=ast.Or() if f.id == "any" else ast.And(), values=parts), node)
        return node


    def visit_ListComp(self, node):
        """``[E(x) for x in (a, b, c)]`` over a short literal of plain names / attribute chains / constants is the
        display ``[E(a), E(b), E(c)]`` (reading a name or an attribute chain of a local has no effect to reorder)."""
        self.generic_visit(node)
        if len(node.generators) != 1:
            return node
        g = node.generators[0]
        it = g.iter
        if g.ifs or g.is_async or not isinstance(g.target, ast.Name) or not isinstance(it, (ast.Tuple, ast.List)) or not (1 <= len(it.elts) <= 4):
            return node
        if not all(isinstance(e, ast.Constant) or _dotted(e) for e in it.elts):
            return node
        if any(isinstance(s, (ast.Lambda, ast.ListComp, ast.SetComp, ast.DictComp, ast.GeneratorExp, ast.NamedExpr, ast.Await, ast.Yield, ast.YieldFrom)) for s in ast.walk(node.elt)):
            return node
        parts = [_Subst(g.target.id, e).visit(copy.deepcopy(node.elt)) for e in it.elts]
        self.count += 1
        return ast.copy_location(ast.List(elts=parts, ctx=ast.Load()), node)


def _first_ifexp(expr):
    """the first conditional expression evaluated unconditionally-or-not inside ``expr`` that is not inside a lambda
    or a comprehension (those are evaluated later / repeatedly)"""
    stack = [expr]
    while stack:
        e = stack.pop(0)
        if isinstance(e, ast.IfExp):
            return e
        if isinstance(e, (ast.Lambda, ast.ListComp, ast.SetComp, ast.DictComp, ast.GeneratorExp)):
            continue
        stack = list(ast.iter_child_nodes(e)) + stack
    return None


class _Replace(ast.NodeTransformer):
    def __init__(self, old, new):
        self.old, self.new = old, new

    def visit(self, node):
        if node is self.old:
            return self.new
        return self.generic_visit(node)


def _leading(e):
    """the sub-expression evaluated first"""
    while True:
        if isinstance(e, ast.BoolOp):
            e = e.values[0]
        elif isinstance(e, ast.Compare):
            e = e.left
        elif isinstance(e, ast.UnaryOp):
            e = e.operand
        else:
            return e


def _simple_value(e):
    if isinstance(e, ast.Constant):
        return True
    while isinstance(e, ast.Attribute):
        e = e.value
    return isinstance(e, ast.Name)


def _own_jumps(stmts):
    """a ``break`` / ``continue`` that belongs to the loop whose body ``stmts`` is"""
    for s in stmts:
        if isinstance(s, (ast.Break, ast.Continue)):
            return True
        if isinstance(s, (ast.For, ast.While, ast.AsyncFor)):
            if _own_jumps(s.orelse):
                return True
            continue
        if isinstance(s, (ast.FunctionDef, ast.AsyncFunctionDef, ast.ClassDef)):
            continue
        for field in ("body", "orelse", "finalbody"):
            sub = getattr(s, field, None)
            if isinstance(sub, list) and sub and isinstance(sub[0], ast.stmt) and _own_jumps(sub):
                return True
        for h in getattr(s, "handlers", []) or []:
            if _own_jumps(h.body):
                return True
    return False


class _Stmts:
    def __init__(self, consts=None):
        self.count = 0
        self.consts = consts or {}
        self.local_tables = {}
        self.adjacent = None
        self.sentinels = set()

    def unroll_search(self, st):
        """``for a in (c1, c2, c3): if P(a): S(a); break`` [``else: E``] over a literal tuple of constants is the ladder
        ``if P(c1): S(c1) elif P(c2): S(c2) elif P(c3): S(c3) else: E``; ``getattr(x, "name")`` with the constant filled
        in is written ``x.name``"""
        it = st.iter
        if isinstance(it, ast.Name):
            it = self.consts.get(it.id)
        if not (isinstance(st.target, ast.Name) and isinstance(it, (ast.Tuple, ast.List)) and 1 <= len(it.elts) <= 4 and all(isinstance(e, ast.Constant) for e in it.elts)):
            return None
        if not (len(st.body) == 1 and isinstance(st.body[0], ast.If) and not st.body[0].orelse and st.body[0].body and isinstance(st.body[0].body[-1], ast.Break)):
            return None
        inner = st.body[0]
        name = st.target.id
        rest = inner.body[:-1]
        for sub in ast.walk(ast.Module(body=rest + [ast.Expr(value=inner.test)], type_ignores=[])):
            if isinstance(sub, (ast.Break, ast.Continue, ast.FunctionDef, ast.AsyncFunctionDef, ast.Lambda, ast.ClassDef)):
                return None
            if isinstance(sub, ast.Name) and sub.id == name and isinstance(sub.ctx, (ast.Store, ast.Del)):
                return None
        # the loop variable must not be read after the loop
        class _Attr(ast.NodeTransformer):
            def visit_Call(self, node):
                self.generic_visit(node)
                if isinstance(node.func, ast.Name) and node.func.id == "getattr" and len(node.args) == 2 and not node.keywords and isinstance(node.args[1], ast.Constant) and isinstance(node.args[1].value, str) and node.args[1].value.isidentifier():
                    return ast.copy_location(ast.Attribute(value=node.args[0], attr=node.args[1].value, ctx=ast.Load()), node)
                return node

        chain = list(st.orelse)
        for e in reversed(it.elts):
            test = _Attr().visit(_Subst(name, e).visit(copy.deepcopy(inner.test)))
            body = [_Attr().visit(_Subst(name, e).visit(copy.deepcopy(s_))) for s_ in rest] or [ast.Pass()]
            chain = [ast.copy_location(ast.If(test=test, body=body, orelse=chain), st)]
        for c_ in chain:
            ast.fix_missing_locations(c_)
        self.count += 1
        return chain

    def unroll(self, st):
        """the copies of the body of a table-driven loop, or None"""
        if isinstance(st.target, ast.Name):
            return self.unroll_search(st)
        if st.orelse or not isinstance(st.target, ast.Tuple) or not all(isinstance(t, ast.Name) for t in st.target.elts):
            return None
        it = st.iter
        if isinstance(it, ast.Name):
            adj = getattr(st, "_sa_adjacent", None)
            adjacent = adj is not None and adj[0] == it.id
            it = (adj[1] if adjacent else None) or self.local_tables.get(it.id) or self.consts.get(it.id)
            # a table bound further away: constants only (a name in it may have been re-bound in between); a table
            # bound by the statement right before the loop may hold names and attribute reads as well
            if it is not None and not adjacent and not all(isinstance(e, ast.Tuple) and all(isinstance(x, ast.Constant) for x in e.elts) for e in it.elts):
                it = None
        if not isinstance(it, (ast.Tuple, ast.List)) or not (1 <= len(it.elts) <= 4):
            return None
        names = [t.id for t in st.target.elts]
        for e in it.elts:
            if not isinstance(e, (ast.Tuple, ast.List)) or len(e.elts) != len(names) or not all(_simple_value(x) for x in e.elts):
                return None
        if _own_jumps(st.body):
            return None
        for sub in ast.walk(ast.Module(body=st.body, type_ignores=[])):
            if isinstance(sub, ast.Name) and sub.id in names and isinstance(sub.ctx, (ast.Store, ast.Del)):
                return None
            if isinstance(sub, (ast.FunctionDef, ast.AsyncFunctionDef, ast.Lambda, ast.ClassDef)):
                return None  # a closure over the loop variables sees the last value, a copy would see its own
        out = []
        for e in it.elts:
            body = copy.deepcopy(st.body)
            for nm, val in zip(names, e.elts):
                body = [_Subst(nm, val).visit(s) for s in body]
            out.extend(body)
        self.count += 1
        return out

    def sentinel_get(self, body):
        """``x = m.get(k, SENTINEL)`` followed by ``if x is [not] SENTINEL:`` -- the single look-up form of
        ``if k in m: x = m[k]`` (SENTINEL a module-level ``object()``) -- is rewritten into the membership form."""
        out = []
        i = 0
        while i < len(body):
            st = body[i]
            nxt = body[i + 1] if i + 1 < len(body) else None
            done = False
            if isinstance(st, (ast.Assign, ast.AnnAssign)) and isinstance(getattr(st, "value", None), ast.Call) and isinstance(nxt, ast.If):
                tg = st.targets[0] if isinstance(st, ast.Assign) and len(st.targets) == 1 else (st.target if isinstance(st, ast.AnnAssign) else None)
                call = st.value
                t = nxt.test
                if (
                    isinstance(tg, ast.Name)
                    and isinstance(call.func, ast.Attribute)
                    and call.func.attr == "get"
                    and len(call.args) == 2
                    and not call.keywords
                    and isinstance(call.args[1], ast.Name)
                    and call.args[1].id in self.sentinels
                    and _call_free(call.func.value)
                    and _call_free(call.args[0])
                    and isinstance(t, ast.Compare)
                    and len(t.ops) == 1
                    and isinstance(t.ops[0], (ast.Is, ast.IsNot))
                    and isinstance(t.left, ast.Name)
                    and t.left.id == tg.id
                    and isinstance(t.comparators[0], ast.Name)
                    and t.comparators[0].id == call.args[1].id
                ):
                    m_, k_, s_ = call.func.value, call.args[0], call.args[1]
                    found = [ast.Assign(targets=[ast.Name(id=tg.id, ctx=ast.Store())], value=ast.Subscript(value=copy.deepcopy(m_), slice=copy.deepcopy(k_), ctx=ast.Load()))]
                    missing = [ast.Assign(targets=[ast.Name(id=tg.id, ctx=ast.Store())], value=ast.Name(id=s_.id, ctx=ast.Load()))]
                    test = ast.Compare(left=copy.deepcopy(k_), ops=[ast.In()], comparators=[copy.deepcopy(m_)])
                    if isinstance(t.ops[0], ast.IsNot):
                        new = ast.If(test=test, body=found + nxt.body, orelse=missing + nxt.orelse)
                    else:
                        new = ast.If(test=test, body=found + nxt.orelse, orelse=missing + nxt.body)
                    # the name is still bound to the sentinel on the "missing" arm; uses of it there keep their meaning
                    ast.copy_location(new, st)
                    ast.fix_missing_locations(new)
                    out.append(new)
                    self.count += 1
                    i += 2
                    done = True
            if not done:
                out.append(st)
                i += 1
        return out

    def block(self, body):
        body = self.sentinel_get(body) if self.sentinels else body
        out = []
        prev = None
        for st in body:
            if isinstance(st, ast.For) and isinstance(st.iter, ast.Name) and isinstance(prev, ast.Assign) and len(prev.targets) == 1 and isinstance(prev.targets[0], ast.Name) and prev.targets[0].id == st.iter.id and isinstance(prev.value, (ast.Tuple, ast.List)):
                st._sa_adjacent = (st.iter.id, prev.value)
            prev = st
            out.extend(self.stmt(st))
        return out

    def stmt(self, st):
        # children first
        for field in ("body", "orelse", "finalbody"):
            sub = getattr(st, field, None)
            if isinstance(sub, list) and sub and isinstance(sub[0], ast.stmt):
                setattr(st, field, self.block(sub))
        for h in getattr(st, "handlers", []) or []:
            h.body = self.block(h.body)
        for c in getattr(st, "cases", []) or []:
            c.body = self.block(c.body)
        pre = []
        if isinstance(st, ast.If):
            lead = _leading(st.test)
            if isinstance(lead, ast.NamedExpr) and isinstance(lead.target, ast.Name):
                assign = ast.copy_location(ast.Assign(targets=[ast.Name(id=lead.target.id, ctx=ast.Store())], value=lead.value, lineno=st.lineno), st)
                ast.fix_missing_locations(assign)
                load = ast.copy_location(ast.Name(id=lead.target.id, ctx=ast.Load()), lead)
                if st.test is lead:
                    st.test = load
                else:
                    st.test = _Replace(lead, load).visit(st.test)
                pre.append(assign)
                self.count += 1
        if isinstance(st, ast.For):
            copies = self.unroll(st)
            if copies is not None:
                return pre + copies
        if isinstance(st, ast.Assign) and len(st.targets) == 1 and isinstance(st.targets[0], ast.Name) and isinstance(st.value, ast.Tuple):
            # a table bound to a local just for the loop that follows
            self.local_tables[st.targets[0].id] = st.value
        if isinstance(st, (ast.Assign, ast.AnnAssign, ast.AugAssign, ast.Return, ast.Expr)) and getattr(st, "value", None) is not None:
            return pre + self.split(st, _MAX_SPLIT)
        return pre + [st]

    def split(self, st, budget):
        if budget <= 0:
            return [st]
        ie = _first_ifexp(st.value)
        if ie is None or not _call_free(ie.test):
            return [st]
        # only where the term-level reading of a conditional expression (a value chosen between two values) is not
        # enough: an arm performs a call, or the chosen value is an argument of a call; and only a single one
        n_all = sum(1 for sub in ast.walk(st.value) if isinstance(sub, ast.IfExp))
        arm_calls = any(isinstance(sub, (ast.Call, ast.Await)) for arm in (ie.body, ie.orelse) for sub in ast.walk(arm))
        if n_all != 1 or not (arm_calls or ie is not st.value):
            return [st]
        a, b = copy.deepcopy(st), None
        # the copies share nothing with each other; find the same node in each copy by position in a walk
        idx = [i for i, n in enumerate(ast.walk(st)) if n is ie][0]
        b = copy.deepcopy(st)
        na = list(ast.walk(a))[idx]
        nb = list(ast.walk(b))[idx]
        if a.value is na:
            a.value = na.body
        else:
            _Replace(na, na.body).visit(a)
        if b.value is nb:
            b.value = nb.orelse
        else:
            _Replace(nb, nb.orelse).visit(b)
        self.count += 1
        new = ast.copy_location(ast.If(test=copy.deepcopy(ie.test), body=self.split(a, budget - 1), orelse=self.split(b, budget - 1)), st)
        return [new]


def apply(tree):
    """Rewrite ``tree`` in place; returns the number of rewrites."""
    consts = _const_tuples(tree)
    ex = _Exprs(consts)
    ex.visit(tree)
    sm = _Stmts(consts)
    # module-level sentinels: ``NAME = object()`` bound once
    for st_ in tree.body:
        if isinstance(st_, ast.Assign) and len(st_.targets) == 1 and isinstance(st_.targets[0], ast.Name) and isinstance(st_.value, ast.Call) and isinstance(st_.value.func, ast.Name) and st_.value.func.id == "object" and not st_.value.args and not st_.value.keywords:
            n_bind = sum(1 for x in ast.walk(tree) if isinstance(x, ast.Name) and x.id == st_.targets[0].id and isinstance(x.ctx, (ast.Store, ast.Del)))
            if n_bind == 1:
                sm.sentinels.add(st_.targets[0].id)

    def top(body):
        # module and class level statements stay as they are (constants, version guards); function bodies are rewritten
        for st in body:
            if isinstance(st, (ast.FunctionDef, ast.AsyncFunctionDef)):
                sm.local_tables = {}
                st.body = sm.block(st.body)
            elif isinstance(st, ast.ClassDef):
                top(st.body)
            elif isinstance(st, (ast.If, ast.Try)):
                top(st.body)
                top(st.orelse)
                for h in getattr(st, "handlers", []):
                    top(h.body)

    top(tree.body)
    ast.fix_missing_locations(tree)
    return ex.count + sm.count
