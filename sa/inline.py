"""Source-level inlining of helper functions the rules do not know (a normalisation pass of the program model).

A module-level function or method that is not in the anchor table (``known.KNOWN``) is a helper introduced by a
refactoring (or by a change under test).  Calls to it are expanded in place -- parameters bound to the argument
expressions, locals renamed apart, ``return`` turned into an assignment -- so that the per-function analyses see
the code the helper contains.  Only structured helpers are inlined: no generators, no ``return`` inside a loop,
no recursion, no ``global``/``nonlocal``.  A call that cannot be inlined is left as it is (an opaque call).

Inlined call positions: the call is the whole right-hand side of an assignment, an expression statement, the
value of a ``return``, or the test of an ``if`` (optionally under ``await`` for async helpers).
"""
import ast
import copy

from .known import KNOWN

MAX_DEPTH = 3


def _contains(node_list, types, stop_at_defs=True):
    for st in node_list:
        for sub in ast.walk(st):
            if isinstance(sub, types):
                return True
    return False


def _loop_return_shape(st):
    """``for ...: ... if c: return E ...`` -- a loop without ``else`` and without a ``break`` of its own, whose returns sit
    in the loop body under nothing but ``if`` / ``with``: the return becomes ``<result> = E; break`` and the statements
    after the loop move into the loop's ``else`` clause (they run exactly when the loop was not left by a return)."""
    if not isinstance(st, (ast.For, ast.AsyncFor)) or st.orelse:
        return False

    def ok(stmts):
        for s in stmts:
            if isinstance(s, (ast.Break,)):
                return False
            if isinstance(s, ast.If):
                if not ok(s.body) or not ok(s.orelse):
                    return False
            elif isinstance(s, (ast.With, ast.AsyncWith)):
                if not ok(s.body):
                    return False
            elif isinstance(s, (ast.For, ast.While, ast.AsyncFor, ast.Try)):
                # a nested loop may break / continue on its own, but must not return
                if any(isinstance(x, ast.Return) for x in ast.walk(s)):
                    return False
            elif isinstance(s, ast.Match) if hasattr(ast, "Match") else False:
                return False
        return True

    return ok(st.body)


def _returns_to_breaks(stmts, ret_name):
    out = []
    for s in stmts:
        if isinstance(s, ast.Return):
            val = s.value if s.value is not None else ast.Constant(value=None)
            out.append(ast.copy_location(ast.Assign(targets=[ast.Name(id=ret_name, ctx=ast.Store())], value=val), s))
            out.append(ast.copy_location(ast.Break(), s))
            return out
        if isinstance(s, ast.If):
            s = ast.copy_location(ast.If(test=s.test, body=_returns_to_breaks(s.body, ret_name) or [ast.Pass()], orelse=_returns_to_breaks(s.orelse, ret_name)), s)
        elif isinstance(s, (ast.With, ast.AsyncWith)):
            s = ast.copy_location(type(s)(items=s.items, body=_returns_to_breaks(s.body, ret_name)), s)
        out.append(s)
    return out


def _returns_inside_loop(stmts):
    for i, st in enumerate(stmts):
        if isinstance(st, (ast.For, ast.While, ast.AsyncFor)):
            if any(isinstance(sub, ast.Return) for sub in ast.walk(st)):
                if not _loop_return_shape(st):
                    return True
                # the statements after the loop become its else clause: they must be fine themselves
                return _returns_inside_loop(stmts[i + 1 :])
        elif isinstance(st, (ast.If, ast.Try, ast.With, ast.AsyncWith)):
            for field in ("body", "orelse", "finalbody"):
                if _returns_inside_loop(getattr(st, field, []) or []):
                    return True
            if isinstance(st, ast.Try):
                for h in st.handlers:
                    if _returns_inside_loop(h.body):
                        return True
                # a return inside a try statement is turned into an assignment only in the simple shape
                # ``try: ...; return X  except E: ... raise/return`` (no finally, no else, nothing can fall through)
                if any(isinstance(s, ast.Return) for s in ast.walk(st)) and not _simple_try_return(st):
                    return True
    return False


def _simple_try_return(st):
    if st.finalbody or st.orelse or not st.body:
        return False
    if any(isinstance(x, ast.Return) for s in st.body[:-1] for x in ast.walk(s)):
        return False
    if not isinstance(st.body[-1], ast.Return):
        return False
    for h in st.handlers:
        if not _all_paths_return(h.body):
            return False
        if any(isinstance(x, (ast.Try, ast.For, ast.While)) and any(isinstance(y, ast.Return) for y in ast.walk(x)) for s in h.body for x in ast.walk(s)):
            return False
    return True


def inlinable(fn):
    if fn.decorator_list:
        return False
    a = fn.args
    if a.vararg or a.kwarg:
        return False
    body = fn.body
    for sub in ast.walk(fn):
        if isinstance(sub, (ast.Yield, ast.YieldFrom, ast.Global, ast.Nonlocal)):
            return False
        if isinstance(sub, (ast.FunctionDef, ast.AsyncFunctionDef, ast.ClassDef, ast.Lambda)) and sub is not fn:
            return False
        if isinstance(sub, ast.Call) and isinstance(sub.func, ast.Name) and sub.func.id == fn.name:
            return False
    if _returns_inside_loop(body):
        return False
    return True


def _all_paths_return(stmts):
    if not stmts:
        return False
    last = stmts[-1]
    if isinstance(last, (ast.Return, ast.Raise)):
        return True
    if isinstance(last, ast.If):
        return _all_paths_return(last.body) and _all_paths_return(last.orelse)
    return False


def _eliminate_returns(stmts, ret_name):
    """Rewrite ``stmts`` so that ``return v`` becomes ``ret_name = v`` and nothing after it executes."""
    out = []
    for i, st in enumerate(stmts):
        if isinstance(st, ast.Return):
            val = st.value if st.value is not None else ast.Constant(value=None)
            out.append(ast.copy_location(ast.Assign(targets=[ast.Name(id=ret_name, ctx=ast.Store())], value=val), st))
            return out
        if isinstance(st, ast.If) and any(isinstance(s, ast.Return) for s in ast.walk(st)):
            rest = stmts[i + 1 :]
            body = _eliminate_returns(list(st.body) + ([] if _all_paths_return(st.body) else copy.deepcopy(rest)), ret_name)
            orelse = _eliminate_returns(list(st.orelse) + ([] if _all_paths_return(st.orelse) else copy.deepcopy(rest)), ret_name)
            new = ast.copy_location(ast.If(test=st.test, body=body or [ast.Pass()], orelse=orelse), st)
            out.append(new)
            return out
        if isinstance(st, (ast.For, ast.AsyncFor)) and any(isinstance(s, ast.Return) for s in ast.walk(st)):
            # only the shape accepted by _loop_return_shape gets here
            rest = _eliminate_returns(stmts[i + 1 :], ret_name)
            new = ast.copy_location(type(st)(target=st.target, iter=st.iter, body=_returns_to_breaks(st.body, ret_name), orelse=rest), st)
            out.append(new)
            return out
        if isinstance(st, ast.Try) and any(isinstance(s, ast.Return) for s in ast.walk(st)):
            # only the shape accepted by _simple_try_return gets here: every path through it returns or raises
            new = ast.copy_location(
                ast.Try(
                    body=_eliminate_returns(list(st.body), ret_name),
                    handlers=[ast.copy_location(ast.ExceptHandler(type=h.type, name=h.name, body=_eliminate_returns(list(h.body), ret_name)), h) for h in st.handlers],
                    orelse=[],
                    finalbody=[],
                ),
                st,
            )
            out.append(new)
            return out
        out.append(st)
    return out


def _cm_shape(fn):
    """(pre statements, yielded expr or None, finally statements or None, post statements) of a simple generator CM."""
    a = fn.args
    if a.vararg or a.kwarg:
        return None
    yields = [x for x in ast.walk(fn) if isinstance(x, (ast.Yield, ast.YieldFrom))]
    if len(yields) != 1 or isinstance(yields[0], ast.YieldFrom):
        return None
    body = [s for s in fn.body if not (isinstance(s, ast.Expr) and isinstance(s.value, ast.Constant) and isinstance(s.value.value, str))]
    for i, st in enumerate(body):
        if isinstance(st, ast.Expr) and st.value is yields[0]:
            if any(isinstance(x, ast.Return) for s2 in body for x in ast.walk(s2)):
                return None
            return body[:i], yields[0].value, None, body[i + 1 :]
        if isinstance(st, ast.Try) and not st.handlers and not st.orelse and len(st.body) == 1 and isinstance(st.body[0], ast.Expr) and st.body[0].value is yields[0]:
            if body[i + 1 :] or any(isinstance(x, ast.Return) for s2 in body for x in ast.walk(s2)):
                return None
            return body[:i], yields[0].value, st.finalbody, []
    return None


def _is_doc(s):
    return isinstance(s, ast.Expr) and isinstance(s.value, ast.Constant) and isinstance(s.value.value, str)


def _class_cm_shape(cd):
    """A hand-written context manager class of the simplest kind -- ``__init__`` stores its parameters on ``self``,
    ``__enter__`` does nothing, ``__exit__`` runs plain statements and returns nothing -- as (synthetic function,
    shape) in the terms of ``_cm_shape``: ``with C(a): body`` is ``try: body finally: <statements of __exit__>``."""
    methods = {s.name: s for s in cd.body if isinstance(s, ast.FunctionDef)}
    others = [s for s in cd.body if not isinstance(s, ast.FunctionDef) and not _is_doc(s) and not (isinstance(s, ast.Assign) and len(s.targets) == 1 and isinstance(s.targets[0], ast.Name) and s.targets[0].id == "__slots__")]
    if others or set(methods) != {"__init__", "__enter__", "__exit__"} or cd.bases or cd.decorator_list or cd.keywords:
        return None
    init, enter, exit_ = methods["__init__"], methods["__enter__"], methods["__exit__"]
    for m in (init, enter, exit_):
        if m.decorator_list or not m.args.args:
            return None
    a = init.args
    if a.vararg or a.kwarg or a.kwonlyargs or a.posonlyargs:
        return None
    self_i = a.args[0].arg
    params = [x.arg for x in a.args[1:]]
    attr_of = {}
    for s in init.body:
        if _is_doc(s) or isinstance(s, ast.Pass):
            continue
        tg = s.targets[0] if isinstance(s, ast.Assign) and len(s.targets) == 1 else (s.target if isinstance(s, ast.AnnAssign) and s.value is not None else None)
        if tg is None or not (isinstance(tg, ast.Attribute) and isinstance(tg.value, ast.Name) and tg.value.id == self_i) or not (isinstance(s.value, ast.Name) and s.value.id in params) or tg.attr in attr_of:
            return None
        attr_of[tg.attr] = s.value.id
    # __enter__: plain statements (they run before the ``try``, like the statements before the ``yield`` of a generator
    # context manager), nothing (or None) is returned
    enter_body = []
    for i_, s in enumerate(enter.body):
        if _is_doc(s) or isinstance(s, ast.Pass):
            continue
        if isinstance(s, ast.Return) and (s.value is None or (isinstance(s.value, ast.Constant) and s.value.value is None)) and i_ == len(enter.body) - 1:
            continue
        if not isinstance(s, (ast.Expr, ast.Assign)) or any(isinstance(sub, (ast.Return, ast.Yield, ast.YieldFrom, ast.Await, ast.FunctionDef, ast.Lambda)) for sub in ast.walk(s)):
            return None
        if isinstance(s, ast.Assign) and not all(isinstance(t_, ast.Name) for t_ in s.targets):
            return None
        enter_body.append(s)
    if enter.args.vararg or enter.args.kwarg or len(enter.args.args) != 1:
        return None
    self_n = enter.args.args[0].arg
    ea = exit_.args
    self_e = ea.args[0].arg
    exc_names = set(x.arg for x in ea.args[1:]) | ({ea.vararg.arg} if ea.vararg else set())
    body = [s for s in exit_.body if not _is_doc(s) and not isinstance(s, ast.Pass)]
    for s in body:
        for sub in ast.walk(s):
            if isinstance(sub, (ast.Return, ast.Yield, ast.YieldFrom, ast.Await, ast.FunctionDef, ast.Lambda)):
                return None
            if isinstance(sub, ast.Name) and sub.id in exc_names:
                return None
            if isinstance(sub, ast.Name) and sub.id == self_e:
                pass
    # self.<attr> -> the parameter it was initialised from; any other use of self is not understood
    class _Sub(ast.NodeTransformer):
        ok = True

        def visit_Attribute(self, node):
            if isinstance(node.value, ast.Name) and node.value.id == self_e:
                if node.attr in attr_of and isinstance(node.ctx, ast.Load):
                    return ast.copy_location(ast.Name(id=attr_of[node.attr], ctx=ast.Load()), node)
                _Sub.ok = False
            return self.generic_visit(node)

        def visit_Name(self, node):
            if node.id == self_e:
                _Sub.ok = False
            return node

    _Sub.ok = True
    fin = [_Sub().visit(copy.deepcopy(s)) for s in body]
    if not _Sub.ok:
        return None
    pre = []
    if enter_body:
        self_e = self_n
        pre = [_Sub().visit(copy.deepcopy(s)) for s in enter_body]
        if not _Sub.ok:
            return None
    fn = ast.FunctionDef(name=cd.name, args=ast.arguments(posonlyargs=[], args=[ast.arg(arg=p) for p in params], vararg=None, kwonlyargs=[], kw_defaults=[], kwarg=None, defaults=list(a.defaults)), body=fin or [ast.Pass()], decorator_list=[], returns=None, type_comment=None, lineno=cd.lineno, col_offset=0)
    return fn, (pre, None, fin, [])


class _Rename(ast.NodeTransformer):
    def __init__(self, mapping):
        self.mapping = mapping

    def visit_Name(self, node):
        if node.id in self.mapping:
            return ast.copy_location(ast.Name(id=self.mapping[node.id], ctx=node.ctx), node)
        return node

    def visit_ExceptHandler(self, node):
        if node.name and node.name in self.mapping:
            node.name = self.mapping[node.name]
        return self.generic_visit(node)


class Inliner:
    def __init__(self, tree, module_name):
        self.tree = tree
        self.module = module_name
        known = set(KNOWN.get(module_name, []))
        self.known = known
        self.helpers = {}  # key -> FunctionDef ; key = name or 'Class.name'
        for st in tree.body:
            self._collect(st, None, known)
        self.counter = 0
        self.inlined = []  # (helper key, caller name, lineno)
        # generator-based context managers (``@contextlib.contextmanager``) with one top-level ``yield``
        self.cm_helpers = {}
        for st in tree.body:
            if isinstance(st, ast.FunctionDef) and st.name not in known and len(st.decorator_list) == 1 and ast.unparse(st.decorator_list[0]) in ("contextlib.contextmanager", "contextmanager"):
                shape = _cm_shape(st)
                if shape is not None:
                    self.cm_helpers[st.name] = (st, shape)
            if isinstance(st, ast.ClassDef) and st.name not in known and st.name.startswith("_"):
                got = _class_cm_shape(st)
                if got is not None:
                    self.cm_helpers[st.name] = got

    def _collect(self, st, cls, known):
        if isinstance(st, (ast.FunctionDef, ast.AsyncFunctionDef)):
            key = (cls + "." if cls else "") + st.name
            if key not in known and inlinable(st):
                self.helpers[key] = st
        elif isinstance(st, ast.ClassDef) and cls is None:
            for s in st.body:
                self._collect(s, st.name, known)
        elif isinstance(st, ast.If):
            for s in st.body + st.orelse:
                self._collect(s, cls, known)

    def _local_helpers(self, outer):
        """Helper functions defined inside ``outer`` next to the closures that call them (``def resolve_call(...)`` shared
        by the two ``wrapper`` closures).  Expanding a call inside a sibling closure keeps the meaning when the free
        names of the helper mean the same there: none of them is a local of any other function nested in ``outer``."""
        nested = []

        def scan(stmts):
            for s in stmts:
                if isinstance(s, (ast.FunctionDef, ast.AsyncFunctionDef)):
                    nested.append(s)
                elif isinstance(s, ast.If):
                    scan(s.body)
                    scan(s.orelse)

        scan(outer.body)
        names = [f.name for f in nested]
        out = {}
        for f in nested:
            if f.name in self.known or f.name in self.helpers or f.name == "wrapper" or names.count(f.name) != 1 or not inlinable(f):
                continue
            a = f.args
            own = set(x.arg for x in a.posonlyargs + a.args + a.kwonlyargs)
            own |= set(n.id for n in ast.walk(f) if isinstance(n, ast.Name) and isinstance(n.ctx, (ast.Store, ast.Del)))
            free = set(n.id for n in ast.walk(f) if isinstance(n, ast.Name) and isinstance(n.ctx, ast.Load)) - own
            clash = False
            for g in nested:
                if g is f:
                    continue
                ga = g.args
                g_locals = set(x.arg for x in ga.posonlyargs + ga.args + ga.kwonlyargs)
                if ga.vararg:
                    g_locals.add(ga.vararg.arg)
                if ga.kwarg:
                    g_locals.add(ga.kwarg.arg)
                g_locals |= set(n.id for n in ast.walk(g) if isinstance(n, ast.Name) and isinstance(n.ctx, (ast.Store, ast.Del)))
                if free & g_locals:
                    clash = True
            # the name itself must only be called (not stored, passed on or re-bound)
            uses = [n for n in ast.walk(outer) if isinstance(n, ast.Name) and n.id == f.name]
            calls = [c.func for c in ast.walk(outer) if isinstance(c, ast.Call) and isinstance(c.func, ast.Name) and c.func.id == f.name]
            if clash or len(uses) != len(calls):
                continue
            out[f.name] = f
        return out

    # ------------------------------------------------------------------ call recognition
    def _helper_of_call(self, call, cls):
        if not isinstance(call, ast.Call):
            return None
        f = call.func
        if isinstance(f, ast.Name) and f.id in self.helpers:
            return f.id, False
        if isinstance(f, ast.Attribute) and isinstance(f.value, ast.Name) and f.value.id == "self" and cls is not None:
            key = cls + "." + f.attr
            if key in self.helpers:
                return key, True
        return None

    def _match(self, expr, cls, caller_async):
        """expr is ``helper(...)`` or ``await helper(...)`` -> (key, call, is_method) or None."""
        awaited = False
        if isinstance(expr, ast.Await):
            awaited = True
            expr = expr.value
        h = self._helper_of_call(expr, cls)
        if h is None:
            return None
        key, is_method = h
        fn = self.helpers[key]
        is_async = isinstance(fn, ast.AsyncFunctionDef)
        if is_async != awaited:
            return None
        if is_async and not caller_async:
            return None
        if any(isinstance(a, ast.Starred) for a in expr.args) or any(kw.arg is None for kw in expr.keywords):
            return None
        return key, expr, is_method

    # ------------------------------------------------------------------ expansion
    def _expand(self, key, call, is_method, at):
        fn = self.helpers[key]
        self.counter += 1
        k = self.counter
        a = fn.args
        params = [x.arg for x in a.posonlyargs + a.args]
        kwonly = [x.arg for x in a.kwonlyargs]
        defaults = dict(zip(params[len(params) - len(a.defaults) :], a.defaults))
        for x, d in zip(a.kwonlyargs, a.kw_defaults):
            if d is not None:
                defaults[x.arg] = d
        bound = {}
        pos_params = params[1:] if is_method else params
        if len(call.args) > len(pos_params):
            return None
        for p, arg in zip(pos_params, call.args):
            bound[p] = arg
        for kw in call.keywords:
            if kw.arg not in params + kwonly or kw.arg in bound:
                return None
            bound[kw.arg] = kw.value
        for p in pos_params + kwonly:
            if p not in bound:
                if p in defaults:
                    bound[p] = defaults[p]
                else:
                    return None
        # rename every local of the helper apart
        locals_ = set(pos_params + kwonly)
        for sub in ast.walk(fn):
            if isinstance(sub, ast.Name) and isinstance(sub.ctx, (ast.Store, ast.Del)):
                locals_.add(sub.id)
            if isinstance(sub, ast.ExceptHandler) and sub.name:
                locals_.add(sub.name)
        mapping = {n: "%s__i%d" % (n, k) for n in locals_}
        ret_name = "_ret__i%d" % k
        body = [s for s in copy.deepcopy(fn.body) if not (isinstance(s, ast.Expr) and isinstance(s.value, ast.Constant) and isinstance(s.value.value, str))]
        body = _eliminate_returns(body, ret_name)
        ren = _Rename(mapping)
        body = [ren.visit(s) for s in body]
        pre = []
        for p in pos_params + kwonly:
            pre.append(ast.copy_location(ast.Assign(targets=[ast.Name(id=mapping[p], ctx=ast.Store())], value=bound[p]), at))
        pre.append(ast.copy_location(ast.Assign(targets=[ast.Name(id=ret_name, ctx=ast.Store())], value=ast.Constant(value=None)), at))
        stmts = pre + body
        for s in stmts:
            ast.fix_missing_locations(s)
        return stmts, ret_name

    def _expand_cm(self, st, cls, caller_async, caller_name, depth):
        """``with cm(args) as x: body`` -> bind params; pre; [x = yielded]; try: body finally: fin   (or body; post)."""
        call = st.items[0].context_expr
        fn, (pre, yielded, fin, post) = self.cm_helpers[call.func.id]
        if any(isinstance(a, ast.Starred) for a in call.args) or any(kw.arg is None for kw in call.keywords):
            return None
        self.counter += 1
        k = self.counter
        a = fn.args
        params = [x.arg for x in a.posonlyargs + a.args] + [x.arg for x in a.kwonlyargs]
        defaults = dict(zip([x.arg for x in a.posonlyargs + a.args][len(a.posonlyargs + a.args) - len(a.defaults) :], a.defaults))
        for x, d in zip(a.kwonlyargs, a.kw_defaults):
            if d is not None:
                defaults[x.arg] = d
        bound = {}
        pos = [x.arg for x in a.posonlyargs + a.args]
        if len(call.args) > len(pos):
            return None
        for p_, arg in zip(pos, call.args):
            bound[p_] = arg
        for kw in call.keywords:
            if kw.arg not in params or kw.arg in bound:
                return None
            bound[kw.arg] = kw.value
        for p_ in params:
            if p_ not in bound:
                if p_ in defaults:
                    bound[p_] = defaults[p_]
                else:
                    return None
        locals_ = set(params)
        for sub in ast.walk(fn):
            if isinstance(sub, ast.Name) and isinstance(sub.ctx, (ast.Store, ast.Del)):
                locals_.add(sub.id)
        mapping = {n: "%s__i%d" % (n, k) for n in locals_}
        ren = _Rename(mapping)
        cp = lambda stmts: [ren.visit(copy.deepcopy(s_)) for s_ in stmts]
        out = [ast.copy_location(ast.Assign(targets=[ast.Name(id=mapping[p_], ctx=ast.Store())], value=bound[p_]), st) for p_ in params]
        out += cp(pre)
        if st.items[0].optional_vars is not None:
            val = ren.visit(copy.deepcopy(yielded)) if yielded is not None else ast.Constant(value=None)
            out.append(ast.copy_location(ast.Assign(targets=[st.items[0].optional_vars], value=val), st))
        body = self._rewrite_block(st.body, cls, caller_async, caller_name, depth)
        if fin is not None:
            out.append(ast.copy_location(ast.Try(body=body, handlers=[], orelse=[], finalbody=cp(fin)), st))
        else:
            out += body + cp(post)
        for s_ in out:
            ast.fix_missing_locations(s_)
        self.inlined.append((call.func.id, caller_name, getattr(st, "lineno", 0)))
        return out

    def _rewrite_block(self, stmts, cls, caller_async, caller_name, depth):
        out = []
        for st in stmts:
            out.extend(self._rewrite_stmt(st, cls, caller_async, caller_name, depth))
        return out

    def _rewrite_stmt(self, st, cls, caller_async, caller_name, depth):
        # nested function definitions: their own bodies
        if isinstance(st, (ast.FunctionDef, ast.AsyncFunctionDef)):
            st.body = self._rewrite_block(st.body, cls, isinstance(st, ast.AsyncFunctionDef), st.name, 0)
            return [st]
        if isinstance(st, ast.ClassDef):
            return [st]
        # ``f(a, helper(x))`` as a statement / assigned / returned: the helper call is given a name of its own first
        # (``t = helper(x); f(a, t)``) when everything evaluated before it is free of calls, so that the order of
        # effects stays the same
        if isinstance(st, (ast.Expr, ast.Assign, ast.Return)) and isinstance(getattr(st, "value", None), ast.Call) and depth < MAX_DEPTH and self._match(st.value, cls, caller_async) is None:
            outer = st.value
            simple = lambda e: not any(isinstance(x, (ast.Call, ast.Await, ast.Yield, ast.YieldFrom, ast.NamedExpr, ast.Lambda, ast.GeneratorExp, ast.ListComp, ast.SetComp, ast.DictComp, ast.Subscript)) for x in ast.walk(e))
            if simple(outer.func) and not any(isinstance(a_, ast.Starred) for a_ in outer.args) and all(kw.arg is not None for kw in outer.keywords):
                slots = [("a", i_) for i_ in range(len(outer.args))] + [("k", i_) for i_ in range(len(outer.keywords))]
                exprs = list(outer.args) + [kw.value for kw in outer.keywords]
                for j_, e_ in enumerate(exprs):
                    if self._match(e_, cls, caller_async) is not None and all(simple(x) for x in exprs[:j_]):
                        self.counter += 1
                        tmp = "_arg__i%d" % self.counter
                        first = ast.copy_location(ast.Assign(targets=[ast.Name(id=tmp, ctx=ast.Store())], value=e_), st)
                        new_call = copy.copy(outer)
                        new_call.args = list(outer.args)
                        new_call.keywords = [copy.copy(kw) for kw in outer.keywords]
                        if slots[j_][0] == "a":
                            new_call.args[slots[j_][1]] = ast.Name(id=tmp, ctx=ast.Load())
                        else:
                            new_call.keywords[slots[j_][1]].value = ast.Name(id=tmp, ctx=ast.Load())
                        new_st = copy.copy(st)
                        new_st.value = new_call
                        ast.fix_missing_locations(first)
                        ast.fix_missing_locations(ast.copy_location(new_st, st))
                        return self._rewrite_stmt(first, cls, caller_async, caller_name, depth) + self._rewrite_stmt(new_st, cls, caller_async, caller_name, depth)
                    if not simple(e_):
                        break
        m = None
        kind = None
        if isinstance(st, (ast.Assign, ast.AnnAssign)) and getattr(st, "value", None) is not None:
            m = self._match(st.value, cls, caller_async)
            kind = "assign"
        elif isinstance(st, ast.Expr):
            m = self._match(st.value, cls, caller_async)
            kind = "expr"
        elif isinstance(st, ast.Return) and st.value is not None:
            m = self._match(st.value, cls, caller_async)
            kind = "return"
        elif isinstance(st, ast.If):
            m = self._match(st.test, cls, caller_async)
            kind = "if"
        if m is not None and depth < MAX_DEPTH:
            key, call, is_method = m
            exp = self._expand(key, call, is_method, st)
            if exp is not None:
                stmts, ret_name = exp
                self.inlined.append((key, caller_name, getattr(st, "lineno", 0)))
                # helpers may call further helpers
                stmts = self._rewrite_block(stmts, cls, caller_async, caller_name, depth + 1)
                ret = ast.Name(id=ret_name, ctx=ast.Load())
                if kind == "assign":
                    new = copy.copy(st)
                    new.value = ret
                    return stmts + [ast.fix_missing_locations(ast.copy_location(new, st))]
                if kind == "expr":
                    return stmts
                if kind == "return":
                    return stmts + [ast.fix_missing_locations(ast.copy_location(ast.Return(value=ret), st))]
                if kind == "if":
                    new = ast.copy_location(ast.If(test=ret, body=self._rewrite_block(st.body, cls, caller_async, caller_name, depth), orelse=self._rewrite_block(st.orelse, cls, caller_async, caller_name, depth)), st)
                    return stmts + [ast.fix_missing_locations(new)]
        if isinstance(st, ast.With) and len(st.items) == 1 and isinstance(st.items[0].context_expr, ast.Call) and isinstance(st.items[0].context_expr.func, ast.Name) and st.items[0].context_expr.func.id in self.cm_helpers and depth < MAX_DEPTH:
            exp = self._expand_cm(st, cls, caller_async, caller_name, depth)
            if exp is not None:
                return exp
        # recurse into compound statements
        for field in ("body", "orelse", "finalbody"):
            if hasattr(st, field) and isinstance(getattr(st, field), list):
                setattr(st, field, self._rewrite_block(getattr(st, field), cls, caller_async, caller_name, depth))
        if isinstance(st, ast.Try):
            for h in st.handlers:
                h.body = self._rewrite_block(h.body, cls, caller_async, caller_name, depth)
        return [st]

    def run(self):
        def top(stmts, cls):
            for st in stmts:
                if isinstance(st, (ast.FunctionDef, ast.AsyncFunctionDef)):
                    local = self._local_helpers(st)
                    self.helpers.update(local)
                    st.body = self._rewrite_block(st.body, cls, isinstance(st, ast.AsyncFunctionDef), st.name, 0)
                    for k_ in local:
                        del self.helpers[k_]
                elif isinstance(st, ast.ClassDef):
                    top(st.body, st.name if cls is None else cls)
                elif isinstance(st, ast.If):
                    top(st.body, cls)
                    top(st.orelse, cls)

        top(self.tree.body, None)
        ast.fix_missing_locations(self.tree)
        return self.tree


def apply(tree, module_name):
    """Inline unknown helpers of ``module_name``; returns (tree, [(helper, caller, line), ...])."""
    inl = Inliner(tree, module_name)
    tree = inl.run()
    return tree, inl.inlined
