"""T-prov / ownership: how the metaclass builds the merged contract lists (shared by C04, C08, C16, C17).

* ownership      -- every in-place list mutation in the package hits a list that is Fresh (created in the same
                    activation) or Owned by the subject being defined; never a list borrowed from a base.
* provenance     -- the lists stored on the new function's checker are ``base_1 .. base_n`` (in the order of
                    ``bases``) followed by the function's own, built by concatenation into a fresh list.
* base-loop table-- decision table of one iteration of the loop over the bases.
"""
import ast

from .. import tables
from ..events import Summaries, calls_in, fi_of_term, bind_call, DUNDERS_CHECKER, DUNDERS_INV
from ..flow import get_flow, show, strip_sites, subterms, uncopied
from ..guards import GuardGraph, normal_succ
from ..model import AnalysisError, first_line, src_of

MUTATORS = ("append", "extend", "insert", "remove", "pop", "clear", "sort", "reverse", "__iadd__", "__setitem__", "__delitem__", "update", "add", "discard", "setdefault", "popitem")
# enumerated exceptions of the ownership rule, one line of reason each
WHITELIST = {
    ("global", "_metaclass", "_CONTRACT_CLASSES"): "weak registry of classes announced to the integrator hook; it holds no contracts (see C18.register)",
}
FRESH_CALLS = (("builtin", "list"), ("builtin", "dict"), ("builtin", "set"), ("builtin", "sorted"), ("builtin", "tuple"), ("builtin", "frozenset"))


def ownership(model, t, summ, depth=0):
    """'fresh' | 'borrowed' | 'param:<name>' | 'unknown' for the object a term denotes."""
    if depth > 5:
        return "unknown"
    k = t[0]
    if k == "display" or k == "comp":
        return "fresh"
    if k == "op" and t[1] in ("Add", "Mult"):
        return "fresh"
    if k == "idx" and strip_sites(t[2]) == ("op", "slice", (("const", "None"),) * 3):
        return "fresh"  # ``x[:]`` of a list is a new list
    if k == "attr" and ownership(model, t[1], summ, depth + 1) == "fresh":
        # a table of an object constructed in this activation (e.g. the per-violation visitor's ``reprs``)
        return "fresh"
    if k == "call":
        if t[1] in FRESH_CALLS or t[1][0] == "class":
            return "fresh"
        if t[1] in (("attr", ("module", "copy"), "copy"), ("attr", ("module", "copy"), "deepcopy")):
            return "fresh"
        if t[1][0] == "attr" and t[1][2] == "copy" and not t[2]:
            return "fresh"
        fi = fi_of_term(model, t[1])
        if fi is not None:
            rt = summ.return_term(fi)
            sub = dict(t[3])
            alts = rt[1] if rt[0] == "phi" else (rt,)
            kinds = set()
            for a in alts:
                if a[0] == "param" and a[1] in sub:
                    kinds.add(ownership(model, sub[a[1]], summ, depth + 1))
                else:
                    o = ownership(model, a, summ, depth + 1)
                    if o.startswith("param:") and o[6:] in sub:
                        o = ownership(model, sub[o[6:]], summ, depth + 1)
                    kinds.add(o)
            if kinds == {"fresh"}:
                return "fresh"
            if "borrowed" in kinds:
                return "borrowed"
            return sorted(kinds)[0] if len(kinds) == 1 else "unknown"
        return "unknown"
    if k == "phi":
        # a None alternative cannot be the receiver of a mutation (it would raise); ignore it
        kinds = set(ownership(model, a, summ, depth + 1) for a in t[1] if a != ("const", "None"))
        if not kinds:
            return "unknown"
        if kinds == {"fresh"}:
            return "fresh"
        if "borrowed" in kinds:
            return "borrowed"
        return "unknown" if len(kinds) > 1 else kinds.pop()
    if k == "param":
        return "param:" + t[1]
    if k in ("attr", "idx", "elem", "closure", "global"):
        return "borrowed"
    if k == "await":
        return ownership(model, t[1], summ, depth + 1)
    return "unknown"


def mutation_sites(model, fi):
    """In-place mutations of containers in ``fi``: list of (node, how, receiver term)."""
    flow = get_flow(model, fi)
    out = []
    for n in flow.cfg.nodes:
        for call, cond, aw in calls_in(n):
            f = call.func
            if isinstance(f, ast.Attribute) and f.attr in MUTATORS:
                out.append((n, f.attr, flow.term(f.value, n)))
        if n.kind == "stmt":
            st = n.ast
            if isinstance(st, ast.AugAssign):
                tgt = st.target
                if isinstance(tgt, ast.Name):
                    out.append((n, "aug" + type(st.op).__name__, flow.name_term(tgt.id, n)))
                elif isinstance(tgt, (ast.Attribute, ast.Subscript)):
                    out.append((n, "aug" + type(st.op).__name__, flow.term(tgt, n)))
            if isinstance(st, ast.Assign):
                for tg in st.targets:
                    if isinstance(tg, ast.Subscript):
                        out.append((n, "setitem", flow.term(tg.value, n)))
            if isinstance(st, ast.Delete):
                for tg in st.targets:
                    if isinstance(tg, ast.Subscript):
                        out.append((n, "delitem", flow.term(tg.value, n)))
    return out


def mutated_params(model, fi, summ, _seen=None):
    """Parameters of ``fi`` whose object is mutated in place (directly or via a package callee)."""
    _seen = _seen or set()
    if fi.qual in _seen:
        return set()
    _seen = _seen | {fi.qual}
    res = set()
    flow = get_flow(model, fi)
    for n, how, recv in mutation_sites(model, fi):
        alts = recv[1] if recv[0] == "phi" else (recv,)
        for a in alts:
            if a[0] == "param":
                res.add(a[1])
    for n in flow.cfg.nodes:
        for call, cond, aw in calls_in(n):
            cf = fi_of_term(model, flow.term(call.func, n))
            if cf is not None and cf is not fi:
                mp = mutated_params(model, cf, summ, _seen)
                if mp:
                    b = bind_call(cf, call)
                    if b:
                        for pn, aexpr in b.items():
                            if pn in mp:
                                at = flow.term(aexpr, n)
                                alts = at[1] if at[0] == "phi" else (at,)
                                for a in alts:
                                    if a[0] == "param":
                                        res.add(a[1])
    return res


def ownership_rule(run, model, rule, modules=("_metaclass",)):
    """Every mutated container in the given modules is Fresh (or a parameter whose callers all pass Fresh)."""
    summ = Summaries(model)
    n_sites = 0
    for modname in modules:
        for fi in model.modules[modname].funcs:
            if not fi.live:
                continue
            flow = get_flow(model, fi)
            sites = mutation_sites(model, fi)
            if not sites:
                continue
            run.saw(flow)
            for n, how, recv in sites:
                own = ownership(model, recv, summ)
                n_sites += 1
                construct = "%s:%s@%s" % (fi.qual, how, _ordinal(sites, n, how))
                if recv in WHITELIST:
                    run.ok(rule, construct, "whitelisted: %s" % WHITELIST[recv], fi.loc(n), nontrivial=False)
                    continue
                if own == "fresh":
                    run.ok(rule, construct, "receiver %s is created in this activation" % show(strip_sites(recv), 80), fi.loc(n))
                elif own.startswith("param:"):
                    pname = own[6:]
                    if pname in ("namespace", "self", "cls", "mlcs") or (fi.cls is not None and pname == fi.params[0]):
                        run.ok(rule, construct, "mutates the subject being defined (`%s`)" % pname, fi.loc(n), nontrivial=False)
                        continue
                    # all callers must pass a fresh object
                    bad = None
                    ncallers = 0
                    for cfi in model.functions.values():
                        if not cfi.live:
                            continue
                        cflow = get_flow(model, cfi)
                        for cn in cflow.cfg.nodes:
                            for call, cond, aw in calls_in(cn):
                                if fi_of_term(model, cflow.term(call.func, cn)) is fi:
                                    b = bind_call(fi, call)
                                    if b and pname in b:
                                        ncallers += 1
                                        ao = ownership(model, cflow.term(b[pname], cn), summ)
                                        if ao != "fresh":
                                            bad = (cfi, cn, cflow.term(b[pname], cn), ao)
                    if bad:
                        run.violation(rule, construct, "the list mutated here is the parameter `%s`; caller %s passes %s (%s): a contract list of another class/function is changed in place" % (pname, bad[0].qual, show(strip_sites(bad[2]), 100), bad[3]), fi.loc(n), None, first_line(n.stmt))
                    else:
                        run.ok(rule, construct, "mutates parameter `%s`; all %d caller(s) pass a fresh list" % (pname, ncallers), fi.loc(n))
                else:
                    run.violation(rule, construct, "in-place `%s` on %s, which is not a list created in this activation (%s): the contracts of a base class / another function change" % (how, show(strip_sites(recv), 100), own), fi.loc(n), None, first_line(n.stmt))
    return n_sites


def _ordinal(sites, n, how):
    same = [x for x, h, _ in sites if h == how]
    return same.index(n) if n in same else 0


# ---------------------------------------------------------------------- provenance of the stored lists
class NamespaceFn:
    """Analysis of ``_decorate_namespace_function`` / ``_decorate_namespace_property``."""

    def __init__(self, model, fi, is_property):
        self.model = model
        self.fi = fi
        self.flow = get_flow(model, fi)
        self.cfg = self.flow.cfg
        self.summ = Summaries(model)
        self.gg = GuardGraph(self.flow)
        self.is_property = is_property
        self.bases_p = fi.params[0]
        self.ns_p = fi.params[1]
        self.key_p = fi.params[2]
        self.finder = model.func("_checkers.find_checker")
        # the loop over the bases
        self.base_loops = [n for n in self.cfg.nodes if n.kind == "next" and any(p.kind == "iter" and self.flow.term(p.ast, p) == ("param", self.bases_p) for _, p in n.pred)]
        # a loop over the bases that only *tests* (``for base in bases: if getattr(base, key, None) is func: return``,
        # the statement form of ``any(...)``) collects nothing: it is a guard, not the loop the rules ask about
        def _only_tests(stmts):
            for s in stmts:
                if isinstance(s, (ast.Pass, ast.Return, ast.Continue, ast.Break)):
                    if isinstance(s, ast.Return) and s.value is not None and not isinstance(s.value, ast.Constant):
                        return False
                    continue
                if isinstance(s, ast.If) and _only_tests(s.body) and _only_tests(s.orelse):
                    continue
                if isinstance(s, (ast.For, ast.AsyncFor)) and not s.orelse and _only_tests(s.body):
                    continue  # ``for klass in base.__mro__: if ...: return``
                return False
            return True

        collecting = [h for h in self.base_loops if not (isinstance(h.stmt, (ast.For, ast.AsyncFor)) and not h.stmt.orelse and _only_tests(h.stmt.body))]
        if collecting:
            self.base_loops = collecting
        self.all_loops = [n for n in self.cfg.nodes if n.kind == "next"]
        self.stores = {}  # dunder -> list of (node, target base term, value term)
        for n in self.cfg.nodes:
            if n.kind == "stmt" and isinstance(n.ast, ast.Assign):
                for tg in n.ast.targets:
                    if isinstance(tg, ast.Attribute) and tg.attr in DUNDERS_CHECKER:
                        self.stores.setdefault(tg.attr, []).append((n, self.flow.term(tg.value, n), self.flow.term(n.ast.value, n)))
            for call, cond, aw in calls_in(n):
                t = self.flow.term(call.func, n)
                if t == ("builtin", "setattr") and len(call.args) == 3:
                    nm = self.flow.term(call.args[1], n)
                    if nm[0] == "const" and nm[1].strip("'\"") in DUNDERS_CHECKER:
                        self.stores.setdefault(nm[1].strip("'\""), []).append((n, self.flow.term(call.args[0], n), self.flow.term(call.args[2], n)))

    def loop_iter(self, head):
        for k, p in head.pred:
            if p.kind == "iter" and p.stmt is head.stmt:
                return self.flow.term(p.ast, p)
        return None

    def lexical_body(self, head):
        inside = set()
        for st in head.stmt.body:
            for sub in ast.walk(st):
                inside.add(id(sub))
        return set(n.id for n in self.cfg.nodes if id(n.stmt) in inside)

    def expand_collapse(self, t):
        """Inline the ``_collapse_*`` helpers: their return term with the actual arguments."""
        if t[0] == "call":
            fi = fi_of_term(self.model, t[1])
            if fi is not None and not t[2]:
                rt = self.summ.return_term(fi)
                sub = dict(t[3])
                return _subst(rt, sub)
        return t


def _subst(t, sub):
    if not isinstance(t, tuple):
        return t
    if t and t[0] == "param" and t[1] in sub:
        return sub[t[1]]
    return tuple(_subst(x, sub) if isinstance(x, tuple) else x for x in t)


def _flatten_add(t):
    if t[0] == "op" and t[1] == "Add":
        out = []
        for x in t[2]:
            out += _flatten_add(x)
        return out
    return [t]


def namespace_fns(model):
    return {
        "function": NamespaceFn(model, model.func("_metaclass._decorate_namespace_function"), False),
        "property": NamespaceFn(model, model.func("_metaclass._decorate_namespace_property"), True),
    }


def base_collection(nf, dunder):
    """Describe how the local 'base part' for ``dunder`` is collected: returns (list-site term, problems[])."""
    flow = nf.flow
    problems = []
    sites = []
    for n, how, recv in mutation_sites(nf.model, nf.fi):
        args = []
        for call, cond, aw in calls_in(n):
            if isinstance(call.func, ast.Attribute) and call.func.attr == how:
                args = [flow.term(a, n) for a in call.args]
        for a in args:
            if a[0] == "attr" and a[2] == dunder:
                sites.append((n, how, recv, a))
    return sites


def provenance_rule(run, model, rule, dunder, what, own_first_ok=False):
    """The value stored as ``<checker>.<dunder>`` is base part (in order of bases) + own part, fresh."""
    for kind, nf in namespace_fns(model).items():
        run.saw(nf.flow)
        construct = "%s:%s" % (nf.fi.qual, dunder)
        stores = nf.stores.get(dunder, [])
        if len(stores) != 1:
            run.violation(rule, construct, "expected one store of %s onto the function's checker, found %d" % (dunder, len(stores)), nf.fi.loc())
            continue
        n, target, val = stores[0]
        val_e = nf.expand_collapse(val)
        parts = _flatten_add(val_e)
        alts_all = val_e[1] if val_e[0] == "phi" else (val_e,)
        bad = None
        for alt in alts_all:
            # element-wise copies of the inherited groups keep the same contracts in the same order
            parts = [uncopied(x) for x in _flatten_add(nf.expand_collapse(alt))]
            if len(parts) == 1:
                # key is __init__/__new__: the own list is kept as is (no base part) -- accepted only if that alternative exists by the ctor exclusion
                own = _is_own(nf, parts[0], dunder)
                if not own:
                    bad = "the stored value %s is neither `base part + own part` nor the function's own list" % show(strip_sites(alt), 120)
                continue
            if len(parts) != 2:
                bad = "the stored value is a concatenation of %d parts: %s" % (len(parts), show(strip_sites(alt), 140))
                continue
            first, second = parts
            fb, sb = _is_base_part(nf, first, dunder), _is_base_part(nf, second, dunder)
            fo, so = _is_own(nf, first, dunder), _is_own(nf, second, dunder, need_checker=True)
            if fb and so:
                continue
            if fo and sb:
                bad = "the function's own %s come before the inherited ones: inherited contracts must precede a class's own" % what
            else:
                bad = "the stored value %s is not `inherited part + own part`" % show(strip_sites(alt), 140)
        if bad is None:
            # the base part: one extend per base, inside the loop over `bases` itself, with the base checker's list
            sites = base_collection(nf, dunder)
            if len(sites) != 1:
                bad = "expected exactly one site collecting the bases' %s, found %d" % (what, len(sites))
            else:
                sn, how, recv, arg = sites[0]
                if how != "extend":
                    bad = "the bases' %s are collected with `%s` instead of `extend` (%s)" % (what, how, "groups would be nested / flattened" if dunder == "__preconditions__" else "order or multiplicity changes")
                elif len(nf.base_loops) != 1:
                    bad = "no single loop iterates the parameter `%s` itself (a slice, filter or reversal of the bases drops or reorders inherited contracts)" % nf.bases_p
                elif sn.id not in nf.lexical_body(nf.base_loops[0]):
                    bad = "the bases' %s are collected outside the loop over the bases" % what
                else:
                    # receiver fresh; argument = find_checker(<member of elem(bases)>).<dunder>
                    src = arg[1]
                    okarg = src[0] == "call" and fi_of_term(model, src[1]) is nf.finder
                    if okarg:
                        fa = dict(src[3]).get(nf.finder.params[0])
                        base_el = ("elem", ("param", nf.bases_p))
                        okarg = fa is not None and any(s == base_el for s in subterms(fa)) and any(s == ("param", nf.key_p) for s in subterms(fa))
                    if not okarg:
                        bad = "the collected list is %s, not the list of the checker found on the base's member" % show(strip_sites(arg), 120)
                    # the list that collects the bases' part is created anew for every iteration of each loop that
                    # encloses the store (the property pass handles getter, setter and deleter in one loop): a list
                    # created outside would carry one accessor's inherited contracts over to the next accessor
                    ralts = recv[1] if recv[0] == "phi" else (recv,)
                    for h in nf.all_loops:
                        inside_ids = nf.lexical_body(h)
                        if n.id in inside_ids and h is not nf.base_loops[0]:
                            lo, hi = h.stmt.lineno, max(getattr(x, "end_lineno", h.stmt.lineno) or h.stmt.lineno for x in ast.walk(h.stmt))
                            for a in ralts:
                                if a[0] == "display" and not (lo <= a[3][1] <= hi):
                                    bad = "the list collecting the bases' %s is created once outside the loop that handles one accessor after the other (line %d): the contracts inherited for one accessor are carried over to the next one" % (what, a[3][1])
                    # no break / return inside the loop over the bases
                    body = nf.lexical_body(nf.base_loops[0])
                    for x in nf.cfg.nodes:
                        if x.id in body and x.kind in ("break", "return") and x.stmt in _own_stmts(nf.base_loops[0].stmt):
                            bad = "`%s` inside the loop over the bases: the contracts of the remaining bases are not collected" % x.kind
        run.check(bad is None, rule, construct, "stored value = (for base in bases, in order: base checker's list) + own list, concatenated into a fresh list", bad or "", nf.fi.loc(n), None, first_line(n.stmt))


def _own_stmts(loop_stmt):
    """Statements lexically inside the loop but not inside a nested loop (a break there belongs to this loop)."""
    out = []

    def rec(stmts):
        for s in stmts:
            out.append(s)
            if isinstance(s, (ast.For, ast.While, ast.AsyncFor)):
                continue
            for field in ("body", "orelse", "finalbody"):
                if hasattr(s, field):
                    rec(getattr(s, field))
            if isinstance(s, ast.Try):
                for h in s.handlers:
                    rec(h.body)

    rec(loop_stmt.body)
    return out


def _is_own(nf, t, dunder, need_checker=False):
    """Own part: the list of the checker found on the namespace's own function, or a fresh empty list."""
    alts = t[1] if t[0] == "phi" else (t,)
    ok = True
    from_checker = False
    for a in alts:
        if a[0] == "display" and a[1] == "list" and not a[2]:
            continue
        if a[0] == "attr" and a[2] == dunder and a[1][0] == "call" and fi_of_term(nf.model, a[1][1]) is nf.finder:
            fa = dict(a[1][3]).get(nf.finder.params[0])
            # the function of the namespace: derived from namespace[key] (possibly .__func__, or an accessor of it)
            ns = ("idx", ("param", nf.ns_p), ("param", nf.key_p))
            if fa is not None and any(s == ns for s in subterms(fa)) and not any(s == ("elem", ("param", nf.bases_p)) for s in subterms(fa)):
                from_checker = True
                continue
        ok = False
    # an own part that can only be the empty list drops the contracts the member itself declares
    return ok and (from_checker or not need_checker)


def _is_base_part(nf, t, dunder):
    """Base part: a fresh local list (possibly emptied under the accept-all flag) that the base loop extends."""
    alts = t[1] if t[0] == "phi" else (t,)
    return all(a[0] == "display" and a[1] == "list" and not a[2] for a in alts) and len(alts) >= 1 and not _is_plain_own_empty(nf, t)


def _is_plain_own_empty(nf, t):
    # distinguish the own-part empty list from the base-part list: the base part list is mutated by extend
    sites = [recv for n, how, recv in mutation_sites(nf.model, nf.fi) if how == "extend"]
    alts = t[1] if t[0] == "phi" else (t,)
    for a in alts:
        for recv in sites:
            ralts = recv[1] if recv[0] == "phi" else (recv,)
            if a in ralts:
                return False
    return True


def snapshot_provenance(run, model, rule):
    provenance_rule(run, model, rule, "__postcondition_snapshots__", "snapshots")
    # conflict detection in the collapse helper
    fi = model.func("_metaclass._collapse_snapshots")
    flow = get_flow(model, fi)
    run.saw(flow)
    gg = GuardGraph(flow)
    bp, op = fi.params[0], fi.params[1]
    concat = ("op", "Add", (("param", bp), ("param", op)))
    heads = [n for n in flow.cfg.nodes if n.kind == "next"]
    it_ok = [h for h in heads if any(p.kind == "iter" and flow.term(p.ast, p) == concat for _, p in h.pred)]
    bad = None
    if len(it_ok) != 1:
        bad = "no loop walks `%s + %s` (inherited snapshots first, then own)" % (bp, op)
    else:
        el = ("elem", concat)
        # a ValueError is raised when the name was seen before (membership of el.name in a local set)
        raised = False
        # ... either in the walk itself or in a second loop over the list the walk has built (every element of it is
        # an element of the walk)
        walk_ids = set(id(sub) for st in it_ok[0].stmt.body for sub in ast.walk(st))
        built0 = set(call.func.value.id for n_ in flow.cfg.nodes for call, c_, a_ in calls_in(n_) if id(n_.stmt) in walk_ids and isinstance(call.func, ast.Attribute) and call.func.attr == "append" and isinstance(call.func.value, ast.Name) and len(call.args) == 1 and strip_sites(flow.term(call.args[0], n_)) == el)
        second = {}
        for lp in ast.walk(fi.node):
            if isinstance(lp, ast.For) and lp is not it_ok[0].stmt and id(lp) not in walk_ids and isinstance(lp.iter, ast.Name) and lp.iter.id in built0 and isinstance(lp.target, ast.Name) and lp.lineno > it_ok[0].stmt.lineno:
                for sub in ast.walk(lp):
                    second[id(sub)] = lp.target.id
        for n in flow.cfg.nodes:
            if n.kind == "test":
                t = flow.term(n.ast, n)
                in_second = isinstance(n.ast, ast.Compare) and len(n.ast.ops) == 1 and isinstance(n.ast.ops[0], ast.In) and isinstance(n.ast.left, ast.Attribute) and n.ast.left.attr == "name" and isinstance(n.ast.left.value, ast.Name) and second.get(id(n.ast)) == n.ast.left.value.id
                if t[0] == "op" and t[1] == "cmp:In" and (t[2][0] == ("attr", el, "name") or in_second):
                    for k, tgt in n.succ:
                        if k == "T":
                            seen = gg.reach([tgt], None, None, follow_exc=False)
                            rs = [x for x in flow.cfg.nodes if x.id in seen and x.kind == "raise"]
                            if rs and all(tables.exc_name(flow.term(x.ast.exc, x)) == "ValueError" for x in rs) and flow.cfg.exit_return.id not in seen:
                                raised = True
        if not raised:
            bad = "a snapshot whose name was already seen does not raise ValueError on every path"
        # every return hands back the list built by the walk (an early exit would skip the conflict / identity tests)
        loop_ids = set(id(sub) for st in it_ok[0].stmt.body for sub in ast.walk(st))
        built = set()
        for n in flow.cfg.nodes:
            for call, c, a in calls_in(n):
                if id(n.stmt) in loop_ids and isinstance(call.func, ast.Attribute) and call.func.attr == "append" and isinstance(call.func.value, ast.Name):
                    built.add(call.func.value.id)
        for n in flow.cfg.nodes:
            if n.kind == "return" and n.ast is not None and not (isinstance(n.ast, ast.Name) and n.ast.id in built):
                bad = bad or "`%s` hands back something other than the list built by the walk over inherited + own snapshots: the identity and name checks are skipped on that path (the same snapshot reached along two paths stays twice in the list)" % first_line(n.stmt)
        # the walk visits every snapshot: nothing leaves the loop early (a `break` drops the snapshots that follow)
        nested = set(id(sub) for st in it_ok[0].stmt.body for lp in ast.walk(st) if isinstance(lp, (ast.For, ast.While)) for b_ in lp.body + lp.orelse for sub in ast.walk(b_))
        for n in flow.cfg.nodes:
            if n.kind == "break" and id(n.stmt) in loop_ids and id(n.stmt) not in nested:
                bad = bad or "`break` leaves the walk over inherited + own snapshots early: every snapshot after that point is dropped (its OLD value is never captured, the postcondition reading it fails with AttributeError)"
        # identity de-duplication (diamond): skipping is allowed only for the *same object*
        for n in flow.cfg.nodes:
            if n.kind == "continue":
                # find the guarding test
                for k, p in n.pred:
                    if p.kind == "test":
                        tt = src_of(p.ast)
                        exprs = [p.ast]
                        if isinstance(p.ast, ast.Name):
                            # an explanatory temporary: look at what it was bound to
                            exprs = [st.value for st in ast.walk(fi.node) if isinstance(st, ast.Assign) and any(isinstance(tg, ast.Name) and tg.id == p.ast.id for tg in st.targets)] or [p.ast]
                        def by_identity(e):
                            # identity of the snapshot objects themselves -- not of something they share (two
                            # different snapshots may well use one capture function or one location) -- and nothing
                            # but identity: ``a is b or <same name and same capture>`` also skips *different* objects
                            core = e
                            if isinstance(core, ast.Call) and isinstance(core.func, ast.Name) and core.func.id == "any" and len(core.args) == 1 and isinstance(core.args[0], (ast.GeneratorExp, ast.ListComp)):
                                core = core.args[0].elt
                            if isinstance(core, ast.BoolOp) and isinstance(core.op, ast.Or):
                                return False
                            for c in ast.walk(e):
                                if isinstance(c, ast.Compare) and len(c.ops) == 1 and isinstance(c.ops[0], ast.Is) and isinstance(c.left, ast.Name) and isinstance(c.comparators[0], ast.Name):
                                    return True
                                # ``id(snap) in <set of ids>``: identity through id()
                                if isinstance(c, ast.Compare) and len(c.ops) == 1 and isinstance(c.ops[0], ast.In) and isinstance(c.left, ast.Call) and isinstance(c.left.func, ast.Name) and c.left.func.id == "id" and len(c.left.args) == 1 and isinstance(c.left.args[0], ast.Name):
                                    return True
                                # ... with the id bound to a local first: ``snap_id = id(snap)`` ; ``snap_id in <ids>``
                                if isinstance(c, ast.Compare) and len(c.ops) == 1 and isinstance(c.ops[0], ast.In) and isinstance(c.left, ast.Name):
                                    binds = [st_.value for st_ in ast.walk(fi.node) if isinstance(st_, ast.Assign) and any(isinstance(tg_, ast.Name) and tg_.id == c.left.id for tg_ in st_.targets)]
                                    if binds and all(isinstance(b_, ast.Call) and isinstance(b_.func, ast.Name) and b_.func.id == "id" and len(b_.args) == 1 and isinstance(b_.args[0], ast.Name) for b_ in binds):
                                        return True
                            return False

                        if not all(by_identity(e) for e in exprs):
                            bad = "a snapshot is skipped under `%s`: only the very same snapshot object reached along several inheritance paths may be skipped, an equally named different snapshot is a conflict" % tt
        # diamond: the very same snapshot object collected along two inheritance paths is not a conflict
        ident = False
        for sub in ast.walk(fi.node):
            if isinstance(sub, ast.Compare) and len(sub.ops) == 1 and isinstance(sub.ops[0], (ast.Is, ast.IsNot)) and not (isinstance(sub.comparators[0], ast.Constant) and sub.comparators[0].value is None):
                ident = True
            # identity through id(): ``id(snap) in <set of ids>``
            if isinstance(sub, ast.Compare) and len(sub.ops) == 1 and isinstance(sub.ops[0], (ast.In, ast.NotIn)) and isinstance(sub.left, ast.Call) and isinstance(sub.left.func, ast.Name) and sub.left.func.id == "id":
                ident = True
            if isinstance(sub, ast.Compare) and len(sub.ops) == 1 and isinstance(sub.ops[0], (ast.In, ast.NotIn)) and isinstance(sub.left, ast.Name):
                binds_ = [st_.value for st_ in ast.walk(fi.node) if isinstance(st_, ast.Assign) and any(isinstance(tg_, ast.Name) and tg_.id == sub.left.id for tg_ in st_.targets)]
                if binds_ and all(isinstance(b_, ast.Call) and isinstance(b_.func, ast.Name) and b_.func.id == "id" for b_ in binds_):
                    ident = True
        if not ident and bad is None:
            bad = "equal names always raise: the very same snapshot object inherited along two paths of a diamond is reported as a conflict (no identity test)"
        if ident and bad is None:
            # ... and the identity test decides something: on one of its outcomes the rest of the iteration (the name
            # conflict) is not reached
            gg_ = GuardGraph(flow)
            heads_ = set(n.id for n in flow.cfg.nodes if n.kind == "next")
            raises_ = set(n.id for n in flow.cfg.nodes if n.kind == "raise")
            tests_ = []
            for n in flow.cfg.nodes:
                if n.kind == "test" and n.ast is not None:
                    exprs_ = [n.ast]
                    if isinstance(n.ast, ast.Name):
                        exprs_ = [st.value for st in ast.walk(fi.node) if isinstance(st, ast.Assign) and any(isinstance(tg, ast.Name) and tg.id == n.ast.id for tg in st.targets)] or [n.ast]
                    if any(isinstance(c, ast.Compare) and len(c.ops) == 1 and (isinstance(c.ops[0], (ast.Is, ast.IsNot)) and not (isinstance(c.comparators[0], ast.Constant) and c.comparators[0].value is None) or (isinstance(c.ops[0], (ast.In, ast.NotIn)) and (isinstance(c.left, ast.Call) and src_of(c.left.func) == "id" or isinstance(c.left, ast.Name)))) for e in exprs_ for c in ast.walk(e)):
                        tests_.append(n)
            decides = False
            for n in tests_:
                for k, tgt in n.succ:
                    if k in ("T", "F") and not (gg_.reach([tgt], None, heads_, follow_exc=False) & raises_):
                        decides = True
            if tests_ and raises_ and not decides:
                bad = "the identity test `%s` decides nothing: the name conflict is reached whatever it says, and the very same snapshot object inherited along two paths of a diamond is reported as a conflict" % first_line(tests_[0].stmt)
        # names are recorded
        adds = [n for n in flow.cfg.nodes for call, c, a in calls_in(n) if isinstance(call.func, ast.Attribute) and call.func.attr == "add" and ([flow.term(x, n) for x in call.args] == [("attr", el, "name")] or (len(call.args) == 1 and isinstance(call.args[0], ast.Attribute) and call.args[0].attr == "name" and isinstance(call.args[0].value, ast.Name) and second.get(id(call)) == call.args[0].value.id))]
        if not adds and bad is None:
            bad = "the names seen so far are not recorded"
    run.check(bad is None, rule, fi.qual, "walks inherited + own snapshots, skips only identical objects, raises ValueError on an equal name", bad or "", fi.loc())


def shared_member_rule(run, model, rule):
    """A member whose function object is a base's own (``f = Base.f``, ``@Base.prop.getter``) is inherited as it is:
    the merge must not run for it, because its checker is shared with the base and the merged lists would be stored
    on -- and duplicate the contracts of -- the base class."""
    for kind, nf in namespace_fns(model).items():
        flow = nf.flow
        run.saw(flow)
        cfg = flow.cfg
        gg = GuardGraph(flow)
        store_ids = set(n.id for lst in nf.stores.values() for n, _, _ in lst)
        # identity tests between the namespace's function and a base's member
        guards = []
        for n in cfg.nodes:
            if n.kind != "test" or n.ast is None:
                continue
            ident = False
            derived = _names_over_bases(n.ast, nf.bases_p) | _loop_names_over_bases(nf, n)
            for sub in ast.walk(n.ast):
                if isinstance(sub, ast.Compare) and len(sub.ops) == 1:
                    mentions_base = any(isinstance(x, ast.Name) and x.id in derived for x in ast.walk(sub))
                    if isinstance(sub.ops[0], (ast.Is, ast.IsNot)) and mentions_base and not (isinstance(sub.comparators[0], ast.Constant) and sub.comparators[0].value is None):
                        ident = True
                    if isinstance(sub.ops[0], (ast.In, ast.NotIn)) and mentions_base and isinstance(sub.comparators[0], (ast.Tuple, ast.List)) and all(isinstance(x, ast.Attribute) and x.attr in ("fget", "fset", "fdel") for x in sub.comparators[0].elts):
                        ident = True
            if ident:
                guards.append(n)
        ok = False
        heads = set(h.id for h in nf.all_loops)
        # the merge itself: the calls of the collapse helpers (for the accessors of a property they sit inside the loop
        # over the accessors, the store of the new property after it)
        merge_ids = set()
        for n in cfg.nodes:
            for call, c_, a_ in calls_in(n):
                cf = fi_of_term(model, flow.term(call.func, n))
                if cf is not None and cf.module.name == "_metaclass" and cf.name.startswith("_collapse_"):
                    merge_ids.add(n.id)
        for g in guards:
            for k, tgt in g.succ:
                if k != "T":
                    continue
                seen = gg.reach([tgt], None, heads, follow_exc=False)
                # the merge further down may sit behind a loop of its own (the walk over the bases): stop only at the
                # loops the test itself runs in
                own_heads = set(h.id for h in nf.all_loops if h.stmt is not g.stmt and any(x is g.stmt for x in ast.walk(h.stmt)))
                seen_m = gg.reach([tgt], None, own_heads, follow_exc=False)
                if not (seen & store_ids) and not (seen_m & merge_ids):
                    ok = True
        if ok:
            why = _shared_member_guard_shape(model, nf, guards)
            if why is not None:
                run.violation(rule, nf.fi.qual + ":guard", why[1], nf.fi.loc(why[0]), None, first_line(why[0]))
            else:
                run.ok(rule, nf.fi.qual + ":guard", "the identity test compares the unwrapped function with the member found on the base through the MRO (getattr)", nf.fi.loc(guards[0]))
        run.check(ok, rule, nf.fi.qual, "a member that is the very function object of a base is left as it is (identity test bypasses the merge)", "the merge also runs for a member whose function object is a base's own (`f = Base.f`, or the untouched accessors of `@Base.prop.getter`): its checker is shared with the base, so the merged lists are stored on the base's checker and every contract of the base is duplicated there", nf.fi.loc())


def _names_over_bases(expr, bases_p):
    """names that range over the bases or over something reached from a base (``for base in bases for klass in
    base.__mro__``) inside the comprehensions of ``expr``; includes the parameter itself"""
    out = {bases_p}
    changed = True
    while changed:
        changed = False
        for sub in ast.walk(expr):
            if isinstance(sub, ast.comprehension):
                if any(isinstance(x, ast.Name) and x.id in out for x in ast.walk(sub.iter)):
                    for tg in ast.walk(sub.target):
                        if isinstance(tg, ast.Name) and tg.id not in out:
                            out.add(tg.id)
                            changed = True
    return out


def _loop_names_over_bases(nf, node):
    """targets of the ``for`` statements over the bases (or over something reached from a base) that enclose ``node``"""
    out = {nf.bases_p}
    changed = True
    while changed:
        changed = False
        for st in ast.walk(nf.fi.node):
            if isinstance(st, (ast.For, ast.AsyncFor)) and any(isinstance(x, ast.Name) and x.id in out for x in ast.walk(st.iter)):
                for tg in ast.walk(st.target):
                    if isinstance(tg, ast.Name) and tg.id not in out:
                        out.add(tg.id)
                        changed = True
    return out


def _shared_member_guard_shape(model, nf, guards):
    """(stmt, why) if the re-use guard cannot recognise every re-used member, else None.

    * the function compared is the one whose checker is merged (after unwrapping static/class methods);
    * the base's member is looked up the way inheritance does (``getattr`` through the MRO), not in the direct base's
      own ``__dict__`` only.
    """
    flow = nf.flow
    own = None
    for n in flow.cfg.nodes:
        for call, c, a in calls_in(n):
            t = flow.term(call, n)
            if t[0] == "call" and fi_of_term(model, t[1]) is nf.finder and not any(s_ == ("elem", ("param", nf.bases_p)) for s_ in subterms(t)):
                arg = call.args[0] if call.args else ([kw.value for kw in call.keywords if kw.arg == "func"] or [None])[0]
                if arg is not None:
                    own = strip_sites(flow.term(arg, n))
    if own is None:
        return None
    for g in guards:
        exprs = [g.ast]
        # one level of explanatory temporaries (``members = [... for base in bases]``)
        for sub in ast.walk(g.ast):
            if isinstance(sub, ast.Name) and isinstance(sub.ctx, ast.Load):
                for st in ast.walk(nf.fi.node):
                    if isinstance(st, ast.Assign) and any(isinstance(tg, ast.Name) and tg.id == sub.id for tg in st.targets) and isinstance(st.value, (ast.ListComp, ast.GeneratorExp, ast.SetComp, ast.Call, ast.Tuple, ast.List)):
                        exprs.append(st.value)
        mro, own_dict = [], []
        for e in exprs:
            for sub in ast.walk(e):
                if isinstance(sub, ast.Call) and isinstance(sub.func, ast.Name) and sub.func.id == "getattr" and len(sub.args) >= 2 and isinstance(sub.args[1], ast.Name) and sub.args[1].id == nf.key_p:
                    mro.append(sub)
                if isinstance(sub, ast.Call) and isinstance(sub.func, ast.Name) and sub.func.id == "vars":
                    own_dict.append(sub)
                if isinstance(sub, ast.Attribute) and sub.attr == "__dict__":
                    own_dict.append(sub)
        if own_dict:
            return g.stmt, "the re-use test looks the member up in the direct base's own `__dict__` (`%s`): a member the base itself inherited is not recognised, so the merge runs on the shared checker and duplicates the contracts of the class that defined it" % src_of(own_dict[0], 50)
        if not mro:
            return g.stmt, "the re-use test does not look the member up on the bases (no getattr(base, %s))" % nf.key_p
        # ... on every class the bases inherit from: the member may be re-used from an ancestor *past* an intermediate
        # class that overrides it (``f = Grandparent.f`` in a class whose parent redefines ``f``)
        walks_mro = False
        scope_exprs = list(exprs) + [st.iter for st in ast.walk(nf.fi.node) if isinstance(st, (ast.For, ast.AsyncFor))]
        for e in scope_exprs:
            for sub in ast.walk(e):
                if isinstance(sub, ast.Attribute) and sub.attr == "__mro__":
                    walks_mro = True
                if isinstance(sub, ast.Call) and (src_of(sub.func) in ("inspect.getmro", "getmro") or (isinstance(sub.func, ast.Attribute) and sub.func.attr == "mro")):
                    walks_mro = True
        if not walks_mro:
            return g.stmt, "the re-use test looks at what the bases resolve `%s` to, not at every class they inherit from: a member re-used from an ancestor past an intermediate class that overrides it (`f = Grandparent.f`) is not recognised, the merge runs on the checker shared with that ancestor and changes the ancestor's own contracts" % nf.key_p
        # ... and the member is looked up on the classes of that walk (``getattr(klass, key)``), not on the direct base
        # again while the walk runs idle
        def _walks(x):
            return any((isinstance(y, ast.Attribute) and y.attr == "__mro__") or (isinstance(y, ast.Call) and (src_of(y.func) in ("inspect.getmro", "getmro") or (isinstance(y.func, ast.Attribute) and y.func.attr == "mro"))) for y in ast.walk(x))

        over_mro = set()
        changed = True
        while changed:
            changed = False
            for st in ast.walk(nf.fi.node):
                pairs = []
                if isinstance(st, ast.comprehension) or isinstance(st, (ast.For, ast.AsyncFor)):
                    pairs.append((st.iter, st.target))
                elif isinstance(st, ast.Assign) and len(st.targets) == 1:
                    pairs.append((st.value, st.targets[0]))
                for src_e, tgt_e in pairs:
                    if _walks(src_e) or any(isinstance(y, ast.Name) and y.id in over_mro for y in ast.walk(src_e)):
                        for tg in ast.walk(tgt_e):
                            if isinstance(tg, ast.Name) and tg.id not in over_mro:
                                over_mro.add(tg.id)
                                changed = True
        if over_mro and not any(isinstance(m_.args[0], ast.Name) and m_.args[0].id in over_mro for m_ in mro) and not any(_walks(m_.args[0]) for m_ in mro):
            return g.stmt, "the re-use test walks the classes the bases inherit from but looks `%s` up on %s, not on the classes of the walk: a member re-used from an ancestor past an intermediate class that overrides it (`f = Grandparent.f`) is not recognised, the merge runs on the checker shared with that ancestor and changes the ancestor's own contracts" % (nf.key_p, ", ".join(sorted(set("`%s`" % src_of(m_.args[0], 30) for m_ in mro))))
        # within one comprehension the member is looked up on one class: `isinstance(getattr(klass, key), property) and
        # func in (getattr(klass, key).fget, getattr(base, key).fset, ...)` compares with accessors of another class
        for e in exprs:
            for comp in ast.walk(e):
                if not isinstance(comp, (ast.GeneratorExp, ast.ListComp, ast.SetComp)):
                    continue
                inner = set(id(x) for c_ in ast.walk(comp) if c_ is not comp and isinstance(c_, (ast.GeneratorExp, ast.ListComp, ast.SetComp, ast.DictComp)) for x in ast.walk(c_))
                looked = [x for x in ast.walk(comp.elt) if id(x) not in inner and any(x is m_ for m_ in mro) and isinstance(x.args[0], ast.Name)]
                objs = sorted(set(x.args[0].id for x in looked))
                targets = set(t_.id for gen in comp.generators for t_ in ast.walk(gen.target) if isinstance(t_, ast.Name))
                if len(objs) > 1 and set(objs) <= targets:
                    return g.stmt, "the re-use test looks `%s` up on different classes in one and the same comparison (%s): the accessors compared are not those of the class whose member was found to be a property, so a re-used accessor of an ancestor is not recognised (or one is read from a class where the member is something else)" % (nf.key_p, ", ".join("getattr(%s, %s)" % (o, nf.key_p) for o in objs))
        # one base sharing the object is enough (the other bases of a multiple inheritance need not have the member)
        for e in exprs:
            for sub in ast.walk(e):
                if isinstance(sub, ast.Call) and isinstance(sub.func, ast.Name) and sub.func.id == "all" and len(sub.args) == 1 and isinstance(sub.args[0], (ast.GeneratorExp, ast.ListComp)):
                    positive = [c_ for c_ in ast.walk(sub.args[0].elt) if isinstance(c_, ast.Compare) and len(c_.ops) == 1 and isinstance(c_.ops[0], (ast.Is, ast.In)) and not (isinstance(c_.comparators[0], ast.Constant) and c_.comparators[0].value is None)]
                    negated = any(isinstance(p_, ast.UnaryOp) and isinstance(p_.op, ast.Not) and any(x is sub for x in ast.walk(p_)) for p_ in ast.walk(g.ast))
                    if positive and not negated:
                        return g.stmt, "the re-use test demands that *every* base has the very same object (`all(...)`): with a second base that lacks the member (a mixin) the re-used member is not recognised, the merge runs on the checker shared with the base and duplicates the contracts of the base class"
        # every accessor of the base's property can be the re-used one (``@Base.prop.getter`` keeps fset and fdel)
        for e in exprs:
            for sub in ast.walk(e):
                if isinstance(sub, ast.Compare) and len(sub.ops) == 1 and isinstance(sub.ops[0], (ast.In, ast.NotIn)) and isinstance(sub.comparators[0], (ast.Tuple, ast.List, ast.Set)):
                    attrs = [x.attr for x in sub.comparators[0].elts if isinstance(x, ast.Attribute)]
                    if attrs and set(attrs) <= {"fget", "fset", "fdel"} and set(attrs) != {"fget", "fset", "fdel"}:
                        missing = sorted({"fget", "fset", "fdel"} - set(attrs))
                        return g.stmt, "the re-use test does not look at %s of the base's property: a property that re-uses that accessor (`@Base.prop.getter` keeps it) is merged once more on the checker shared with the base, duplicating the base's contracts" % ", ".join(missing)
        for sub in ast.walk(g.ast):
            if isinstance(sub, ast.Compare) and len(sub.ops) == 1 and isinstance(sub.ops[0], (ast.Is, ast.IsNot, ast.In, ast.NotIn)):
                sides = [sub.left, sub.comparators[0]]
                names = [x for x in sides if isinstance(x, ast.Name)]
                if isinstance(sub.ops[0], (ast.In, ast.NotIn)):
                    names = [sub.left] if isinstance(sub.left, ast.Name) else []
                for nm in names:
                    t = strip_sites(flow.term(nm, g))
                    if t[0] in ("unk",):
                        continue  # a comprehension variable
                    if t != own:
                        return g.stmt, "the re-use test compares %s, but the function whose contracts are merged is %s: a wrapped member (staticmethod/classmethod object) never is the base's function, so the merge runs on the checker shared with the base" % (show(t, 50), show(own, 60))
    return None


def namespace_rebind_rule(run, model, rule):
    """The namespace entry is replaced only when a checker had to be created: a checker found further down the
    decorator stack stays where it is, under the decorators stacked above it."""
    nf = namespace_fns(model)["function"]
    flow = nf.flow
    run.saw(flow)
    gg = GuardGraph(flow)
    stores = []
    for n in flow.cfg.nodes:
        if n.kind == "stmt" and isinstance(n.ast, ast.Assign):
            for tg in n.ast.targets:
                if isinstance(tg, ast.Subscript) and flow.term(tg.value, n) == ("param", nf.ns_p) and flow.term(tg.slice, n) == ("param", nf.key_p):
                    stores.append(n)
    found = None
    for n in flow.cfg.nodes:
        for call, c, a in calls_in(n):
            t = flow.term(call, n)
            if t[0] == "call" and fi_of_term(model, t[1]) is nf.finder and not any(s_ == ("elem", ("param", nf.bases_p)) for s_ in subterms(t)):
                found = t
    bad = None
    if not stores:
        bad = "a newly created checker is never put into the namespace"
    elif found is None:
        bad = "the decorator stack of the namespace's function is not searched for a checker"
    else:
        # the test may be on a local that is `None or the checker found` (the helper returned a tuple of defaults)
        def nonnull(t):
            if t[0] == "phi":
                rest = [x for x in t[1] if x != ("const", "None")]
                return rest[0] if len(rest) == 1 else t
            return t

        atoms = set(a for (nid, k), (kn, ats) in gg.edge_facts.items() for a, pol in kn if nonnull(a) == found) or {found}
        for st in stores:
            if not any(gg.necessary([flow.cfg.entry], [st.id], (a, False)) for a in atoms):
                bad = "the namespace entry is re-bound although a checker was found on the function's decorator stack: decorators stacked above the contracts (e.g. a functools.wraps decorator) are dropped from the class"
            val = flow.term(st.ast.value, st)
    run.check(bad is None, rule, nf.fi.qual, "namespace[key] is replaced only if no checker was found (then by the new checker, re-wrapped as static/class method where needed)", bad or "", nf.fi.loc(stores[0]) if stores else nf.fi.loc(), None, first_line(stores[0].stmt) if stores else None)


def decorate_always(run, model, rule):
    """Every class created by the metaclass gets its OWN invariant lists and has its namespace decorated: both loops of
    the namespace pass lie on every path through it (no early exit that lets the class share a base's lists)."""
    fi = model.func("_metaclass._dbc_decorate_namespace")
    fl = get_flow(model, fi)
    run.saw(fl)
    gg = GuardGraph(fl)
    collapse = model.func("_metaclass._collapse_invariants")
    must = []
    for n in fl.cfg.nodes:
        for call, c, a in calls_in(n):
            if fi_of_term(model, fl.term(call.func, n)) is collapse:
                # the loop around the call (if any) is entered once: its `iter` node stands for it
                anchor = n
                for h in fl.cfg.nodes:
                    if h.kind == "next" and isinstance(h.stmt, (ast.For,)) and any(sub is n.stmt for st in h.stmt.body for sub in ast.walk(st)):
                        for k, p in h.pred:
                            if p.kind == "iter" and p.stmt is h.stmt:
                                anchor = p
                must.append(("the merge of the invariant lists", anchor))
    for h in fl.cfg.nodes:
        if h.kind == "next":
            for k, p in h.pred:
                if p.kind == "iter" and p.stmt is h.stmt and strip_sites(fl.term(p.ast, p)) == ("call", ("attr", ("param", fi.params[1]), "items"), (), ()):
                    must.append(("the decoration of the namespace's members", p))
    if len(must) < 2:
        raise AnalysisError("%s: the invariant merge and the loop over the namespace were not both found" % fi.qual)
    # inside its loop the merge happens in every iteration (no `continue` that skips a list "with nothing to merge":
    # a class must get its own -- possibly empty -- list whenever a base has one, else it shares the base's)
    for n in fl.cfg.nodes:
        for call, c, a in calls_in(n):
            if fi_of_term(model, fl.term(call.func, n)) is collapse:
                for h in fl.cfg.nodes:
                    if h.kind == "next" and isinstance(h.stmt, ast.For) and any(sub is n.stmt for st in h.stmt.body for sub in ast.walk(st)):
                        start = [t for k, t in h.succ if k == "T"]
                        seen = gg.reach(start, None, {n.id}, follow_exc=False)
                        skip = h.id in seen
                        culprit = None
                        if skip:
                            cs = [x for x in fl.cfg.nodes if x.kind == "continue" and x.id in seen]
                            culprit = cs[0] if cs else None
                        run.check(not skip, rule, "%s:every-list" % fi.qual, "each of the invariant lists is merged in its iteration", "an iteration can skip the merge of its invariant list (`%s`): a class without entries of that kind then has no list of its own and shares -- and later extends -- the list found on its base" % (first_line(culprit.stmt) if culprit is not None else "continue"), fi.loc(culprit) if culprit is not None else fi.loc(h), None, first_line(culprit.stmt) if culprit is not None else None)
    # the function and property passes look at ALL bases of the class, exactly as given
    fn_f = model.func("_metaclass._decorate_namespace_function")
    fn_p = model.func("_metaclass._decorate_namespace_property")
    for n in fl.cfg.nodes:
        for call, c, a in calls_in(n):
            g = fi_of_term(model, fl.term(call.func, n))
            if g in (fn_f, fn_p):
                b = bind_call(g, call) or {}
                arg = b.get(g.params[0])
                at = strip_sites(fl.term(arg, n)) if arg is not None else None
                run.check(at == ("param", fi.params[0]), rule, "%s:bases->%s" % (fi.qual, g.name), "the pass receives the class's own bases", "`%s` receives %s instead of the bases of the class being created: a base that is left out (a plain mixin providing the member without contracts) no longer counts, so its 'accepts every call' is lost and contracts declared on it are not inherited" % (g.name, show(at, 60) if at else "nothing"), fi.loc(n), None, first_line(n.stmt))
    for what, node in must:
        seen = gg.reach([fl.cfg.entry], None, {node.id}, follow_exc=False)
        bypass = fl.cfg.exit_return.id in seen
        culprit = None
        if bypass:
            rets = [x for x in fl.cfg.nodes if x.kind == "return" and x.id in seen]
            culprit = rets[0] if rets else None
        run.check(not bypass, rule, "%s:%s" % (fi.qual, what.split(" of ")[0].replace("the ", "")), "%s happens for every class the metaclass creates" % what, "%s can be skipped (`%s`): such a class has no lists of its own and shares -- and extends -- the lists of its base" % (what, first_line(culprit.stmt) if culprit is not None else "early exit"), fi.loc(culprit) if culprit is not None else fi.loc(), None, first_line(culprit.stmt) if culprit is not None else None)


def _copies_elementwise(e, of=None):
    """Is ``e`` a list/generator that holds a *copy* of every element of some iterable (``[g[:] for g in X]``,
    ``(list(g) for g in X)``, ``[g.copy() for g in X]``, ``copy.deepcopy(X)``)?"""
    if isinstance(e, ast.Call) and src_of(e.func) in ("copy.deepcopy", "deepcopy") and e.args:
        return True
    if isinstance(e, ast.Call) and isinstance(e.func, ast.Name) and e.func.id in ("list", "tuple") and len(e.args) == 1:
        return _copies_elementwise(e.args[0], of)
    if isinstance(e, (ast.ListComp, ast.GeneratorExp)) and len(e.generators) == 1 and isinstance(e.generators[0].target, ast.Name) and not e.generators[0].ifs:
        v = e.generators[0].target.id
        elt = e.elt
        is_v = lambda x: isinstance(x, ast.Name) and x.id == v
        if isinstance(elt, ast.Subscript) and is_v(elt.value) and isinstance(elt.slice, ast.Slice) and elt.slice.lower is None and elt.slice.upper is None and elt.slice.step is None:
            return True
        if isinstance(elt, ast.Call) and isinstance(elt.func, ast.Name) and elt.func.id == "list" and len(elt.args) == 1 and is_v(elt.args[0]):
            return True
        if isinstance(elt, ast.Call) and isinstance(elt.func, ast.Attribute) and elt.func.attr == "copy" and is_v(elt.func.value) and not elt.args:
            return True
        if isinstance(elt, ast.List) and len(elt.elts) == 1 and isinstance(elt.elts[0], ast.Starred) and is_v(elt.elts[0].value):
            return True
        if isinstance(elt, ast.BinOp) and isinstance(elt.op, ast.Add) and (is_v(elt.left) and isinstance(elt.right, ast.List) and not elt.right.elts):
            return True
    return False


def group_copies(run, model, rule):
    """The precondition GROUPS a class inherits are copies, not the base's own list objects.

    ``add_precondition_to_checker`` appends to the first group of a checker in place.  A derived function without
    preconditions of its own has the inherited group as its first group: were that the base's list object, a
    ``require`` applied to the derived function after its class was created would add a condition to the BASE's
    contract as well."""
    collapse = model.func("_metaclass._collapse_preconditions")
    cflow = get_flow(model, collapse)
    run.saw(cflow)
    bp = collapse.params[0]
    copied_in_collapse = False
    shared_in_collapse = None
    for n in cflow.cfg.nodes:
        if n.kind == "return" and n.ast is not None:
            # the inherited part of the returned list
            parts = []

            def addends(e):
                if isinstance(e, ast.BinOp) and isinstance(e.op, ast.Add):
                    addends(e.left)
                    addends(e.right)
                else:
                    parts.append(e)

            addends(n.ast)
            for part in parts:
                mentions = any(isinstance(x, ast.Name) and x.id == bp for x in ast.walk(part))
                # resolve one level of temporaries
                if isinstance(part, ast.Name) and part.id != bp:
                    for st in ast.walk(collapse.node):
                        if isinstance(st, ast.Assign) and any(isinstance(tg, ast.Name) and tg.id == part.id for tg in st.targets):
                            if any(isinstance(x, ast.Name) and x.id == bp for x in ast.walk(st.value)):
                                part, mentions = st.value, True
                if mentions:
                    if _copies_elementwise(part):
                        copied_in_collapse = True
                    else:
                        shared_in_collapse = n
    for kind, nf in namespace_fns(model).items():
        run.saw(nf.flow)
        shared = []
        for n in nf.cfg.nodes:
            for call, c, a in calls_in(n):
                if isinstance(call.func, ast.Attribute) and call.func.attr in ("extend", "append") and call.args:
                    arg = call.args[0]
                    if any(isinstance(x, ast.Attribute) and x.attr == "__preconditions__" for x in ast.walk(arg)) and any(s_ == ("elem", ("param", nf.bases_p)) for s_ in subterms(strip_sites(nf.flow.term(arg, n)))) or (isinstance(arg, ast.Attribute) and arg.attr == "__preconditions__"):
                        if not _copies_elementwise(arg):
                            shared.append(n)
        ok = copied_in_collapse or not shared
        where = shared[0] if shared else None
        run.check(ok, rule, nf.fi.qual, "the inherited precondition groups are copied before they become part of the new function's contract", "the precondition groups collected from a base (`%s`) are put into the new function's list as the very same list objects: `add_precondition_to_checker` appends to the first group in place, so a `require` applied to the derived function after the class was created changes the BASE's contract too" % (first_line(where.stmt) if where is not None else ""), nf.fi.loc(where) if where is not None else nf.fi.loc(), None, first_line(where.stmt) if where is not None else None)


def per_member_state(run, model, rule="C04.per-member-state"):
    """What the loop over the bases accumulates for one member -- flags such as "a base provides it" / "a base accepts
    everything", counters, lists -- starts afresh for every member: in the property pass getter, setter and deleter
    are handled one after the other by an enclosing loop, and a value left over from the previous accessor decides
    for the next one (an accept-all getter would wipe the inherited preconditions of the setter)."""
    for kind, nf in namespace_fns(model).items():
        flow = nf.flow
        run.saw(flow)
        if len(nf.base_loops) != 1:
            continue
        inner = nf.base_loops[0]
        inner_ids = nf.lexical_body(inner)
        outers = [h for h in nf.all_loops if h is not inner and inner.id in nf.lexical_body(h)]
        # plain locals assigned inside the loop over the bases
        assigned = {}
        for n in nf.cfg.nodes:
            if n.id in inner_ids and n.kind == "stmt" and isinstance(n.ast, (ast.Assign, ast.AugAssign)):
                tgs = n.ast.targets if isinstance(n.ast, ast.Assign) else [n.ast.target]
                for tg in tgs:
                    if isinstance(tg, ast.Name):
                        assigned.setdefault(tg.id, n)
        it_nodes = [p for k, p in inner.pred if p.kind == "iter"]
        bad = None
        if outers and it_nodes:
            outer = outers[0]
            lo = outer.stmt.lineno
            hi = max(getattr(x, "end_lineno", lo) or lo for x in ast.walk(outer.stmt))
            for name in sorted(assigned):
                # is the value *live* where the loop over the bases begins -- can a read be reached from there before
                # the name is set again?  (temporaries of one base are set before they are read: not live)
                def _loads(x):
                    if x.ast is None or x.kind in ("def", "ENTRY", "EXIT_RETURN", "EXIT_RAISE"):
                        return False
                    roots = [x.ast]
                    if x.kind == "stmt" and isinstance(x.ast, ast.Assign):
                        roots = [x.ast.value] + [t_ for t_ in x.ast.targets if not isinstance(t_, ast.Name)]
                    return any(isinstance(s_, ast.Name) and s_.id == name and isinstance(s_.ctx, ast.Load) for r_ in roots for s_ in ast.walk(r_))

                def _stores(x):
                    return x.kind == "stmt" and isinstance(x.ast, (ast.Assign, ast.AnnAssign)) and any(isinstance(t_, ast.Name) and t_.id == name for t_ in (x.ast.targets if isinstance(x.ast, ast.Assign) else [x.ast.target]))

                live, seen_, todo_ = False, set(), [it_nodes[0]]
                while todo_ and not live:
                    x = todo_.pop()
                    if x.id in seen_:
                        continue
                    seen_.add(x.id)
                    if x is not it_nodes[0]:
                        if _loads(x):
                            live = True
                            break
                        if _stores(x):
                            continue
                    for k_, t_ in x.succ:
                        if k_ not in ("exc", "unmatched", "handler"):
                            todo_.append(t_)
                if not live:
                    continue
                for d in flow.defs_at(it_nodes[0], name):
                    dn = d.node
                    if dn is None:
                        continue
                    ln = getattr(dn, "lineno", None)
                    if dn.id in inner_ids:
                        bad = bad or (assigned[name], "`%s`, set inside the loop over the bases, is not set anew before that loop for the next accessor: what the bases said about one accessor (getter) is still in force when the next one (setter, deleter) is handled" % name)
                    elif ln is not None and not (lo <= ln <= hi):
                        bad = bad or (dn, "`%s` is initialised once, outside the loop that handles one accessor after the other (line %s), and set inside the loop over the bases: its value carries over from one accessor to the next" % (name, ln))
        run.check(bad is None, rule, nf.fi.qual, "the state accumulated over the bases starts afresh for every member (%d local(s) checked)" % len(assigned), bad[1] if bad else "", nf.fi.loc(bad[0]) if bad else nf.fi.loc(inner), None, first_line(bad[0].stmt) if bad and getattr(bad[0], "stmt", None) is not None else None)
