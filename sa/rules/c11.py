"""C11 -- checking is re-armed after every outcome; no lost error (DESIGN.md 5/C11)."""
from ..model import first_line
from . import marker, effects, gates, c09

META = {
    "explanation": "typestate of the marker over the exception-edge CFG incl. cancellation edges at every await (release on all exits, exact restore); enumerated error discipline over all except handlers; finally bodies; T-gate that no returned error is dropped",
    "trusted_base": ["CPython try/finally", "asyncio delivers cancellation as an exception at an await"],
    "not_decided": ["cancellation semantics inside user awaitables", "reprlib's absorption of failing __repr__"],
    "assumptions": ["every statement except plain name/constant copies and identity tests may raise"],
}


def run(run, model):
    run.do(marker.report_rule, model, "C11.release-on-all-exits", marker.MARKER_REGIONS_ALL, "no exit (return, raise, exception or cancellation edge of any statement) is reached with the marker held")
    run.do(marker.report_rule, model, "C10.own-release", marker.MARKER_REGIONS_ALL, "the state after the activation equals the state before it: removal by the owner only, or restore of the entry snapshot", as_rule="C11.exact-restore")
    run.do(marker.finally_clean, model)
    run.do(effects.handlers_rule, model)
    run.do(effects.lazy_user_code, model)
    # the error of *this* violation surfaces: nothing a previous call left on a long-lived object decides for it
    run.do(effects.no_other_state, model, "C11.no-history")
    for role, ck in gates.checkers(model).items():
        for kind in ("PRE", "POST"):
            if not ck.by_kind.get(kind):
                run.violation("C11.no-drop", "%s:%s" % (ck.fi.qual, kind), "no call in the wrapper evaluates the %s through a helper whose returned error the wrapper raises: whether a violation found there reaches the caller cannot be followed (the evaluation was restructured so that the error passes through code this rule does not see as the evaluation of the live list)" % ("preconditions" if kind == "PRE" else "postconditions"), ck.fi.loc())
            for ev in ck.by_kind.get(kind, []):
                later = ck.ids(ck.checked_bodies) | {ck.cfg.exit_return.id} if kind == "PRE" else {ck.cfg.exit_return.id}
                ok, detail, node = ck.gate(ev, later, user_value=True)
                run.check(ok, "C11.no-drop", "%s:%s" % (ck.fi.qual, kind), "the error returned by the evaluation is tested and raised; never discarded", detail, ck.loc(node), None, first_line(node.stmt))
    run.do(c09.invariant_raise_site, model, "C11.no-drop")
    # an awaitable result is awaited (whatever earlier calls gave): what the awaited operation raises is not lost
    from . import twins
    run.do(twins.helper_dispatch, model, "C11.await-dispatch", "C11.sync-reject")
    # ... nor inside the evaluation helpers: an error, once created, reaches the wrapper (tested for presence)
    from . import loops
    for role, ck in gates.checkers(model).items():
        for kind, depth in (("PRE", 2), ("POST", 1)):
            h = loops.helper_of(model, ck, kind)
            if h is not None:
                run.do(loops.verdict_rule, model, "C11.no-drop-in-helper", h[0], h[1], h[2], depth)
    run.minimum("C11.release-on-all-exits", 5)
    run.minimum("C11.handlers", 3, "not_check, message generation, at least one self-lookup")
    run.minimum("C11.finally-clean", 5)
    run.minimum("C11.no-drop", 5)
    run.minimum("C11.no-lazy-user-code", 10)
