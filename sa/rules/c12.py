"""C12 -- concurrent callers never disable each other's checks (DESIGN.md 5/C12)."""
from . import effects, marker

META = {
    "explanation": "alias/effect analysis: no in-place mutation of any value aliasing the context variable's value; no store to state that outlives a call in the call-graph closure of the six wrappers; suspension state only in the context variable",
    "trusted_base": ["contextvars: each thread/task has its own binding; copy_context copies bindings, not values"],
    "not_decided": ["interference through user objects", "the contextvars implementation itself"],
    "assumptions": ["the call graph is resolved through names, package attributes and self-methods; dynamic dispatch inside the library is limited to ast.NodeVisitor.visit"],
}


def run(run, model):
    run.do(effects.immutable_values, model)
    run.do(effects.no_other_state, model)
    run.do(effects.ctxvar_only, model)
    run.do(effects.ctxvar_readable, model)
    run.do(effects.no_memo, model, "C12.no-memo")
    run.do(effects.frozen_after_init, model, "C12.frozen-after-init")
    # positive control for the zero-count rule: the recogniser must see the marker operations
    def positive_control(run, model):
        regs = marker.regions(model)
        run.extra["marker_operations_seen"] = sum(1 for r in regs.values() for k, _, _ in r.event_states if k in ("ACQUIRE", "RESTORE", "REMOVE"))

    run.do(positive_control, model)
    # a task spawned while the marker is held copies the context *with* the marker: the marker is private to one
    # activation only if it is not held while user code that may spawn tasks (the body) runs, and never left behind
    run.do(marker.body_rules, model, "C12.body-unheld", None)
    run.do(marker.key_rule, model, "C12.key")
    run.do(marker.report_rule, model, "C11.release-on-all-exits", marker.MARKER_REGIONS_ALL, "no exit is reached with the marker held (a marker left behind is copied into every task created later from this context and switches their checks off)", as_rule="C12.no-sticky")
    run.minimum("C12.immutable-values", 6, "default + five functions using the context variable")
    run.minimum("C12.no-other-state", 20)
    run.minimum("C12.ctxvar-only", 5)
    run.minimum("C12.readable-everywhere", 2, "the checker wrappers and the invariant wrappers read the variable (possibly through one bound accessor each)")
