"""Forwarding tables: what a decorator is given reaches the contract object unchanged (C06, C07, C09, C20, C03)."""
import ast

from ..events import calls_in
from ..flow import get_flow, show, strip_sites
from ..model import first_line, src_of, resolve_class

# decorator -> (class constructed, parameters that must be forwarded under the same name)
FORWARD = {
    "require": ("Contract", ("condition", "description", "a_repr", "error")),
    "ensure": ("Contract", ("condition", "description", "a_repr", "error")),
    "invariant": ("Invariant", ("condition", "description", "a_repr", "error", "check_on")),
    "snapshot": ("Snapshot", ("capture", "name")),
}
STORED = {
    "Contract": {"condition": "condition", "description": "description", "a_repr": "_a_repr", "error": "error", "location": "location"},
    "Snapshot": {"capture": "capture", "location": "location"},
}


def forwarding(run, model, rule, only=None):
    """``only``: restrict to the given parameter names (e.g. ('a_repr',))."""
    # ---- decorators construct their contract object with their own arguments
    for dec, (clsname, params) in FORWARD.items():
        fi = model.method("_decorators", dec, "__init__")
        flow = get_flow(model, fi)
        run.saw(flow)
        site = None
        for n in flow.cfg.nodes:
            for call, c, a in calls_in(n):
                rc = resolve_class(model, fi, call.func)
                if rc is not None and rc == ("_types", clsname):
                    site = (n, call)
        if site is None:
            run.violation(rule, fi.qual, "the decorator does not construct its %s" % clsname, fi.loc())
            continue
        n, call = site
        kws = {kw.arg: flow.term(kw.value, n) for kw in call.keywords if kw.arg}
        cls_init = model.method("_types", clsname, "__init__")
        names = cls_init.params[1:]
        for i, a in enumerate(call.args):
            if i < len(names):
                kws[names[i]] = flow.term(a, n)
        for p in params:
            if only and p not in only:
                continue
            got = kws.get(p)
            run.check(got == ("param", p), rule, "%s:%s" % (fi.qual, p), "`%s` is handed to the %s as given" % (p, clsname), "the decorator's `%s` argument does not reach its %s (passed: %s): the value configured by the user is ignored" % (p, clsname, show(strip_sites(got)) if got else "nothing, the default applies"), fi.loc(n), None, first_line(n.stmt))
        if not only or "location" in only:
            got = kws.get("location")
            run.check(got is not None and got != ("const", "None"), rule, "%s:location" % fi.qual, "the place of the declaration is recorded", "the contract is created without the location of its declaration", fi.loc(n), None, first_line(n.stmt))
    # ---- Invariant forwards to Contract
    fi = model.method("_types", "Invariant", "__init__")
    flow = get_flow(model, fi)
    run.saw(flow)
    site = None
    for n in flow.cfg.nodes:
        for call, c, a in calls_in(n):
            if src_of(call.func) in ("super().__init__", "Contract.__init__"):
                site = (n, call)
    if site is None:
        run.violation(rule, fi.qual, "Invariant does not initialise its Contract part", fi.loc())
    else:
        n, call = site
        kws = {kw.arg: flow.term(kw.value, n) for kw in call.keywords if kw.arg}
        base_init = model.method("_types", "Contract", "__init__")
        names = base_init.params[1:]
        args = list(call.args)
        if src_of(call.func) == "Contract.__init__" and args:
            args = args[1:]
        for i, a in enumerate(args):
            if i < len(names):
                kws[names[i]] = flow.term(a, n)
        for p in ("condition", "description", "a_repr", "error", "location"):
            if only and p not in only:
                continue
            got = kws.get(p)
            run.check(got == ("param", p), rule, "%s:%s" % (fi.qual, p), "`%s` is forwarded to Contract.__init__" % p, "Invariant does not forward `%s` to Contract.__init__ (passed: %s): invariants silently use the default" % (p, show(strip_sites(got)) if got else "nothing"), fi.loc(n), None, first_line(n.stmt))
        if not only or "check_on" in only:
            ok = any(n2.kind == "stmt" and isinstance(n2.ast, ast.Assign) and src_of(n2.ast) == "self.check_on = check_on" for n2 in flow.cfg.nodes)
            run.check(ok, rule, fi.qual + ":check_on", "check_on is kept as given", "Invariant does not keep its check_on", fi.loc())
    # ---- the contract objects keep what they are given
    for clsname, table in STORED.items():
        fi = model.method("_types", clsname, "__init__")
        flow = get_flow(model, fi)
        run.saw(flow)
        stores = {}
        for n in flow.cfg.nodes:
            if n.kind == "stmt" and isinstance(n.ast, (ast.Assign, ast.AnnAssign)) and getattr(n.ast, "value", None) is not None:
                targets = n.ast.targets if isinstance(n.ast, ast.Assign) else [n.ast.target]
                for tg in targets:
                    if isinstance(tg, ast.Attribute) and isinstance(tg.value, ast.Name) and tg.value.id == "self":
                        stores.setdefault(tg.attr, []).append(flow.term(n.ast.value, n))
        for p, attr in table.items():
            if only and p not in only:
                continue
            got = stores.get(attr, [])
            run.check(got == [("param", p)], rule, "%s:%s" % (fi.qual, attr), "self.%s is the `%s` it was given" % (attr, p), "%s stores %s as self.%s instead of the `%s` it was given" % (clsname, [show(strip_sites(g)) for g in got], attr, p), fi.loc())
