"""C13 -- async callables get the same contract semantics as sync ones (DESIGN.md 5/C13)."""
from . import twins, gates, loops, marker, inv, c09, common

META = {
    "explanation": "sibling cross-check: the sync and async wrappers are compared statement by statement after erasing the declared differences (await, _async suffix, func= keyword, local names); decision tables of coroutine dispatch (async helpers) and coroutine rejection (sync helpers, invariant check); instance parity of every gate/order/typestate/verdict rule between the twins",
    "trusted_base": ["inspect.iscoroutinefunction / iscoroutine"],
    "not_decided": ["equality of full event traces for all programs (only equivalence of the library's own twins)"],
    "assumptions": [],
}


def parity(run, model, rule="C13.parity"):
    """Every rule instance that holds for a sync function exists and holds for its async twin."""
    from ..report import Run

    sub = Run("C13", run.tier, model)
    for fn, args in (
        (gates.c01_gate, ()), (gates.c02_gate, ()), (gates.c08_place, ()), (gates.c16_phases, ()), (gates.c19_reserved_call, ()), (gates.c19_result_old, ()),
        (gates.c05_select_mapping, ()), (gates.c02_result_identity, ()), (gates.c02_exc_transparent, ()),
        (marker.report_rule, ("C10.own-release", marker.MARKER_REGIONS_ALL)), (marker.report_rule, ("C10.test-first", marker.MARKER_REGIONS)),
        (marker.report_rule, ("C10.held-for-contracts", marker.MARKER_REGIONS)), (marker.report_rule, ("C11.release-on-all-exits", marker.MARKER_REGIONS_ALL)),
        (marker.body_rules, ()), (marker.key_rule, ()), (marker.finally_clean, ()), (inv.phases, ()),
    ):
        sub.do(fn, model, *args)
    for role, ck in gates.checkers(model).items():
        for kind, depth, rname in (("PRE", 2, "C01.verdict"), ("POST", 1, "C02.first-failure")):
            h = loops.helper_of(model, ck, kind)
            if h is not None:
                sub.do(loops.verdict_rule, model, rname, h[0], h[1], h[2], depth)
    run.errors.extend(sub.errors)
    run.functions |= sub.functions
    run.cfg_nodes = max(run.cfg_nodes, sub.cfg_nodes)
    run.cfg_edges = max(run.cfg_edges, sub.cfg_edges)
    # pair the constructs
    def twin_key(o):
        c = o.construct.replace("[async]", "[*]").replace("[sync]", "[*]").replace("_async", "")
        return (o.rule, c)
    by = {}
    for o in sub.obligations:
        side = "async" if ("[async]" in o.construct or "_async" in o.construct) else ("sync" if ("[sync]" in o.construct or o.construct.split(":")[0].split(".")[-1] in ("_assert_preconditions", "_assert_postconditions", "_capture_old")) else None)
        if side is None:
            continue
        by.setdefault(twin_key(o), {}).setdefault(side, []).append(o)
    for key, sides in sorted(by.items()):
        s, a = sides.get("sync", []), sides.get("async", [])
        construct = "%s @ %s" % key
        if not s or not a:
            run.violation(rule, construct, "the rule instance exists only for the %s twin" % ("sync" if s else "async"), (s or a)[0].loc)
            continue
        sv = [o for o in s if o.status == "violation"]
        av = [o for o in a if o.status == "violation"]
        if sv and av:
            run.ok(rule, construct, "both twins behave alike here (both violate %s; reported under that property)" % key[0])
        elif sv or av:
            bad = (av or sv)[0]
            which = "async" if av and not sv else ("sync" if sv and not av else "both")
            run.violation(rule, construct, "%s holds for %s: %s" % (key[0], {"async": "the sync twin only; the async twin violates it", "sync": "the async twin only; the sync twin violates it", "both": "neither twin"}[which], bad.detail), bad.loc, bad.witness, bad.stmt)
        else:
            run.ok(rule, construct, "holds for both twins")


def run(run, model):
    run.do(twins.wrapper_twins, model)
    run.do(twins.helper_dispatch, model)
    run.do(twins.colour, model)
    from . import effects
    run.do(twins.body_await, model)
    run.do(twins.coroutine_results_tested, model)
    # the rejection of a coroutine on a sync callable reaches the caller: no handler absorbs or defers it
    run.do(effects.handlers_rule, model, "C13.no-swallow")
    run.do(effects.frozen_after_init, model, "C13.no-cached-decision")
    run.do(inv.self_rule, model, "C13.sync-reject-invariant")
    run.do(parity, model)
    from . import c19
    run.do(c19.invariant_init, model)
    # the message of a contract on an ``async def`` is built like that of a ``def``: the decorator is delimited alike
    from . import msg
    run.do(msg.decorator_regex, model, "C13.layout-regex")
    run.minimum("C13.twins", 2)
    run.minimum("C13.await-dispatch", 12)
    run.minimum("C13.sync-reject", 12)
    run.minimum("C13.colour", 2)
    run.minimum("C13.parity", 20)
    run.minimum("C13.body-await", 2)
    run.minimum("C13.coroutine-result-tested", 6)
