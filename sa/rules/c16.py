"""C16 -- deterministic evaluation order and first-failure reporting (DESIGN.md 5/C16)."""
from . import gates, loops, common, meta, inv, c04

META = {
    "explanation": "T-order (dominance/reachability chain) of the phases in both checker wrappers and in the invariant wrappers; append-at-end of the decorator helpers; inherited-before-own provenance in the metaclass; N/T/E verdict typestate (stop at first falsy, first failure reported) over the four evaluation helpers",
    "trusted_base": ["list.append / list concatenation keep order"],
    "not_decided": ["verdicts for concrete truth assignments"],
    "assumptions": [],
}


def run(run, model):
    run.do(gates.c16_phases, model)
    run.do(gates.c01_gate, model, "C16.pre-gate-first")
    run.do(inv.phases, model, "C16.inv-phases")
    run.do(inv.ctor, model, "C16.inv-ctor")
    run.do(inv.marker_agreement, model, "C16.inv-wrapped-once")
    run.do(inv.meta_reapply, model, "C16.meta-order", None)
    run.do(common.append_rules, model, "C16.append", which=("pre", "post", "snap"))
    run.do(meta.provenance_rule, model, "C16.base-first", "__preconditions__", "precondition groups")
    run.do(meta.provenance_rule, model, "C16.base-first", "__postconditions__", "postconditions")
    run.do(meta.provenance_rule, model, "C16.base-first", "__postcondition_snapshots__", "snapshots")
    run.do(c04.weaken_table, model, "C16.collapse")
    run.do(c04.groups_kept, model, "C16.groups-kept")
    run.do(meta.per_member_state, model, "C16.per-member-state")
    run.do(c04.invariant_provenance, model, "C16.base-first", "C16.inv-own")
    for role, ck in gates.checkers(model).items():
        h = loops.helper_of(model, ck, "PRE")
        if h is not None:
            run.do(loops.verdict_rule, model, "C16.first-failure", h[0], h[1], h[2], 2)
        h = loops.helper_of(model, ck, "POST")
        if h is not None:
            run.do(loops.verdict_rule, model, "C16.first-failure", h[0], h[1], h[2], 1)
    run.do(meta.shared_member_rule, model, "C16.once-shared-member")
    from . import c18
    run.do(c18.find_rule, model, "C16.single-checker")
    # which constructor carries the "after construction" phase
    run.do(inv.install, model, "C16.install", "C16.ctor-choice")
    # each invariant is registered once, in the list of the event it is meant for
    from . import c17, rec
    run.do(c17.invariant_decorator_table, model, "C16.decorator-lists")
    # the one re-evaluation of a violated condition evaluates each operand once
    run.do(rec.chain_and_lazy_compare, model, "C16.reeval-chain", "C16.reeval-chain-once")
    from . import msg
    run.do(msg.reeval_once, model)
    # the snapshot phase is there whenever postconditions and snapshots are
    run.do(gates.c08_place, model, "C16.snapshot-phase")
    run.minimum("C16.phases", 2)
    run.minimum("C16.inv-phases", 2)
    run.minimum("C16.append", 3)
    run.minimum("C16.base-first", 7)
    run.minimum("C16.first-failure", 4)
