"""T-iter-all / T-verdict: the evaluation helpers' loops (shared by C01, C02, C08, C13, C16).

For a helper ``H(list, mapping, ...)`` the rules establish, on the CFG of H:

* iter-all     -- the loop(s) iterate the parameter list itself (and, for preconditions, the outer target itself);
                  on every non-raising path through one iteration the user callable is called exactly once;
* verdict      -- a path-sensitive typestate over {N: no error pending, T: a condition was found falsy and not yet
                  recorded, E: error pending}: no condition is evaluated while an error is pending, the error is
                  built for the contract whose condition was just judged, the loop over groups advances only with
                  an error pending, and the function returns the pending error (or None when none is pending).
"""
import ast

from ..events import Summaries, calls_in, call_arg_terms, fi_of_term, bind_call
from ..flow import get_flow, show, strip_sites, subterms
from ..guards import GuardGraph, normal_succ
from ..model import AnalysisError, first_line, src_of
from ..typestate import explore


def find_truth_helper(model):
    """Package functions whose result is ``not <parameter>`` (role: TRUTH)."""
    summ = Summaries(model)
    out = []
    for fi in model.modules["_checkers"].funcs:
        if fi.parent is None and fi.cls is None and fi.live:
            rt = summ.return_term(fi)
            alts = rt[1] if rt[0] == "phi" else (rt,)
            for a in alts:
                if a[0] == "op" and a[1] == "Not" and len(a[2]) == 1 and a[2][0][0] == "param":
                    out.append((fi, a[2][0][1]))
    return out


def find_errfact(model):
    """The dispatch function: reads ``<param>.error`` and constructs the violation error (role: ERRFACT)."""
    fi = model.functions.get("_checkers._create_violation_error")
    if fi is not None:
        return fi
    for f in model.modules["_checkers"].funcs:
        if f.parent is None and f.live and "ViolationError(" in src_of(f.node) and ".error" in src_of(f.node):
            return f
    raise AnalysisError("anchor not found: the function creating the violation error")


class Helper:
    """Analysis of one evaluation helper."""

    def __init__(self, model, fi, list_param, mapping_param, what):
        self.model = model
        self.fi = fi
        self.flow = get_flow(model, fi)
        self.cfg = self.flow.cfg
        self.gg = GuardGraph(self.flow)
        self.list_param = list_param
        self.mapping_param = mapping_param
        self.what = what  # 'condition' | 'capture'
        self.truth = dict((f.qual, p) for f, p in find_truth_helper(model))
        self.errfact = find_errfact(model)
        self.loops = [n for n in self.cfg.nodes if n.kind == "next"]
        self._byid = {n.id: n for n in self.cfg.nodes}
        self.user = []  # (node, call, awaited, recv term)
        for n in self.cfg.nodes:
            for call, cond, awaited in calls_in(n):
                f = call.func
                if isinstance(f, ast.Attribute) and f.attr == what:
                    self.user.append((n, call, awaited, self.flow.term(f.value, n)))

    # ------------------------------------------------------------------ loops
    def loop_iter_term(self, head):
        for k, p in head.pred:
            if p.kind == "iter" and p.stmt is head.stmt:
                return self.flow.term(p.ast, p)
        return None

    def loop_body_ids(self, head):
        """Nodes of the loop body (reachable from the T edge without passing the head again)."""
        body = [t for k, t in head.succ if k == "T"]
        fwd = self.gg.reach(body, None, {head.id}, follow_exc=False) - {head.id}
        # keep the nodes lexically inside the loop statement (``break`` targets and what follows are outside)
        inside = set()
        for st in head.stmt.body:
            for sub in ast.walk(st):
                inside.add(id(sub))
        return set(i for i in fwd if id(self._byid[i].stmt) in inside)

    def user_count_per_iteration(self, head):
        """(min, max) number of user calls on non-raising paths through one iteration of the loop at ``head``."""
        body_ids = self.loop_body_ids(head)
        user_ids = {}
        for n, call, aw, recv in self.user:
            user_ids[n.id] = user_ids.get(n.id, 0) + 1
        byid = {n.id: n for n in self.cfg.nodes}
        memo = {}
        inner_heads = set(h.id for h in self.loops if h.id in body_ids)

        def rec(n, stack):
            if n.id == head.id or n.id not in body_ids:
                return (0, 0)
            if n.kind in ("raise", "assertfail"):
                return None
            if n.id in memo:
                return memo[n.id]
            if n.id in stack:
                return None  # inner cycle: handled by treating inner loops as opaque below
            stack = stack | {n.id}
            res = None
            succs = [(k, t) for k, t in n.succ if k not in ("exc", "unmatched")]
            if n.id in inner_heads:
                # an inner loop: its body may run any number of times -> count of the inner loop is (0, many)
                succs = [(k, t) for k, t in succs if k == "F"]
            for k, t in succs:
                r = rec(t, stack)
                if r is None:
                    continue
                res = r if res is None else (min(res[0], r[0]), max(res[1], r[1]))
            if res is None:
                memo[n.id] = None
                return None
            c = user_ids.get(n.id, 0)
            out = (res[0] + c, res[1] + c)
            memo[n.id] = out
            return out

        starts = [t for k, t in head.succ if k == "T"]
        res = None
        for s in starts:
            r = rec(s, frozenset())
            if r is not None:
                res = r if res is None else (min(res[0], r[0]), max(res[1], r[1]))
        return res


def analyse_iter_all(run, rule, model, fi, list_param, mapping_param, what, depth):
    """depth 1: ``for x in list``; depth 2: ``for g in list: for x in g``."""
    h = Helper(model, fi, list_param, mapping_param, what)
    run.saw(h.flow)
    lp = ("param", list_param)
    outer = [x for x in h.loops if h.loop_iter_term(x) == lp]
    if len(outer) != 1:
        its = [show(h.loop_iter_term(x)) for x in h.loops]
        run.violation(rule, fi.qual, "no loop iterates the parameter `%s` itself (loops iterate: %s): elements may be skipped, reordered or repeated" % (list_param, ", ".join(its) or "none"), fi.loc())
        return None
    # the walk is not bypassed: every non-raising way out of the helper goes through the loop over the list, unless
    # the list is known to be empty on it (``if not contracts: return None`` skips nothing)
    it_nodes = [p for k, p in outer[0].pred if p.kind == "iter"]
    if it_nodes:
        atoms = [a for (nid, k), (kn, _at) in h.gg.edge_facts.items() for a, pol in kn if strip_sites(a) == lp]
        drop = set()
        for a in atoms:
            drop |= set(h.gg.edges_where((a, False)))
        block = set(x.id for x in it_nodes)
        seen = h.gg.reach([h.cfg.entry], lambda n, k, t: t.id in block or (n.id, k) in drop, None, False)
        if h.cfg.exit_return.id in seen:
            rets = [x for x in h.cfg.nodes if x.kind == "return" and x.id in seen]
            where = rets[0] if rets else outer[0]
            run.violation(rule, fi.qual, "a path returns from the helper without walking `%s` although the list may hold contracts (`%s`): for some calls none of the contracts is evaluated" % (list_param, first_line(where.stmt)), fi.loc(where), None, first_line(where.stmt))
            return None
    target = ("elem", lp)
    inner_head = outer[0]
    if depth == 2:
        inner = [x for x in h.loops if h.loop_iter_term(x) == target and x.id in h.loop_body_ids(outer[0])]
        if len(inner) != 1:
            its = [show(h.loop_iter_term(x)) for x in h.loops if x is not outer[0]]
            run.violation(rule, fi.qual, "inside the loop over groups no loop iterates the group itself (inner loops iterate: %s)" % (", ".join(its) or "none"), fi.loc(outer[0]), None, first_line(outer[0].stmt))
            return None
        inner_head = inner[0]
        target = ("elem", target)
    # user calls: receiver is the innermost loop target, all inside the innermost loop
    body_ids = h.loop_body_ids(inner_head)
    for n, call, aw, recv in h.user:
        if recv != target or n.id not in body_ids:
            run.violation(rule, fi.qual, "`.%s` is called on %s, not on the element of the list currently iterated" % (what, show(recv)), fi.loc(n), None, first_line(n.stmt))
            return None
    if not h.user:
        run.violation(rule, fi.qual, "the helper never calls `.%s` of an element" % what, fi.loc())
        return None
    cnt = h.user_count_per_iteration(inner_head)
    if cnt is None or cnt != (1, 1):
        run.violation(rule, fi.qual, "the user callable is evaluated %s time(s) per element on some non-raising path (expected exactly once)" % (cnt,), fi.loc(inner_head), None, first_line(inner_head.stmt))
        return None
    run.ok(rule, fi.qual, "loop(s) iterate the parameter itself; exactly one `.%s(...)` per element on every non-raising path (%d call sites)" % (what, len(h.user)), fi.loc(inner_head))
    return h, outer[0], inner_head, target


def analyse_verdict(run, rule, model, fi, list_param, mapping_param, depth):
    """Typestate N/T/E over the helper; see the module docstring."""
    res = analyse_iter_all(run, rule.replace("verdict", "iter-all").replace("first-failure", "iter-all"), model, fi, list_param, mapping_param, "condition", depth)
    if res is None:
        return
    h, outer, inner, target = res
    flow = h.flow
    errfact = h.errfact
    # classify nodes
    cond_ids = set(n.id for n, _, _, _ in h.user)
    findings = []
    err_terms = set()

    def is_errfact_call(t):
        if t[0] == "await":
            t = t[1]
        return t[0] == "call" and fi_of_term(model, t[1]) is errfact

    def truth_fact_edges(node):
        """Edges of a test node on which 'the condition was found falsy' is known: returns set of edge kinds."""
        if node.kind != "test" or node.ast is None:
            return set(), None
        t = flow.term(node.ast, node)
        out = set()
        chk = None
        for kind in ("T", "F"):
            kn, atoms = h.gg.known(node, kind)
            for atom, pol in kn:
                # call of the TRUTH helper: truthy result == condition falsy
                if atom[0] == "call":
                    f = fi_of_term(model, atom[1])
                    if f is not None and f.qual in h.truth:
                        pname = h.truth[f.qual]
                        args = dict(atom[3])
                        chk = args.get(pname)
                        if pol:
                            out.add(kind)
                        continue
                # inlined ``not check``: atom is the check value itself with polarity False
                if _is_cond_result(atom):
                    chk = atom
                    if not pol:
                        out.add(kind)
        return out, chk

    def _is_cond_result(t):
        alts = t[1] if t[0] == "phi" else (t,)
        ok = True
        for a in alts:
            if a[0] == "await":
                a = a[1]
            if not (a[0] == "call" and a[1][0] == "attr" and a[1][2] == "condition"):
                ok = False
        return ok and bool(alts)

    truth_nodes = {}
    for n in h.cfg.nodes:
        kinds, chk = truth_fact_edges(n)
        if kinds:
            truth_nodes[n.id] = (kinds, chk)
    if not truth_nodes:
        run.violation(rule, fi.qual, "the result of the condition is never truth-tested", fi.loc())
        return
    # the value judged is the value the condition returned
    for nid, (kinds, chk) in truth_nodes.items():
        node = [x for x in h.cfg.nodes if x.id == nid][0]
        if chk is None or not _is_cond_result(chk):
            findings.append(("the value that is truth-tested (%s) is not the value the condition returned" % (show(chk) if chk else "?"), node, None))
        else:
            alts = chk[1] if chk[0] == "phi" else (chk,)
            for a in alts:
                a = a[1] if a[0] == "await" else a
                if a[1][1] != target:
                    findings.append(("the judged value comes from the condition of %s, not of the contract currently iterated" % show(a[1][1]), node, None))

    # which variable holds the verdict: names assigned from ERRFACT calls
    verdict_vars = set()
    for lst in flow.node_defs.values():
        for d in lst:
            if d.kind == "assign" and d.value is not None and is_errfact_call(flow.term(d.value, d.node)):
                verdict_vars.add(d.name)

    def step(node, state):
        cur = state
        # events inside the node
        if node.id in cond_ids:
            if cur == "E":
                findings.append(("a condition is evaluated although an earlier condition of the same conjunction was already found falsy (evaluation must stop at the first falsy condition)", node, (node.id, state)))
            elif cur == "T":
                findings.append(("a condition is evaluated after another was found falsy and before its error was recorded", node, (node.id, state)))
        for d in flow.node_defs.get(node.id, []):
            if d.name in verdict_vars and d.kind == "assign":
                vt = flow.term(d.value, node)
                if vt == ("const", "None"):
                    if cur in ("T",):
                        findings.append(("the pending failure is discarded (the verdict variable is reset before the error was recorded)", node, (node.id, state)))
                    cur = "N" if cur != "T" else "T"
                    if state == "E":
                        cur = "N"
                elif is_errfact_call(vt):
                    _check_errfact_args(vt, node)
                    cur = "E"
                else:
                    findings.append(("the variable holding the verdict is assigned %s, which is not the error created for the contract whose condition was found falsy: the group is then treated as violated (and the next group decides) or a foreign object is raised" % show(strip_sites(vt), 80), node, (node.id, state)))
                    cur = "E"
        if node.kind == "return":
            rt = flow.term(node.ast, node) if node.ast is not None else ("const", "None")
            if is_errfact_call(rt) and not any(d.name in verdict_vars for d in flow.node_defs.get(node.id, [])):
                # ``return _create_violation_error(...)`` directly
                if isinstance(node.ast, ast.Call) or isinstance(node.ast, ast.Await):
                    _check_errfact_args(rt, node)
                    if cur == "T":
                        cur = "E"
            alts = rt[1] if rt[0] == "phi" else (rt,)
            if cur == "E":
                if not any(is_errfact_call(a) for a in alts):
                    findings.append(("the function returns %s although an error is pending (the violation is lost)" % show(rt), node, (node.id, state)))
            elif cur == "T":
                findings.append(("the function returns without reporting the condition that was found falsy", node, (node.id, state)))
            else:
                if not any(a == ("const", "None") for a in alts):
                    findings.append(("the function returns %s although no condition was found falsy" % show(rt), node, (node.id, state)))
        # loop advance rules
        outs = []
        if node.id in truth_nodes:
            kinds, _ = truth_nodes[node.id]
            for k in ("T", "F"):
                if k in kinds:
                    outs.append((k, "T" if cur == "N" else cur))
                else:
                    outs.append((k, cur))
        elif node.kind == "test" and isinstance(node.stmt, ast.Assert):
            # asserts vanish under -O: they guard nothing, the assumed-true edge is followed in every state
            outs.append(("T", cur))
        elif node.kind == "test":
            # refinement on the verdict variable: ``if exception is None`` / ``if exception``
            for k in ("T", "F"):
                kn, atoms = h.gg.known(node, k)
                feasible = True
                for atom, pol in kn:
                    alts = atom[1] if atom[0] == "phi" else (atom,)
                    if any(is_errfact_call(a) for a in alts) or (atom == ("const", "None")):
                        # atom is (a possible value of) the verdict variable
                        if pol and cur == "N":
                            feasible = False
                        if not pol and cur == "E":
                            feasible = False
                if feasible:
                    outs.append((k, cur))
        else:
            outs.append((None, cur))
        return outs, [cur]

    def _check_errfact_args(vt, node):
        t = vt[1] if vt[0] == "await" else vt
        err_terms.add(strip_sites(t))
        args = dict(t[3])
        ea = errfact.node.args
        names = [x.arg for x in ea.posonlyargs + ea.args + ea.kwonlyargs]
        contract_arg = args.get(names[0]) if names else None
        mapping_arg = args.get(names[1]) if len(names) > 1 else None
        if contract_arg != target:
            findings.append(("the error is created for %s, not for the contract whose condition was just found falsy" % show(contract_arg) if contract_arg else "?", node, None))
        if mapping_arg != ("param", mapping_param):
            findings.append(("the error is created with %s instead of the call's resolved arguments" % (show(mapping_arg) if mapping_arg else "?"), node, None))

    prod = explore(h.cfg, "N", step)
    # loop advance: the loop over groups may advance (edge into the outer head from inside its body) only with an
    # error pending; and a pending error may be returned only after all groups were tried
    byid = {n.id: n for n in h.cfg.nodes}
    if depth == 2:
        body_ids = h.loop_body_ids(outer)
        for (pid, ps, kind, tid, ts) in sorted(prod.transitions, key=lambda x: (x[0], str(x[1]))):
            if tid == outer.id and pid in body_ids and ts == "N":
                findings.append(("the loop over groups advances to the next group with no error pending: a group that was satisfied -- or skipped without being evaluated -- must end the evaluation with success, otherwise the verdict of the skipped group is lost", byid[pid], (pid, ps)))
                break
        for n in h.cfg.nodes:
            if n.kind == "return" and n.id in body_ids and "E" in prod.at_node.get(n.id, ()):
                findings.append(("a pending error is returned from inside the loop over groups: the remaining groups are alternatives (require-else) and must be tried before the violation is reported", n, (n.id, "E")))
                break
    # T edges: after a falsy verdict an ERRFACT must follow before the next loop head
    for (nid, s), pred in prod.seen.items():
        n = [x for x in h.cfg.nodes if x.id == nid][0]
        if s == "T" and n.kind == "next":
            findings.append(("after a condition was found falsy the loop continues without an error having been created", n, (nid, s)))
            break
    # presence, not truth: the error object may be the user's own exception and may be falsy
    def may_be_error(t):
        alts = t[1] if t[0] == "phi" else (t,)
        return any(is_errfact_call(a) for a in alts)

    def truth_subjects(t):
        """terms used as truth values in test term t (outside `is [not] None`)"""
        if t[0] == "op" and t[1] in ("Not", "And", "Or"):
            return [x for o in t[2] for x in truth_subjects(o)]
        if t[0] == "op" and t[1] in ("cmp:Is", "cmp:IsNot") and len(t[2]) == 2 and t[2][1] == ("const", "None"):
            return []
        if t[0] == "call" and t[1] == ("builtin", "bool") and len(t[2]) == 1:
            return truth_subjects(t[2][0])
        return [t]

    for n in h.cfg.nodes:
        if n.kind == "test" and n.ast is not None:
            for sub in truth_subjects(flow.term(n.ast, n)):
                if may_be_error(sub):
                    findings.append(("the error created for a violated contract is tested for TRUTH (`%s`), not for presence (`is not None`): an exception object that is falsy (it defines __len__ or __bool__) counts as no violation -- the remaining contracts are evaluated and the call goes on" % first_line(n.stmt).rstrip(":"), n, None))
    seen = set()
    for detail, node, key in findings:
        k2 = (detail, first_line(node.stmt) if node.stmt is not None else "")
        if k2 in seen:
            continue
        seen.add(k2)
        wit = prod.witness_lines(key[0], key[1]) if key is not None and key in prod.seen else None
        run.violation(rule, fi.qual, detail, fi.loc(node), wit, first_line(node.stmt) if node.stmt is not None else None)
    if not findings:
        n_states = sum(len(v) for v in prod.at_node.values())
        run.ok(rule, fi.qual, "no condition evaluated with an error pending; error built for the judged contract and the call's mapping; %s; returns the pending error or None (%d product states)" % ("the group loop advances only with an error pending" if depth == 2 else "returns at the first falsy condition", n_states), fi.loc())


def helper_of(model, ck, kind):
    """(helper FuncInfo, list param, mapping param) of the PRE/POST/SNAP call of a checker wrapper."""
    evs = ck.by_kind.get(kind, [])
    if len(evs) != 1:
        return None
    ev = evs[0]
    fi = ev["callee"]
    bound = bind_call(fi, ev["call"])
    mapping_param = None
    if bound and ck.mapping is not None:
        for pname, aexpr in bound.items():
            if ck.flow.term(aexpr, ev["node"]) == ck.mapping:
                mapping_param = pname
    return fi, ev["param"], mapping_param


def verdict_rule(run, model, rule, fi, list_param, mapping_param, depth):
    """Same as analyse_verdict with the (run, model, ...) calling convention of Run.do."""
    return analyse_verdict(run, rule, model, fi, list_param, mapping_param, depth)
