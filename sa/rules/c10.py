"""C10 -- contracts calling contracted code terminate; only own re-entry goes unchecked (DESIGN.md section 5/C10)."""
from . import marker

META = {
    "explanation": "typestate (T-pair) of the in-progress marker over the exception-edge CFG of the five marker regions",
    "trusted_base": ["CPython try/finally and exception propagation", "contextvars.ContextVar get/set semantics"],
    "not_decided": ["termination for arbitrary call graphs (only the marker discipline it rests on)"],
    "assumptions": ["the six wrapper closures are the only code that evaluates contracts at call time (checked by C01.kind-uniform)"],
}


def run(run, model):
    run.do(marker.report_rule, model, "C10.own-release", marker.MARKER_REGIONS_ALL, "every key removal happens in state H, or the entry snapshot is restored")
    run.do(marker.report_rule, model, "C10.test-first", marker.MARKER_REGIONS, "no contract is evaluated by an activation that acquired blindly")
    run.do(marker.report_rule, model, "C10.held-for-contracts", marker.MARKER_REGIONS, "every contract event occurs in state H")
    run.do(marker.body_rules, model)
    run.do(marker.key_rule, model)
    marker.report_rule(run, model, "C11.release-on-all-exits", marker.MARKER_REGIONS_ALL, "no exit is reached with the marker held (a leaked marker would leave later, non re-entrant calls unchecked)", as_rule="C10.no-sticky")
    from . import inv
    run.do(inv.selection, model, "C10.wrapped-members", "C10.wrapped-members-source")
    # the marker and the invariants belong to the object the method was called on
    run.do(inv.find_self, model, "C10.find-self")
    from . import twins
    run.do(twins.body_await, model, "C10.body-unheld-async")
    run.minimum("C10.own-release", 5, "two checker wrappers, constructor wrapper, two method wrappers")
    run.minimum("C10.key", 5)
