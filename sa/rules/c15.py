"""C15 -- disabled contracts are absent; enabled ones do not depend on interpreter mode (DESIGN.md 5/C15)."""
import ast

from .. import tables
from ..flow import get_flow, show, strip_sites, subterms
from ..model import AnalysisError, first_line, src_of

META = {
    "explanation": "decision tables of the eight decorator entry points with `enabled` false (no call, no store, returns the parameter); abstract evaluation of SLOW over {__debug__} x {unset, empty, non-empty}; who-may-read rule for __debug__; purity of every assert test",
    "trusted_base": ["CPython removes assert statements and sets __debug__ False under -O"],
    "not_decided": ["the interpreter's treatment of -O/-OO itself"],
    "assumptions": ["pure predicates: isinstance, hasattr, len, callable, inspect.is*, getattr, all/any over such tests"],
}

DECORATORS = ("require", "snapshot", "ensure", "invariant")
PURE_CALLS = {"isinstance", "issubclass", "hasattr", "len", "callable", "getattr", "all", "any", "bool", "type", "id", "tuple", "list", "set", "sorted", "is_lambda", "format", "repr", "str"}


def early_return(run, model, rule="C15.early-return"):
    for dec in DECORATORS:
        # ---- __call__: with enabled false returns the parameter, touching nothing
        fi = model.method("_decorators", dec, "__call__")
        flow = get_flow(model, fi)
        run.saw(flow)
        ps = tables.paths(flow)
        subj = fi.params[1]

        def ev(t):
            if t == ("attr", ("param", "self"), "enabled"):
                return False
            return None

        feas = [p for p in ps if tables.feasible(p, ev)]
        bad = None
        if not feas:
            bad = "no path for a disabled decorator"
        for p in feas:
            if p.outcome is None or p.outcome[0] != "return" or p.outcome[1] != ("param", subj):
                bad = "a disabled decorator does not return the very object it was given (outcome: %s)" % (tables.classify(p) if p.outcome is None or p.outcome[0] != "return" else show(strip_sites(p.outcome[1])))
            elif p.calls or p.stores:
                bad = "a disabled decorator still does work before returning: %s" % (show(strip_sites(p.calls[0][0]), 80) if p.calls else "store to " + show(strip_sites(p.stores[0][0]), 60))
            # the enabled test must be the first decision
            elif p.decisions and not any(s == ("attr", ("param", "self"), "enabled") for s in subterms(p.decisions[0][0])):
                bad = "the `enabled` test is not the first thing the decorator does"
        run.check(bad is None, rule, fi.qual, "enabled=False: returns the parameter; no call, no attribute store", bad or "", fi.loc())
        # ---- __init__: with enabled false the condition / capture is not touched
        fi = model.method("_decorators", dec, "__init__")
        flow = get_flow(model, fi)
        run.saw(flow)
        ps = tables.paths(flow)
        subj = fi.params[1]

        def ev2(t):
            if t == ("param", "enabled"):
                return False
            return None

        feas = [p for p in ps if tables.feasible(p, ev2)]
        bad = None
        stored_enabled = False
        for p in feas:
            for ct, n in p.calls:
                if any(s == ("param", subj) for s in subterms(ct)) or ct[1][0] == "class":
                    bad = "with enabled=False the decorator still uses its %s: %s" % (subj, show(strip_sites(ct), 90))
            for tt, vt, n in p.stores:
                if tt == ("attr", ("param", "self"), "enabled") and vt == ("param", "enabled"):
                    stored_enabled = True
                if any(s == ("param", subj) for s in subterms(vt)):
                    bad = "with enabled=False the decorator keeps a reference derived from its %s" % subj
            if p.outcome is not None and p.outcome[0] == "raise":
                bad = "with enabled=False the decorator can raise %s" % tables.classify(p)
        if bad is None and not stored_enabled:
            bad = "the `enabled` argument is not stored as given (self.enabled)"
        run.check(bad is None, rule, fi.qual, "enabled=False: %s is neither called nor inspected nor wrapped" % subj, bad or "", fi.loc())


def defaults(run, model, rule="C15.defaults"):
    for dec in DECORATORS:
        fi = model.method("_decorators", dec, "__init__")
        a = fi.node.args
        names = [x.arg for x in a.posonlyargs + a.args]
        defaults_ = dict(zip(names[len(names) - len(a.defaults):], a.defaults))
        for x, d in zip(a.kwonlyargs, a.kw_defaults):
            if d is not None:
                defaults_[x.arg] = d
        d = defaults_.get("enabled")
        txt = src_of(d) if d is not None else "<none>"
        run.check(txt == "__debug__", rule, fi.qual, "default of `enabled` is __debug__", "default of `enabled` is `%s` (must be __debug__: contracts are off under -O and on otherwise)" % txt, fi.loc(), None, "enabled=%s" % txt)


class _Return(Exception):
    def __init__(self, value):
        self.value = value


def _exec_block(stmts, debug, var, scope, mod, depth=0):
    """Straight-line helper code of the SLOW computation: assignments to names, ``if`` / ``else``, ``return``."""
    for st in stmts:
        if isinstance(st, ast.Expr) and isinstance(st.value, ast.Constant):
            continue
        if isinstance(st, ast.Pass):
            continue
        if isinstance(st, (ast.Assign, ast.AnnAssign)) and getattr(st, "value", None) is not None:
            tgs = st.targets if isinstance(st, ast.Assign) else [st.target]
            if len(tgs) != 1 or not isinstance(tgs[0], ast.Name):
                raise AnalysisError("SLOW helper: unsupported assignment `%s`" % src_of(st))
            scope[tgs[0].id] = _eval_env(st.value, debug, var, scope, mod, depth)
        elif isinstance(st, ast.If):
            _exec_block(st.body if _eval_env(st.test, debug, var, scope, mod, depth) else st.orelse, debug, var, scope, mod, depth)
        elif isinstance(st, ast.Return):
            raise _Return(None if st.value is None else _eval_env(st.value, debug, var, scope, mod, depth))
        else:
            raise AnalysisError("SLOW helper: unsupported statement `%s`" % first_line(st))


def _eval_env(e, debug, var, scope=None, mod=None, depth=0):
    """Concrete evaluation of the SLOW expression for one abstract environment; raises AnalysisError if unknown.

    ``var`` is 'unset', 'empty' or ('value', <string>) for a particular non-empty value.  ``scope`` holds the locals
    of a helper function being evaluated, ``mod`` the module whose literal constants and simple helper functions
    (parameters, assignments, if / return -- nothing else) may be used.
    """
    def ev(x):  # the recursive calls carry the scope along
        return _eval_env(x, debug, var, scope, mod, depth)

    val = None if var == "unset" else ("" if var == "empty" else var[1])
    if isinstance(e, ast.Constant):
        return e.value
    if isinstance(e, (ast.Tuple, ast.List, ast.Set)) and all(isinstance(x, ast.Constant) for x in e.elts):
        return tuple(x.value for x in e.elts)
    if isinstance(e, ast.Name):
        if e.id == "__debug__":
            return debug
        if scope is not None and e.id in scope:
            return scope[e.id]
        if e.id in ("None", "True", "False"):
            return {"None": None, "True": True, "False": False}[e.id]
        if mod is not None and len(mod.assigns.get(e.id, [])) == 1 and e.id != "SLOW":
            return _eval_env(mod.assigns[e.id][0], debug, var, None, mod, depth + 1)
        raise AnalysisError("SLOW depends on the name %s" % e.id)
    if isinstance(e, ast.Call) and isinstance(e.func, ast.Name) and mod is not None and depth < 3:
        helpers = [f_ for f_ in mod.tree.body if isinstance(f_, ast.FunctionDef) and f_.name == e.func.id]
        if len(helpers) == 1 and not helpers[0].decorator_list:
            fn = helpers[0]
            a = fn.args
            if a.vararg or a.kwarg or a.kwonlyargs or a.posonlyargs or len(e.args) + len(e.keywords) > len(a.args):
                raise AnalysisError("SLOW helper %s: unsupported signature" % fn.name)
            names = [x.arg for x in a.args]
            local = dict(zip(names, [ev(x) for x in e.args]))
            for kw in e.keywords:
                local[kw.arg] = ev(kw.value)
            for nm, dflt in zip(names[len(names) - len(a.defaults):], a.defaults):
                local.setdefault(nm, _eval_env(dflt, debug, var, None, mod, depth + 1))
            if set(local) != set(names):
                raise AnalysisError("SLOW helper %s: arguments do not bind" % fn.name)
            try:
                _exec_block(fn.body, debug, var, local, mod, depth + 1)
            except _Return as r:
                return r.value
            return None
    if isinstance(e, ast.BoolOp):
        res = None
        for v in e.values:
            res = ev(v)
            if isinstance(e.op, ast.And) and not res:
                return res
            if isinstance(e.op, ast.Or) and res:
                return res
        return res
    if isinstance(e, ast.UnaryOp) and isinstance(e.op, ast.Not):
        return not ev(e.operand)
    if isinstance(e, ast.Compare) and len(e.ops) == 1:
        op = e.ops[0]
        if isinstance(op, (ast.In, ast.NotIn)) and isinstance(e.comparators[0], (ast.Tuple, ast.List, ast.Set)) and all(isinstance(x, ast.Constant) for x in e.comparators[0].elts):
            l = ev(e.left)
            r = l in [x.value for x in e.comparators[0].elts]
            return r if isinstance(op, ast.In) else not r
        if isinstance(op, (ast.In, ast.NotIn)) and src_of(e.comparators[0]) == "os.environ" and isinstance(e.left, ast.Constant):
            if e.left.value != "ICONTRACT_SLOW":
                raise AnalysisError("SLOW reads the environment variable %r" % e.left.value)
            r = val is not None
            return r if isinstance(op, ast.In) else not r
        l, r = ev(e.left), ev(e.comparators[0])
        if isinstance(op, (ast.In, ast.NotIn)) and isinstance(r, (tuple, str)):
            res_ = l in r
            return res_ if isinstance(op, ast.In) else not res_
        if isinstance(op, ast.Eq):
            return l == r
        if isinstance(op, ast.NotEq):
            return l != r
        if isinstance(op, ast.Is):
            return l is r
        if isinstance(op, ast.IsNot):
            return l is not r
        if isinstance(op, ast.Gt):
            return l > r
        if isinstance(op, ast.GtE):
            return l >= r
        raise AnalysisError("SLOW uses comparison %s" % src_of(e))
    if isinstance(e, ast.Call) and isinstance(e.func, ast.Attribute) and e.func.attr in ("strip", "lower", "upper", "lstrip", "rstrip", "casefold") and not e.args and not e.keywords:
        base = ev(e.func.value)
        if not isinstance(base, str):
            raise AnalysisError("SLOW applies .%s() to a non-string" % e.func.attr)
        return getattr(base, e.func.attr)()
    if isinstance(e, ast.Call):
        f = src_of(e.func)
        if f in ("os.environ.get", "os.getenv"):
            name = e.args[0]
            if ev(name) != "ICONTRACT_SLOW":
                raise AnalysisError("SLOW reads the environment variable %s" % src_of(name))
            default = ev(e.args[1]) if len(e.args) > 1 else None
            for kw in e.keywords:
                if kw.arg == "default":
                    default = ev(kw.value)
            return default if val is None else val
        if f == "bool" and len(e.args) == 1:
            return bool(ev(e.args[0]))
        if f == "len" and len(e.args) == 1:
            return len(ev(e.args[0]))
        raise AnalysisError("SLOW calls %s" % f)
    if isinstance(e, ast.Subscript) and src_of(e.value) == "os.environ":
        if val is None:
            raise AnalysisError("SLOW indexes os.environ directly (KeyError when unset)")
        return val
    if isinstance(e, ast.IfExp):
        return ev(e.body) if ev(e.test) else ev(e.orelse)
    raise AnalysisError("SLOW uses an unrecognised expression: %s" % src_of(e))


def slow(run, model, rule="C15.slow"):
    mod = model.modules["_globals"]
    vals = mod.assigns.get("SLOW", [])
    if len(vals) != 1:
        run.violation(rule, "_globals.SLOW", "expected one module-level definition of SLOW, found %d" % len(vals), "icontract/_globals.py")
        return
    e = vals[0]
    # representatives of "a non-empty string": the usual ones plus every string the expression itself mentions
    nonempty = ["1", "yes", "0", "false", "False", "no", "off", " ", "x"]
    for sub in ast.walk(e):
        if isinstance(sub, ast.Constant) and isinstance(sub.value, str) and sub.value not in ("", "ICONTRACT_SLOW"):
            for v in (sub.value, sub.value.upper(), " " + sub.value):
                if v not in nonempty:
                    nonempty.append(v)
    for debug in (True, False):
        for var in ["unset", "empty"] + [("value", v) for v in nonempty]:
            got = bool(_eval_env(e, debug, var, None, mod))
            want = debug and var not in ("unset", "empty")
            label = var if isinstance(var, str) else "= %r" % var[1]
            run.check(got == want, rule, "_globals.SLOW[__debug__=%s, ICONTRACT_SLOW %s]" % (debug, label), "SLOW is %s" % want, "SLOW is %s in this configuration, expected %s (any non-empty value switches the slow contracts on in a non-optimised interpreter, nothing else does)" % (got, want), "icontract/_globals.py:%d" % e.lineno, None, "SLOW = " + src_of(e))
    # re-exported unchanged
    init = model.modules["__init__"].assigns.get("SLOW", [])
    run.check(len(init) == 1 and src_of(init[0]) == "icontract._globals.SLOW", rule, "__init__.SLOW", "icontract.SLOW is the very value of _globals.SLOW", "icontract.SLOW is defined as %s" % [src_of(x) for x in init], "icontract/__init__.py")


def debug_only_there(run, model, rule="C15.debug-only-there"):
    allowed = 0
    for mod in model.modules.values():
        for node in ast.walk(mod.tree):
            if isinstance(node, ast.Name) and node.id == "__debug__":
                where = _context(mod, node)
                if where in ("enabled-default", "SLOW"):
                    allowed += 1
                    run.ok(rule, "%s:%s@%d" % (mod.name, where, allowed), "__debug__ used as %s" % where, "icontract/%s.py:%d" % (mod.name, node.lineno), nontrivial=False)
                else:
                    run.violation(rule, "%s:%s" % (mod.name, where), "__debug__ is consulted in %s: behaviour of enabled contracts would differ between normal and optimised mode" % where, "icontract/%s.py:%d" % (mod.name, node.lineno), None, where)
    run.extra["debug_references_allowed"] = allowed
    # -OO: no control flow on docstrings
    for mod in model.modules.values():
        for node in ast.walk(mod.tree):
            if isinstance(node, (ast.If, ast.While, ast.IfExp, ast.Assert)):
                t = node.test
                for sub in ast.walk(t):
                    if isinstance(sub, ast.Attribute) and sub.attr == "__doc__":
                        run.violation(rule, "%s:__doc__" % mod.name, "control flow depends on a docstring (absent under -OO)", "icontract/%s.py:%d" % (mod.name, node.lineno), None, first_line(t))
    run.ok(rule, "package:__doc__", "no branch of the package tests a docstring", nontrivial=True)


def _context(mod, name_node):
    for node in ast.walk(mod.tree):
        if isinstance(node, (ast.FunctionDef, ast.AsyncFunctionDef)):
            a = node.args
            names = [x.arg for x in a.posonlyargs + a.args]
            for nm, d in zip(names[len(names) - len(a.defaults):], a.defaults):
                if d is name_node and nm == "enabled":
                    return "enabled-default"
            for x, d in zip(a.kwonlyargs, a.kw_defaults):
                if d is name_node and x.arg == "enabled":
                    return "enabled-default"
        if isinstance(node, ast.Assign) and any(isinstance(t, ast.Name) and t.id == "SLOW" for t in node.targets):
            if any(sub is name_node for sub in ast.walk(node.value)):
                return "SLOW"
    # enclosing function
    best = None
    for node in ast.walk(mod.tree):
        if isinstance(node, (ast.FunctionDef, ast.AsyncFunctionDef)) and any(sub is name_node for sub in ast.walk(node)):
            best = node.name
    return "function %s" % best if best else "module level"


def assert_pure(run, model, rule="C15.assert-pure"):
    n = 0
    for mod in model.modules.values():
        for node in ast.walk(mod.tree):
            if isinstance(node, ast.Assert):
                n += 1
                bad = None
                if isinstance(node.test, ast.Constant) and not node.test.value:
                    bad = "`assert %s` is a raise in disguise: the rejection it stands for happens in a normal interpreter and vanishes under -O, so an enabled contract behaves differently in the two modes" % src_of(node.test)
                for sub in ast.walk(node.test):
                    if isinstance(sub, (ast.NamedExpr, ast.Await, ast.Yield, ast.YieldFrom)):
                        bad = "the assert test binds a name / suspends: %s" % first_line(sub)
                    if isinstance(sub, ast.Call):
                        f = sub.func
                        name = f.id if isinstance(f, ast.Name) else (f.attr if isinstance(f, ast.Attribute) else None)
                        full = src_of(f)
                        if not (name in PURE_CALLS or full.startswith("inspect.is") or full.startswith("isinstance")):
                            bad = "the assert test calls `%s`, which is not a known pure predicate: under -O the call (and its effect) disappears" % full
                if bad:
                    run.violation(rule, "%s:assert" % mod.name, bad, "icontract/%s.py:%d" % (mod.name, node.lineno), None, first_line(node.test))
    run.extra["asserts_checked"] = n
    run.ok(rule, "package", "%d assert tests are free of side effects (pure predicates, no walrus, no await)" % n)
    return n


def assert_after_search(run, model, rule="C15.assert-pure"):
    """``assert found is not None`` where every definition of ``found`` that reaches the assert is the constant
    None/False: the assert fails whenever it is reached -- a raise in disguise, like ``assert False`` (the typical
    case: the assert that follows a search loop ``found = None; for x in xs: if match(x): found = x; break`` moved
    *into* the loop, where it is reached only by the elements that did not match: valid input dies with AssertionError
    in a normal interpreter and passes under -O)."""
    from ..flow import get_flow

    n_seen = 0
    for qual, fi in sorted(model.functions.items()):
        if not any(isinstance(x, ast.Assert) for x in ast.walk(fi.node)):
            continue
        flow = get_flow(model, fi)
        for n in flow.cfg.nodes:
            if not (n.kind == "test" and isinstance(n.stmt, ast.Assert) and n.ast is n.stmt.test):
                continue
            t = n.ast
            name = None
            if isinstance(t, ast.Name):
                name = t.id
            elif isinstance(t, ast.Compare) and len(t.ops) == 1 and isinstance(t.ops[0], ast.IsNot) and isinstance(t.left, ast.Name) and isinstance(t.comparators[0], ast.Constant) and t.comparators[0].value is None:
                name = t.left.id
            if name is None:
                continue
            n_seen += 1
            defs = list(flow.defs_at(n, name))
            if defs and all(d.kind == "assign" and not d.path and isinstance(d.value, ast.Constant) and d.value.value in (None, False) for d in defs):
                d = defs[0]
                run.violation(rule, "%s:assert" % fi.qual, "`assert %s` is reached only with `%s = %s` (line %s): it fails whenever it is reached -- a raise in disguise: the input that gets here is rejected with AssertionError in a normal interpreter and accepted under -O" % (src_of(t), name, src_of(d.value), d.node.lineno), fi.loc(n), None, first_line(t))
    run.extra["asserts_on_names_checked"] = n_seen


def run(run, model):
    run.do(early_return, model)
    run.do(defaults, model)
    run.do(slow, model)
    run.do(debug_only_there, model)
    from . import c08, inv
    run.do(c08.define_tables, model, "C15.decoration-time-rejection")
    # rejections are raised, in both interpreter modes (the 8-row table of the invariant evaluation)
    run.do(inv.self_rule, model, "C15.rejection-raised")
    n = assert_pure(run, model)
    run.do(assert_after_search, model)
    if n < 40:
        raise AnalysisError("only %d assert statements found (60+ confirmed by hand)" % n)
    run.minimum("C15.early-return", 8, "4 decorators x (__init__, __call__)")
    run.minimum("C15.defaults", 4)
    run.minimum("C15.slow", 7)
    run.minimum("C15.debug-only-there", 6)
