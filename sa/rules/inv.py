"""Invariant rules (C03, shared with C10, C13, C14, C16): wrapper phases, member selection, constructor choice."""
import ast

from .. import tables
from ..events import Summaries, calls_in, fi_of_term, bind_call, call_arg_terms
from ..flow import get_flow, show, strip_sites, subterms
from ..guards import GuardGraph, normal_succ
from ..model import AnalysisError, first_line, src_of
from . import marker, loops


def _inv_loops(res):
    """INV events of a wrapper region with their enclosing loop: list of (event, loop head node, iter term)."""
    flow = res.wr.flow
    out = []
    heads = [n for n in flow.cfg.nodes if n.kind == "next"]
    for nid, evs in res.wr.events().items():
        for ev in evs:
            if ev["kind"] != "INV":
                continue
            n = ev["node"]
            host = None
            for h in heads:
                inside = set(id(sub) for st in h.stmt.body for sub in ast.walk(st))
                if id(n.stmt) in inside:
                    host = h
            it = None
            if host is not None:
                for k, p in host.pred:
                    if p.kind == "iter" and p.stmt is host.stmt:
                        it = flow.term(p.ast, p)
            out.append((ev, host, it))
    return sorted(out, key=lambda x: x[0]["line"])


def _instance_ok(res, t):
    """The instance is what the self-finder returns for the wrapper's own args/kwargs."""
    if t[0] == "call" and fi_of_term(res.wr.model, t[1]) is not None:
        argterms = [v for _, v in t[3]] + list(t[2])
        return ("param", res.wr.vararg) in argterms and ("param", res.wr.kwarg) in argterms
    return False


def phases(run, model, rule="C03.phases", roles=("inv[sync]", "inv[async]")):
    regs = marker.regions(model)
    summ = Summaries(model)
    for role in roles:
        res = regs[role]
        flow = res.wr.flow
        run.saw(flow)
        cfg = flow.cfg
        dom = cfg.dominators()
        gg = GuardGraph(flow)
        invs = _inv_loops(res)
        bodies = [(st, n) for k, st, n in res.event_states if k == "BODY" and st != "F"]
        body_nodes = sorted(set(n.id for _, n in bodies))
        if len(body_nodes) != 1:
            run.violation(rule, res.fi.qual, "expected one checked call of the method body, found %d" % len(body_nodes), res.fi.loc())
            continue
        body = [n for n in cfg.nodes if n.id == body_nodes[0]][0]
        before = [x for x in invs if x[0]["node"].id in dom[body.id] or body.id in cfg.reachable_from(x[0]["node"], lambda k, a, b: k not in ("exc", "unmatched")) and x[0]["node"].id not in gg.reach(normal_succ(body), None, None, False)]
        after = [x for x in invs if x[0]["node"].id in gg.reach(normal_succ(body), None, None, False)]
        bad = None
        if len(before) != 1 or len(after) != 1 or len(invs) != 2:
            bad = (body, "expected one loop evaluating the invariants before the body and one after it; found %d before, %d after" % (len(before), len(after)))
        else:
            (ev_b, head_b, it_b), (ev_a, head_a, it_a) = before[0], after[0]
            if head_b is None or head_a is None:
                bad = (ev_b["node"], "the invariants are not evaluated in a loop over the class's list")
            elif it_b != it_a:
                bad = (ev_a["node"], "the invariants checked after the body (%s) are not the list checked before it (%s)" % (show(strip_sites(it_a), 80), show(strip_sites(it_b), 80)))
            elif ev_b["list_term"] != it_b:
                bad = (ev_b["node"], "the contract handed to the invariant check is not the element of the list being iterated")
            else:
                # the list: on_setattr iff the wrapped function's name is "__setattr__", else on_call; read from instance.__class__ at call time
                L = it_b
                okL = False
                why = "the list of invariants is %s" % show(strip_sites(L), 160)
                if L[0] == "op" and L[1] == "ifexp":
                    cond, A, B = L[2]
                    name_test = cond[0] == "op" and cond[1] == "cmp:Eq" and cond[2][1] == ("const", "'__setattr__'") and cond[2][0][0] == "attr" and cond[2][0][2] == "__name__" and res.wr.is_func_param(cond[2][0][1])
                    def cls_list(t, dunder):
                        return t[0] == "attr" and t[2] == dunder and t[1][0] == "attr" and t[1][2] == "__class__" and _instance_ok(res, t[1][1])
                    okL = name_test and cls_list(A, "__invariants_on_setattr__") and cls_list(B, "__invariants_on_call__")
                    if name_test and not okL:
                        why = "the invariants are selected as `%s` for __setattr__ and `%s` otherwise; expected instance.__class__.__invariants_on_setattr__ / __invariants_on_call__" % (show(strip_sites(A), 70), show(strip_sites(B), 70))
                if not okL:
                    bad = (ev_b["node"], why + ": every public call must be checked against the invariants selected by their check-on setting (on_setattr for __setattr__, on_call otherwise), read from the instance's class at call time")
            if bad is None:
                # exactly one check per element, unconditional inside the loop
                for ev, head in ((ev_b, head_b), (ev_a, head_a)):
                    stm = [s for s in head.stmt.body if not (isinstance(s, ast.Expr) and isinstance(s.value, ast.Constant))]
                    if len(stm) != 1 or not isinstance(stm[0], ast.Expr) or stm[0].value is not ev["call"]:
                        bad = (ev["node"], "the loop over the invariants does more than checking each invariant once (guard, early exit or extra statement): %s" % first_line(head.stmt.body[0]))
                    if head.stmt.orelse:
                        bad = (ev["node"], "the loop over the invariants has an else clause")
                # the instance passed is the instance found
                for ev in (ev_b, ev_a):
                    b = bind_call(ev["callee"], ev["call"])
                    others = [flow.term(v, ev["node"]) for k, v in (b or {}).items() if k != ev["param"]]
                    if not others or not all(_instance_ok(res, t) for t in others):
                        bad = (ev["node"], "the invariant is not checked on the instance the method was called on")
            if bad is None:
                # a violation found before the call keeps the body from running: BODY unreachable from the exceptional edge
                n = ev_b["node"]
                for k, tgt in n.succ:
                    if k == "exc" and body.id in cfg.reachable_from(tgt):
                        bad = (n, "the body is still reachable after the invariant check before it raised")
                if head_b.id not in dom[body.id]:
                    bad = (n, "a path reaches the body without the invariants having been checked before it")
        if bad:
            run.violation(rule, res.fi.qual, bad[1], res.fi.loc(bad[0]), None, first_line(bad[0].stmt))
        else:
            run.ok(rule, res.fi.qual, "INV(L) < BODY < INV(L) with L = on_setattr iff func.__name__ == '__setattr__' else on_call, read from instance.__class__ per call; one check per element", res.fi.loc())


def ctor(run, model, rule="C03.ctor"):
    regs = marker.regions(model)
    for role in ("inv[init]", "inv[new]"):
        res = regs[role]
        flow = res.wr.flow
        run.saw(flow)
        cfg = flow.cfg
        gg = GuardGraph(flow)
        invs = _inv_loops(res)
        bodies = [ev for evs in res.wr.events().values() for ev in evs if ev["kind"] == "BODY"]
        states = {}
        for k, st, n in res.event_states:
            if k == "BODY":
                states.setdefault(n.id, set()).add(st)
        checked = [ev for ev in bodies if not (states.get(ev["node"].id, set()) <= {"F"} and states.get(ev["node"].id))]
        bad = None
        if len(checked) != 1:
            bad = (res.fi.node, "expected one checked call of the constructor, found %d" % len(checked))
        elif len(invs) != 1:
            bad = (checked[0]["node"], "expected exactly one loop evaluating the invariants (after the constructor), found %d" % len(invs))
        else:
            body = checked[0]["node"]
            ev, head, it = invs[0]
            after = gg.reach(normal_succ(body), None, None, False)
            if ev["node"].id not in after:
                bad = (ev["node"], "the invariants are evaluated before the constructor ran (on an object whose construction has not finished)")
            else:
                # full list instance.__class__.__invariants__
                inst_ok = False
                if it is not None and it[0] == "attr" and it[2] == "__invariants__" and it[1][0] == "attr" and it[1][2] == "__class__":
                    inst = it[1][1]
                    if role == "inv[init]":
                        inst_ok = _instance_ok(res, inst)
                    else:
                        bt = flow.term(checked[0]["call"], checked[0]["node"])
                        inst_ok = inst == bt
                if not inst_ok:
                    bad = (ev["node"], "after construction the loop iterates %s, not all invariants of the new instance's class (instance.__class__.__invariants__)" % (show(strip_sites(it), 100) if it else "nothing"))
                elif ev["list_term"] != it:
                    bad = (ev["node"], "the contract handed to the invariant check is not the element of the list being iterated")
                else:
                    stm = [s for s in head.stmt.body if not (isinstance(s, ast.Expr) and isinstance(s.value, ast.Constant))]
                    if len(stm) != 1 or not isinstance(stm[0], ast.Expr) or stm[0].value is not ev["call"]:
                        bad = (ev["node"], "the loop over the invariants does more than checking each invariant once")
                    # every normal path from the constructor body to the return passes the loop
                    dom = cfg.dominators()
                    for k, p in cfg.exit_return.pred:
                        pass
                    rets = [n for n in cfg.nodes if n.kind == "return" and n.id in after]
                    for r in rets:
                        if head.id not in dom[r.id]:
                            bad = (r, "the constructor can return without the invariants having been evaluated")
        if bad:
            node = bad[0]
            run.violation(rule, res.fi.qual, bad[1], res.fi.loc(node), None, first_line(node.stmt) if hasattr(node, "stmt") and node.stmt is not None else None)
        else:
            run.ok(rule, res.fi.qual, "no invariant before the constructor body; all of instance.__class__.__invariants__ right after it on every returning path", res.fi.loc())
    # the constructor wrapper holds the marker over the body and a nested activation does the bare call only
    res = regs["inv[init]"]
    hits = [f for f in res.findings if f[0] in ("C10.test-first", "C10.own-release", "C10.held-for-contracts")]
    if hits:
        for r, detail, node, state, witness in hits:
            run.violation(rule, res.fi.qual + ":nested", "nested constructor activation: " + detail, res.fi.loc(node), witness, first_line(node.stmt))
    else:
        fstates = [st for k, st, n in res.event_states if k == "BODY"]
        run.check("F" in fstates and "H" in fstates, rule, res.fi.qual + ":nested", "a constructor entered while the instance is already marked performs the bare call only; the outermost holds the marker over the body", "the constructor wrapper does not distinguish a nested activation (states of BODY: %s): invariants of a derived class would run when a base constructor returns" % sorted(set(fstates)), res.fi.loc())


def self_rule(run, model, rule="C03.self"):
    """_assert_invariant passes self=instance iff the condition names it; judges the result; raises the error."""
    regs = marker.regions(model)
    callee = None
    for role in ("inv[sync]", "inv[init]"):
        for evs in regs[role].wr.events().values():
            for ev in evs:
                if ev["kind"] == "INV":
                    callee = ev["callee"]
    if callee is None:
        run.violation(rule, "_checkers", "no function evaluating a single invariant found", "icontract/_checkers.py")
        return
    fi = callee
    flow = get_flow(model, fi)
    run.saw(flow)
    ps = tables.paths(flow)
    cp, ip = fi.params[0], fi.params[1]
    truth = dict((f.qual, p) for f, p in loops.find_truth_helper(model))
    errfact = loops.find_errfact(model)
    for names_self in (True, False):
        for coro in (False, True):
            for falsy in (False, True):
                def ev(t):
                    if t[0] == "op" and t[1] == "cmp:In" and t[2][0] == ("const", "'self'"):
                        return names_self
                    if t[0] == "call" and t[1] == ("attr", ("module", "inspect"), "iscoroutine"):
                        return coro
                    if t[0] == "call":
                        f = fi_of_term(model, t[1])
                        if f is not None and f.qual in truth:
                            return falsy
                    if t[0] == "op" and t[1] == "Not" and t[2][0][0] in ("call", "phi"):
                        return falsy
                    return None

                feas = [p for p in ps if tables.feasible(p, ev)]
                construct = "%s[condition %s self, result %s, %s]" % (fi.qual, "names" if names_self else "does not name", "a coroutine" if coro else "a plain value", "falsy" if falsy else "truthy")
                bad = None
                if len(feas) != 1:
                    bad = "%d feasible paths (expected one): the outcome depends on something else" % len(feas)
                else:
                    p = feas[0]
                    conds = [t for t, n in p.calls if t[1] == ("attr", ("param", cp), "condition")]
                    if len(conds) != 1:
                        bad = "the condition is called %d times" % len(conds)
                    else:
                        c = conds[0]
                        want_kw = (("self", ("param", ip)),) if names_self else ()
                        if c[2] or tuple(c[3]) != want_kw:
                            bad = "the condition is called with %s, expected %s" % (show(strip_sites(c), 80), "self=<instance>" if names_self else "no arguments")
                    lab = tables.classify(p)
                    if bad is None:
                        if coro:
                            if lab != "raise ValueError":
                                bad = "a coroutine returned by an invariant condition must be rejected with ValueError (it would be taken as truthy); outcome: %s" % lab
                        elif falsy:
                            rt = p.outcome[1] if p.outcome and p.outcome[0] == "raise" else None
                            okr = rt is not None and rt[0] == "call" and fi_of_term(model, rt[1]) is errfact and dict(rt[3]).get(errfact.params[0]) == ("param", cp)
                            if not okr:
                                bad = "a falsy invariant must raise the error created for this contract; outcome: %s" % lab
                        else:
                            if lab != "return":
                                bad = "a truthy invariant must pass; outcome: %s" % lab
                run.check(bad is None, rule, construct, "as specified", bad or "", fi.loc(), None, construct.split("[", 1)[1])


# ---------------------------------------------------------------------- member selection (table A.1)
NAME_CLASSES = {
    "public": "run",
    "_protected": "_helper",
    "__private": "__hidden",
    "__dunder__": "__eq__",
    "__init__": "__init__",
    "__new__": "__new__",
    "__repr__": "__repr__",
    "__getattribute__": "__getattribute__",
    "__setattr__": "__setattr__",
}
VALUE_KINDS = ("function", "slot_wrapper", "property", "static_function", "bound_classmethod", "other")


def selection(run, model, rule="C03.selection", rule_src="C03.selection-source"):
    fi = model.func("_checkers.add_invariant_checks")
    flow = get_flow(model, fi)
    run.saw(flow)
    cfg = flow.cfg
    cls_p = ("param", fi.params[0])
    # the loop over dir(cls)
    heads = []
    for n in cfg.nodes:
        if n.kind == "next":
            for k, p in n.pred:
                if p.kind == "iter" and p.stmt is n.stmt:
                    it = flow.term(p.ast, p)
                    if it[0] == "call" and it[1] == ("builtin", "dir") and it[2] == (cls_p,):
                        heads.append(n)
    if len(heads) != 1:
        run.violation(rule, fi.qual, "no loop over dir(cls) selects the members to be wrapped", fi.loc())
        return
    head = heads[0]
    NAME = ("elem", ("call", ("builtin", "dir"), (cls_p,), ()))
    start = [t for k, t in head.succ if k == "T"][0]
    ps = tables.paths(flow, start, {head.id}, havoc_loops=True)
    # which local lists collect methods / properties: by their consumer loops
    consumers = {}
    for n in cfg.nodes:
        if n.kind == "next" and n is not head:
            for k, p in n.pred:
                if p.kind == "iter" and p.stmt is n.stmt:
                    it = flow.term(p.ast, p)
                    uses_property = any(isinstance(s, ast.Call) and isinstance(s.func, ast.Name) and s.func.id == "property" for st in n.stmt.body for s in ast.walk(st))
                    consumers[it] = "property" if uses_property else "method"

    def name_of(t):
        return t == NAME or strip_sites(t) == strip_sites(NAME)

    def value_of(t):
        t = strip_sites(t)
        return t[0] == "call" and t[1] == ("builtin", "getattr") and False or (t[0] == "attr" and False) or t == strip_sites(("call", ("builtin", "getattr"), (cls_p, NAME), ())) or (t[0] == "call" and t[1] == ("builtin", "getattr") and len(t[2]) >= 2 and t[2][0] == cls_p and name_of(t[2][1]))

    source_findings = []

    def make_eval(name_cls, vkind, hc, hs):
        name = NAME_CLASSES[name_cls]

        def ev(t):
            ts = strip_sites(t)
            if ts[0] == "op" and ts[1].startswith("cmp:") and len(ts[2]) == 2:
                op = ts[1][4:]
                l, r = ts[2]
                if name_of(l) and r[0] == "const":
                    lit = ast.literal_eval(r[1])
                    if lit not in NAME_CLASSES.values():
                        return None  # a name the table does not distinguish: free atom
                    return (name == lit) if op == "Eq" else ((name != lit) if op == "NotEq" else None)
                if name_of(l) and r[0] == "display" and op in ("In", "NotIn") and all(x[0] == "const" for x in r[2]):
                    lits = [ast.literal_eval(x[1]) for x in r[2]]
                    if any(l_ not in NAME_CLASSES.values() for l_ in lits) and name not in lits:
                        return None  # the tuple names members the table does not distinguish
                    return (name in lits) if op == "In" else (name not in lits)
                # getattr(value, "__self__", None) is cls
                if op in ("Is", "IsNot") and r == cls_p and l[0] == "call" and l[1] == ("builtin", "getattr") and len(l[2]) == 3 and value_of(l[2][0]) and l[2][1] == ("const", "'__self__'"):
                    v = vkind == "bound_classmethod"
                    return v if op == "Is" else (not v)
                # check-on atoms with a single-invariant source
                if op in ("In", "NotIn") and l[0] in ("attr", "global") and r[0] == "attr" and r[2] == "check_on":
                    which = l[2] if l[0] == "attr" else l[2]
                    if which in ("CALL", "SETATTR"):
                        src = r[1]
                        if src[0] == "idx" and src[1] == ("attr", cls_p, "__invariants__"):
                            source_findings.append((t, "the check-on setting is read from `%s` only" % show(src)))
                        v = hc if which == "CALL" else hs
                        return v if op == "In" else (not v)
            if ts[0] == "call":
                c, args = ts[1], ts[2]
                if c[0] == "attr" and name_of(c[1]) and c[2] in ("startswith", "endswith") and len(args) == 1 and args[0][0] == "const":
                    lit = ast.literal_eval(args[0][1])
                    if lit not in ("_", "__"):
                        return None  # a prefix/suffix the table does not distinguish: free atom
                    return name.startswith(lit) if c[2] == "startswith" else name.endswith(lit)
                if c == ("attr", ("module", "inspect"), "isfunction") and len(args) == 1 and value_of(args[0]):
                    return vkind in ("function", "static_function")
                if c == ("builtin", "isinstance") and len(args) == 2:
                    if value_of(args[0]):
                        if args[1] == ("builtin", "property"):
                            return vkind == "property"
                        if args[1] == ("attr", ("module", "types"), "FunctionType"):
                            return vkind in ("function", "static_function")  # what inspect.isfunction tests
                        if args[1][0] == "global" and "SLOT_WRAPPER" in args[1][2]:
                            return vkind == "slot_wrapper"
                        if args[1] == ("builtin", "staticmethod"):
                            return False
                        return None
                    # isinstance(inspect.getattr_static(cls, name, None), staticmethod)
                    a0 = args[0]
                    if a0[0] == "call" and a0[1] == ("attr", ("module", "inspect"), "getattr_static") and args[1] == ("builtin", "staticmethod"):
                        return vkind == "static_function"
                # any(<check-on generator over all invariants>)
                if c == ("builtin", "any") and len(args) == 1 and args[0][0] == "comp":
                    return None
            if ts[0] in ("call",) and False:
                return None
            return None

        return ev

    # resolve the check_on_call / check_on_setattr locals: terms of names assigned from any(...) over all invariants
    flag_terms = {}
    for lst in flow.node_defs.values():
        for d in lst:
            if d.kind == "assign" and isinstance(d.value, ast.Call) and src_of(d.value.func) == "any" and d.value.args and isinstance(d.value.args[0], ast.GeneratorExp):
                g = d.value.args[0]
                it = flow.term(g.generators[0].iter, d.node)
                elt = src_of(g.elt)
                which = "CALL" if ".CALL" in elt else ("SETATTR" if ".SETATTR" in elt else None)
                tgt = g.generators[0].target
                well_formed = which and isinstance(tgt, ast.Name) and elt.replace(" ", "") in ("InvariantCheckEvent.%sin%s.check_on" % (which, tgt.id), "icontract._types.InvariantCheckEvent.%sin%s.check_on" % (which, tgt.id)) and not g.generators[0].ifs and len(g.generators) == 1
                if well_formed:
                    flag_terms[flow.term(d.value, d.node)] = (which, it, d)

    def with_flags(base_ev, hc, hs):
        def ev(t):
            if t in flag_terms:
                return hc if flag_terms[t][0] == "CALL" else hs
            if t[0] == "op" and t[1] == "Not" and t[2][0] in flag_terms:
                v = hc if flag_terms[t[2][0]][0] == "CALL" else hs
                return not v
            return base_ev(t)
        return ev

    # locals that live beyond the loop (bound outside its body too): only those can remember the constructor
    body_ids = set(id(sub) for st in head.stmt.body for sub in ast.walk(st))
    outer_locals = set()
    for sub in ast.walk(fi.node):
        if isinstance(sub, ast.Name) and isinstance(sub.ctx, ast.Store) and id(sub) not in body_ids:
            outer_locals.add(sub.id)
    n_rows = 0
    mismatches = []
    for name_cls in NAME_CLASSES:
        for vkind in VALUE_KINDS:
            for hc in (True, False):
                for hs in (True, False):
                    if not hc and not hs:
                        continue
                    if name_cls == "__init__" and vkind not in ("function", "slot_wrapper"):
                        continue  # asserted by the library: __init__ is a function or a slot wrapper
                    ev = with_flags(make_eval(name_cls, vkind, hc, hs), hc, hs)
                    feas = [p for p in ps if tables.feasible(p, ev)]
                    outs = set()
                    for p in feas:
                        out = "skip"
                        if p.outcome is not None and p.outcome[0] == "raise":
                            out = tables.classify(p)
                        for ct, n in p.calls:
                            if ct[1][0] == "attr" and ct[1][2] == "append":
                                recv = ct[1][1]
                                out = consumers.get(recv, "collected-unknown")
                        for nn in p.nodes:
                            # ``<some local> = value`` : the constructor candidate is remembered
                            if nn.kind == "stmt" and isinstance(nn.ast, ast.Assign) and len(nn.ast.targets) == 1 and isinstance(nn.ast.targets[0], ast.Name) and isinstance(nn.ast.value, ast.Name) and nn.ast.targets[0].id in outer_locals:
                                vt = strip_sites(p.env.get(nn.ast.targets[0].id, ("x",)))
                                if vt[0] == "call" and vt[1] == ("builtin", "getattr") and len(vt[2]) >= 2 and vt[2][0] == cls_p and name_of(vt[2][1]):
                                    out = "init"
                        outs.add(out)
                    want = expected_selection(name_cls, vkind, hc, hs)
                    n_rows += 1
                    if sorted(outs) != [want]:
                        mismatches.append((name_cls, vkind, hc, hs, sorted(outs), want))
    run.extra["selection_rows"] = n_rows
    if mismatches:
        # group by (name class, value kind)
        seen = set()
        for name_cls, vkind, hc, hs, outs, want in mismatches:
            key = (name_cls, vkind, tuple(outs), want)
            if key in seen:
                continue
            seen.add(key)
            run.violation(rule, "%s[name %s, value %s]" % (fi.qual, name_cls, vkind), "a member named like `%s` whose value is a %s (class checks on CALL: %s, on SETATTR: %s) must be `%s`, but the selection yields %s" % (NAME_CLASSES[name_cls], vkind, hc, hs, want, outs), fi.loc(head), None, "%s/%s" % (name_cls, vkind))
    else:
        run.ok(rule, fi.qual, "member selection agrees with table A.1 on all %d rows (9 name classes x 6 value kinds x 3 check-on combinations)" % n_rows, fi.loc(head))
    # ---- selection source: the check-on information must cover all invariants of the class
    ok_src = True
    for ts, (which, it, d) in flag_terms.items():
        if it != ("attr", cls_p, "__invariants__"):
            ok_src = False
            run.violation(rule_src, fi.qual + ":" + which, "the check-on setting for %s is gathered from %s, not from all invariants of the class" % (which, show(strip_sites(it))), fi.loc(d.node), None, first_line(d.node.stmt))
    for t, why in source_findings[:1]:
        ok_src = False
        run.violation(rule_src, fi.qual, why + ": the metaclass installs several inherited invariants at once, so the last one does not decide which members need wrapping", fi.loc(head), None, show(strip_sites(t), 100))
    if ok_src:
        if set(w for w, _, _ in flag_terms.values()) == {"CALL", "SETATTR"}:
            run.ok(rule_src, fi.qual, "check-on flags are `any(... for inv in cls.__invariants__)` over all invariants of the class", fi.loc())
        else:
            raise AnalysisError("%s: the source of the check-on information was not recognised" % fi.qual)


def expected_selection(name_cls, vkind, hc, hs):
    """Table A.1 of DESIGN.md."""
    if name_cls in ("__new__", "__repr__", "__getattribute__"):
        return "skip"
    if name_cls == "__init__":
        return "init"
    if name_cls == "__setattr__":
        if not hs:
            return "skip"
    else:
        if not hc:
            return "skip"
    if vkind in ("bound_classmethod", "other"):
        return "skip"
    if name_cls in ("_protected", "__private"):
        return "skip"
    if vkind == "static_function":
        return "skip"
    if vkind in ("function", "slot_wrapper"):
        return "method"
    if vkind == "property":
        return "property"
    return "skip"


def install(run, model, rule="C03.install", rule_guard="C03.new-guard", rule_doc=None):
    """After the selection: constructor choice (A.2), methods and properties are wrapped and set on the class."""
    fi = model.func("_checkers.add_invariant_checks")
    flow = get_flow(model, fi)
    cfg = flow.cfg
    cls_p = ("param", fi.params[0])
    deco = model.func("_checkers._decorate_with_invariants")
    deco_new = model.func("_checkers._decorate_new_with_invariants")
    # ---- which wrapper: the constructor form (checks after the call only) for the constructor and nothing else
    n_kind = 0
    for n in cfg.nodes:
        for call, cond, aw in calls_in(n):
            if fi_of_term(model, flow.term(call.func, n)) is not deco:
                continue
            b = bind_call(deco, call)
            if not b or len(deco.params) < 2 or deco.params[1] not in b:
                raise AnalysisError("%s: a call of %s whose `%s` argument cannot be read: %s" % (fi.qual, deco.name, deco.params[1] if len(deco.params) > 1 else "?", src_of(call, 60)))
            flag = strip_sites(flow.term(b[deco.params[1]], n))
            what = strip_sites(flow.term(b[deco.params[0]], n))
            in_loop = any(isinstance(lp, (ast.For, ast.While, ast.ListComp, ast.SetComp, ast.DictComp, ast.GeneratorExp)) and any(x is call for x in ast.walk(lp)) for lp in ast.walk(fi.node))
            is_ctor = not in_loop
            if is_ctor and not any(s_ == ("const", "'__init__'") for s_ in subterms(what)) and "init" not in src_of(b[deco.params[0]]).lower():
                raise AnalysisError("%s: `%s` outside the loops over the members wraps something that cannot be read as the constructor (%s)" % (fi.qual, src_of(call, 60), show(what, 60)))
            n_kind += 1
            want = ("const", "True") if is_ctor else ("const", "False")
            run.check(flag == want, rule, "%s:%s" % (fi.qual, src_of(call, 70)), "the constructor gets the constructor form of the wrapper (checks after the call), methods and property accessors the method form (checks before and after)", "`%s` is wrapped with %s=%s: %s" % (src_of(b[deco.params[0]], 30), deco.params[1], show(flag, 20), "a method or property accessor wrapped in the constructor form is not checked before the call, and the marker of an object under construction is used for it" if not is_ctor else "the constructor wrapped in the method form has the invariants evaluated before __init__ has established them"), fi.loc(n), None, first_line(n.stmt))
    if n_kind < 2:
        raise AnalysisError("%s: expected calls of %s for the constructor and for the members, found %d" % (fi.qual, deco.name, n_kind))
    # ---- constructor choice
    guard = None
    for n in cfg.nodes:
        if n.kind == "test":
            t = flow.term(n.ast, n)
            txt = src_of(n.ast)
            if "object.__init__" in txt:
                guard = (n, t, txt)
    if guard is None:
        run.violation(rule_guard, fi.qual, "the choice between wrapping __init__ and wrapping __new__ was not found", fi.loc())
    else:
        n, t, txt = guard
        conj = t[2] if (t[0] == "op" and t[1] == "And") else (t,)
        others = [c for c in conj if "__init__" not in show(c)]
        ok = False
        why = "the second condition of the __new__ branch is missing: __new__ would be replaced for every class without its own __init__"
        if len(others) == 1:
            o = strip_sites(others[0])
            s = show(o)
            new_attr = ("attr", cls_p, "__new__")
            obj_new = ("attr", ("builtin", "object"), "__new__")
            if o[0] == "op" and o[1] in ("cmp:IsNot", "cmp:NotEq") and set(o[2]) == {new_attr, obj_new}:
                ok = True
            elif o[0] == "call" and o[1] == ("builtin", "hasattr") and o[2][0] == cls_p:
                why = "`%s` is always true (every class has a __new__): object.__new__ gets wrapped, which breaks subclasses that add an __init__ with arguments" % txt
            elif "__dict__" in s:
                # a class that inherits a custom __new__ then gets its object.__init__ wrapped instead: harmless exactly
                # when the constructor wrapper does not pass the arguments on to object.__init__ in that situation
                # (``C14.object-init-args``): the invariants are then checked after the (argument-tolerant) __init__
                from . import gates as _gates

                res_i = marker.regions(model)["inv[init]"]
                bodies_i = [ev for evs in res_i.wr.events().values() for ev in evs if ev["kind"] == "BODY"]
                if bodies_i and all(_gates._object_init_exception(model, res_i, ev) for ev in bodies_i):
                    ok = True
                else:
                    why = "`%s` looks at the class's own namespace only: a class that inherits a custom __new__ (e.g. a subclass of a named tuple) gets its object.__init__ wrapped instead, and can no longer be constructed with arguments" % txt
            else:
                raise AnalysisError("%s: unrecognised guard of the __new__ branch: %s" % (fi.qual, txt))
        if ok:
            inits = [strip_sites(c) for c in conj if "__init__" in show(c)]
            obj_init = ("attr", ("builtin", "object"), "__init__")
            if not (len(inits) == 1 and inits[0][0] == "op" and inits[0][1] in ("cmp:Eq", "cmp:Is") and obj_init in inits[0][2]):
                ok = False
                why = "the first condition of the __new__ branch is not `<the class's __init__> == object.__init__` (%s): __new__ is wrapped for classes that have an __init__ of their own -- the invariants are then evaluated on the result of __new__, before __init__ has established them" % ", ".join(show(c, 60) for c in inits)
        run.check(ok, rule_guard, fi.qual, "__new__ is wrapped iff __init__ is object.__init__ and the class has a __new__ other than object.__new__ (inherited ones included)", why, fi.loc(n), None, txt)
        # what the two arms do
        arms = {}
        for k, tgt in n.succ:
            if k in ("T", "F"):
                seen = cfg.reachable_from(tgt, lambda kk, a, b: kk not in ("exc", "unmatched"))
                arms[k] = seen
        calls = {"T": [], "F": []}
        for nn in cfg.nodes:
            for call, cond, aw in calls_in(nn):
                cf = fi_of_term(model, flow.term(call.func, nn))
                for k in ("T", "F"):
                    if nn.id in arms.get(k, ()) and nn.id not in arms.get("F" if k == "T" else "T", ()):
                        if cf is not None:
                            calls[k].append((cf, nn, call))
        t_ok = any(cf is deco_new for cf, _, _ in calls["T"])
        f_ok = False
        for cf, nn, call in calls["F"]:
            if cf is deco:
                b = bind_call(cf, call)
                if b and "is_init" in b and src_of(b["is_init"]) == "True":
                    f_ok = True
        run.check(t_ok and f_ok, rule, fi.qual + ":constructor", "__new__ arm wraps with the __new__ wrapper; otherwise __init__ is wrapped with is_init=True", "the constructor is not wrapped as specified (new-arm ok: %s, init-arm ok: %s)" % (t_ok, f_ok), fi.loc(n))
    # ---- methods and properties loops
    def _binds(stmts):
        """name -> value expression, for the plain assignments of a statement list"""
        out = {}
        for st_ in stmts:
            if isinstance(st_, ast.Assign) and len(st_.targets) == 1 and isinstance(st_.targets[0], ast.Name):
                out[st_.targets[0].id] = st_.value
            elif isinstance(st_, ast.AnnAssign) and isinstance(st_.target, ast.Name) and st_.value is not None:
                out[st_.target.id] = st_.value
            elif _is_choice(st_):
                # ``if M: W = wrap(M) else: W = None`` -- the statement form of ``W = wrap(M) if M else None``
                out[st_.body[0].targets[0].id] = ast.IfExp(test=st_.test, body=st_.body[0].value, orelse=st_.orelse[0].value)
        return out

    def _is_choice(st_):
        return (
            isinstance(st_, ast.If)
            and len(st_.body) == 1
            and len(st_.orelse) == 1
            and all(isinstance(x, ast.Assign) and len(x.targets) == 1 and isinstance(x.targets[0], ast.Name) for x in (st_.body[0], st_.orelse[0]))
            and st_.body[0].targets[0].id == st_.orelse[0].targets[0].id
        )

    def _wrapped_of(expr, binds):
        """source text of the member that ``expr`` is the wrapped form of: ``_decorate_with_invariants(func=M, ...)`` or
        ``_decorate_with_invariants(func=M, ...) if M else None`` (also through a local bound to it), else None"""
        if isinstance(expr, ast.Name) and expr.id in binds:
            expr = binds[expr.id]
        if isinstance(expr, ast.IfExp) and src_of(expr.orelse) == "None":
            inner = _wrapped_of(expr.body, {})
            return inner if inner is not None and src_of(expr.test) == inner else None
        if isinstance(expr, ast.Call) and src_of(expr.func).endswith("_decorate_with_invariants"):
            for x in [kw.value for kw in expr.keywords if kw.arg == "func"] + list(expr.args[:1]):
                return src_of(x)
        return None

    def _changed_guard(test, binds):
        """``W is not M`` (or a disjunction of such) where W is the wrapped form of M: true iff wrapping happened"""
        parts = test.values if isinstance(test, ast.BoolOp) and isinstance(test.op, ast.Or) else [test]
        for c in parts:
            if not (isinstance(c, ast.Compare) and len(c.ops) == 1 and isinstance(c.ops[0], ast.IsNot)):
                return False
            l, r = c.left, c.comparators[0]
            if not ((_wrapped_of(l, binds) is not None and _wrapped_of(l, binds) == src_of(r)) or (_wrapped_of(r, binds) is not None and _wrapped_of(r, binds) == src_of(l))):
                return False
        return bool(parts)

    rule_only = rule.split(".")[0] + ".install-only-wrapped"
    sites = []  # (construct, statement list holding the wrapping, node for the location)
    for n in cfg.nodes:
        if n.kind != "next":
            continue
        st = n.stmt
        if "dir(" in src_of(st.iter):
            continue
        uses_property = any(isinstance(s_, ast.Call) and isinstance(s_.func, ast.Name) and s_.func.id == "property" for b_ in st.body for s_ in ast.walk(b_))
        kind = "properties" if uses_property else "methods"
        binds = _binds(st.body)
        bad = None
        guards = []
        for b_ in st.body:
            for sub in ast.walk(b_):
                if isinstance(sub, ast.If) and _changed_guard(sub.test, binds) and not sub.orelse:
                    guards.append(sub)
                elif _is_choice(sub) and _wrapped_of(ast.IfExp(test=sub.test, body=sub.body[0].value, orelse=sub.orelse[0].value), {}) is not None:
                    pass
                elif isinstance(sub, (ast.Continue, ast.Break, ast.Return, ast.If)):
                    bad = "the loop installing the wrapped %s skips or stops on a condition (`%s`): some selected members stay unwrapped" % (kind, first_line(sub))
        sets = [s_ for b_ in st.body for s_ in ast.walk(b_) if isinstance(s_, ast.Call) and src_of(s_.func) == "setattr"]
        if not sets:
            bad = bad or "the wrapped %s are never set on the class" % kind
        if uses_property and bad is None:
            pcalls = [s_ for b_ in st.body for s_ in ast.walk(b_) if isinstance(s_, ast.Call) and isinstance(s_.func, ast.Name) and s_.func.id == "property"]
            for pc in pcalls:
                kws = {kw.arg: kw.value for kw in pc.keywords}
                for acc in ("fget", "fset", "fdel"):
                    v = kws.get(acc)
                    w = _wrapped_of(v, binds) if v is not None else None
                    if not (w is not None and w.endswith("." + acc)):
                        bad = "the property accessor `%s` is not wrapped when present (%s)" % (acc, src_of(v) if v is not None else "missing")
        if uses_property and rule_doc is not None:
            # the replacement property keeps the documentation of the one it replaces (``property(..., doc=prop.__doc__)``:
            # without it the text is taken from the getter, or lost)
            pcalls_d = [s_ for b_ in st.body for s_ in ast.walk(b_) if isinstance(s_, ast.Call) and isinstance(s_.func, ast.Name) and s_.func.id == "property"]
            for pc in pcalls_d:
                docs = [kw.value for kw in pc.keywords if kw.arg == "doc"] + list(pc.args[3:4])
                okd = bool(docs) and isinstance(docs[0], ast.Attribute) and docs[0].attr == "__doc__"
                if not okd and docs and isinstance(docs[0], ast.Name):
                    okd = any(isinstance(x, ast.Assign) and any(isinstance(t_, ast.Name) and t_.id == docs[0].id for t_ in x.targets) and isinstance(x.value, ast.Attribute) and x.value.attr == "__doc__" for b_ in st.body for x in ast.walk(b_))
                run.check(okd, rule_doc, "%s:property-doc" % fi.qual, "the re-created property carries the documentation of the property it replaces", "the property that replaces the user's is built without `doc=<property>.__doc__`: its documentation is taken from the getter or lost (`property(fget, doc=...)`, `help()` and documentation tools see a different text on a class with invariants)", fi.loc(n), None, first_line(pc))
        if uses_property and bad is None:
            # the "something was wrapped" test in front of the store looks at every accessor handed to property(...): an
            # accessor left out is not installed when it alone is new (``@Base.value.setter`` in a subclass)
            for g_ in guards:
                if not any(any(x is s_ for x in ast.walk(g_)) for s_ in sets):
                    continue
                parts = g_.test.values if isinstance(g_.test, ast.BoolOp) else [g_.test]
                looked = set()
                for c in parts:
                    for side in (c.left, c.comparators[0]):
                        w = _wrapped_of(side, binds)
                        if w is not None:
                            looked.add(w)
                handed = set()
                for pc in pcalls:
                    for kw in pc.keywords:
                        if kw.arg in ("fget", "fset", "fdel"):
                            w = _wrapped_of(kw.value, binds)
                            if w is not None:
                                handed.add(w)
                if handed - looked:
                    bad = "the new property is set on the class only if %s changed by wrapping, but %s is wrapped as well: a class that brings only that accessor (`@Base.value.setter` / `.deleter` in a subclass) keeps it unwrapped" % (", ".join("`%s`" % x for x in sorted(looked)), ", ".join("`%s`" % x for x in sorted(handed - looked)))
        run.check(bad is None, rule, "%s:%s" % (fi.qual, kind), "every selected member is wrapped and set on the class; no skip inside the loop other than for members returned unchanged", bad or "", fi.loc(n), None, first_line(st))
        # a member that came back unchanged from the wrapping (it was decorated with a base class and is inherited as it
        # is) is not set on the class: copying it into the class's own namespace pins today's resolution of the name and
        # shadows, in a diamond, the override of a class later in the MRO
        guarded = bool(sets) and all(any(any(x is s_ for x in ast.walk(g_)) for g_ in guards) for s_ in sets)
        run.check(guarded, rule_only, "%s:%s" % (fi.qual, kind), "members are set on the class only where wrapping produced a new object", "every selected member is set on the class, also an inherited one that is already decorated and came back unchanged: it is copied into the namespace of the subclass, where it shadows the override of a class later in the method resolution order (`class D(B, C)`: `D().f` is `A.f` copied into `B`, not `C.f`)", fi.loc(n), None, first_line(st))
    # the constructor arm likewise
    for n in cfg.nodes:
        for call, cond, aw in calls_in(n):
            if src_of(call.func) == "setattr" and len(call.args) == 3 and _wrapped_of(call.args[2], _binds([x for x in ast.walk(fi.node) if isinstance(x, (ast.Assign, ast.AnnAssign))])) is not None and not any(isinstance(lp, (ast.For, ast.While)) and any(x is call for x in ast.walk(lp)) for lp in ast.walk(fi.node)):
                binds = _binds([x for x in ast.walk(fi.node) if isinstance(x, (ast.Assign, ast.AnnAssign))])
                ifs = [i_ for i_ in ast.walk(fi.node) if isinstance(i_, ast.If) and not i_.orelse and _changed_guard(i_.test, binds) and any(x is call for x in ast.walk(i_))]
                run.check(bool(ifs), rule_only, "%s:constructor" % fi.qual, "the constructor is set on the class only where wrapping produced a new object", "an inherited, already decorated constructor is copied into the namespace of the subclass", fi.loc(n), None, first_line(n.stmt))


def meta_reapply(run, model, rule="C03.meta-reapply", rule_order="C16.meta-order"):
    """DBCMeta.__new__: namespace decoration < super().__new__ < add_invariant_checks (iff __invariants__)."""
    for fi in model.methods("_metaclass", "DBCMeta", live_only=(run.tier != "thorough")):
        if fi.name != "__new__":
            continue
        flow = get_flow(model, fi)
        run.saw(flow)
        cfg = flow.cfg
        dom = cfg.dominators()
        deco_ns = model.func("_metaclass._dbc_decorate_namespace")
        add = model.func("_checkers.add_invariant_checks")
        n_ns = n_super = n_add = None
        for n in cfg.nodes:
            for call, cond, aw in calls_in(n):
                cf = fi_of_term(model, flow.term(call.func, n))
                if cf is deco_ns:
                    n_ns = n
                if cf is add:
                    n_add = (n, call)
                if src_of(call.func) == "super().__new__":
                    n_super = (n, call)
        bad = None
        if n_ns is None or n_super is None or n_add is None:
            bad = "phases missing in the metaclass constructor (namespace pass: %s, class creation: %s, invariant wrapping: %s)" % (n_ns is not None, n_super is not None, n_add is not None)
        else:
            cls_t = flow.term(n_super[1], n_super[0])
            if not (n_ns.id in dom[n_super[0].id] and n_super[0].id in dom[n_add[0].id]):
                bad = "the order namespace decoration < class creation < invariant wrapping does not hold on every path"
            elif cls_t not in [t for _, t in call_arg_terms(flow, n_add[0], n_add[1])]:
                bad = "add_invariant_checks is not applied to the class just created"
            else:
                # guard: exactly hasattr(cls, "__invariants__")
                gg = GuardGraph(flow)
                atom = None
                for (nid, k), (kn, atoms) in gg.edge_facts.items():
                    for a, pol in kn:
                        if a[0] == "call" and a[1] == ("builtin", "hasattr") and a[2] == (cls_t, ("const", "'__invariants__'")) and pol:
                            atom = a
                if atom is None or not gg.necessary(normal_succ(n_super[0]), [n_add[0].id], (atom, True)):
                    bad = "the invariant wrapping is not guarded by `hasattr(cls, \"__invariants__\")`"
                elif not gg.sufficient(normal_succ(n_super[0]), [n_add[0].id], [cfg.exit_return.id], [(atom, True)]):
                    bad = "a class with __invariants__ can be returned without its members having been wrapped"
        run.check(bad is None, rule, fi.qual, "namespace pass < super().__new__ < add_invariant_checks(cls) whenever cls has __invariants__", bad or "", fi.loc())
        if rule_order:
            run.check(bad is None, rule_order, fi.qual, "the invariant wrapper is applied after the checker (outermost)", bad or "", fi.loc())


def marker_agreement(run, model, rule="C03.wrapped-once"):
    """A wrapper adding the invariant checks is recognised as one: the attribute each wrapping function sets on the
    wrapper it returns is the attribute ``_already_decorated_with_invariants`` looks for.  With two spellings the
    wrapper is wrapped again by every later ``invariant`` / subclass, and the invariants run once per layer."""
    reader = model.func("_checkers._already_decorated_with_invariants")
    rflow = get_flow(model, reader)
    run.saw(rflow)
    read = set()
    for n in rflow.cfg.nodes:
        for call, c, a in calls_in(n):
            if isinstance(call.func, ast.Name) and call.func.id in ("getattr", "hasattr") and len(call.args) >= 2:
                t = strip_sites(rflow.term(call.args[1], n))
                if t[0] == "const":
                    read.add(t[1])
        if n.ast is not None:
            for sub in ast.walk(n.ast):
                if isinstance(sub, ast.Attribute) and isinstance(sub.ctx, ast.Load) and sub.attr.startswith("__is_"):
                    read.add(repr(sub.attr))
    if not read:
        raise AnalysisError("%s: no attribute look-up by a constant name found (how is a wrapper recognised?)" % reader.qual)
    # ... and finding the mark makes the answer "yes": some returned value is True (or is computed from the look-up)
    answers = []
    for n in rflow.cfg.nodes:
        if n.kind == "return" and n.ast is not None:
            t = strip_sites(rflow.term(n.ast, n))
            answers.extend(t[1] if t[0] == "phi" else (t,))
    yes = [a for a in answers if a[0] != "const" or a[1] not in ("False", "None", "0")]
    run.check(bool(yes), rule, reader.qual, "answers True when a function of the decorator stack carries the mark", "every returned value is a constant \"no\" (%s): a wrapper is never recognised and is wrapped again by every later decoration of the class or of a subclass -- the invariants then run once per layer" % ", ".join(show(a, 40) for a in answers[:4]), reader.loc())
    for qual in ("_checkers._decorate_with_invariants", "_checkers._decorate_new_with_invariants"):
        fi = model.func(qual)
        flow = get_flow(model, fi)
        run.saw(flow)
        written = {}
        for n in flow.cfg.nodes:
            for call, c, a in calls_in(n):
                if isinstance(call.func, ast.Name) and call.func.id == "setattr" and len(call.args) == 3:
                    t = strip_sites(flow.term(call.args[1], n))
                    v = strip_sites(flow.term(call.args[2], n))
                    if t[0] == "const" and v == ("const", "True"):
                        written[t[1]] = n
            if n.kind == "stmt" and isinstance(n.ast, ast.Assign) and isinstance(n.ast.value, ast.Constant) and n.ast.value.value is True:
                for tg in n.ast.targets:
                    if isinstance(tg, ast.Attribute):
                        written[repr(tg.attr)] = n
        common = set(written) & read
        where = list(written.values())[0] if written else None
        run.check(bool(common), rule, fi.qual, "marks its wrapper with %s, which %s looks for" % (", ".join(sorted(common)), reader.name), "the wrapper is marked with %s, but %s looks for %s: the wrapper is not recognised and is wrapped again by every later decoration of the class or of a subclass -- the invariants then run once per layer" % (", ".join(sorted(written)) or "nothing", reader.name, ", ".join(sorted(read))), fi.loc(where) if where is not None else fi.loc(), None, first_line(where.stmt) if where is not None else None)


def find_self(run, model, rule="C03.find-self"):
    """_find_self: the receiver is the positional argument at the position of ``self`` whenever there is one -- whatever
    the keywords hold (``def render(self, /, **context)`` called as ``other.render(self=this)`` runs on ``other``) --
    and the keyword ``self`` only when the positional arguments do not reach that far."""
    from .. import tables

    fi = model.func("_checkers._find_self")
    flow = get_flow(model, fi)
    run.saw(flow)
    names = fi.params
    if len(names) < 3:
        raise AnalysisError("%s: expected (param_names, args, kwargs), found %s" % (fi.qual, names))
    args_p, kwargs_p = ("param", names[1]), ("param", names[2])
    ps = tables.paths(flow)
    n_pos = n_kw = 0
    bad = None
    for p in ps:
        if p.outcome is None or p.outcome[0] != "return":
            continue
        out = strip_sites(p.outcome[1])
        mentions = lambda par: any(any(s_ == par for s_ in subterms(strip_sites(t))) for t, v, n in p.decisions)
        if out[0] == "idx" and out[1] == args_p:
            n_pos += 1
            if any(s_ == kwargs_p for s_ in subterms(out[2])) or mentions(kwargs_p):
                bad = bad or (p.outcome[2], "the positional receiver is returned only under a condition on the keywords (`%s`): a keyword named `self` (it can only have landed in `**kwargs` of a method whose receiver is positional-only) takes the place of the object the method was called on, and the marker test and the invariants run on another object" % first_line(p.decisions[-1][2].stmt if p.decisions else p.outcome[2].stmt))
        elif out[0] == "idx" and out[1] == kwargs_p and out[2] == ("const", "'self'"):
            n_kw += 1
            if not mentions(args_p) and not mentions(("param", names[0])):
                bad = bad or (p.outcome[2], "the keyword `self` is returned on a path where the positional arguments have not been found too short: the object the method was called on is ignored")
        else:
            bad = bad or (p.outcome[2], "returns %s, expected args[<position of self>] or kwargs['self']" % show(out, 60))
    if bad is None and (n_pos < 1 or n_kw < 1):
        bad = (flow.cfg.entry, "expected a path returning the positional receiver and one returning the keyword receiver, found %d and %d" % (n_pos, n_kw))
    run.check(bad is None, rule, fi.qual, "positional receiver first, whatever the keywords hold; keyword receiver only when the positional arguments are too short", bad[1] if bad else "", fi.loc(bad[0]) if bad else fi.loc(), None, first_line(bad[0].stmt) if bad and getattr(bad[0], "stmt", None) is not None else None)
