"""C07 -- a violation always surfaces as the contract's error with the true condition text (DESIGN.md 5/C07)."""
from . import rec, msg, effects, c09, gates, loops

META = {
    "explanation": "laziness tables of the re-evaluator's and/or, comparison-chain and conditional-expression handlers (control dependence of every later operand visit on the value of the earlier one); exhaustiveness of the supported forms; decision table of the message assembly; provenance of the condition text; structure of the decorator-delimiting regular expressions; error discipline of the message-generation handler",
    "trusted_base": ["asttokens text extraction", "inspect.findsource"],
    "not_decided": ["independence from the source layout of the decorator beyond the two delimiting patterns (text scanning over arbitrary files)", "absence of exceptions from user __repr__/__bool__ during message building", "operands after a PLACEHOLDER operand (names bound to None) are still visited eagerly"],
    "assumptions": [],
}


def run(run, model):
    run.do(rec.lazy_boolop, model, "C07.lazy", "C07.bool-value")
    run.do(rec.chain_and_lazy_compare, model, "C07.chain", "C07.lazy")
    run.do(rec.lazy_ifexp, model, "C07.lazy")
    run.do(rec.formatted_value, model, "C07.fstring-format")
    # building the message of one contract leaves the mapping of the call as it is (later groups / postconditions use it)
    run.do(msg.hide_placeholders, model, "C07.mapping-untouched")
    run.do(rec.supported_forms, model)
    run.do(rec.dispatch_closed, model)
    run.do(rec.truth_protocol, model)
    run.do(rec.none_is_a_value, model)
    run.do(rec.unknown_stops, model)
    run.do(rec.speculative_visit, model)
    run.do(rec.simple_nodes, model, "C07.node-semantics")
    run.do(rec.placeholder_identity, model, "C07.placeholder-identity")
    run.do(msg.no_nondeterminism, model, "C07.no-history")
    run.do(rec.comprehension_env, model, "C07.comprehension-env")
    run.do(c09.dispatch_table, model, "C07.default-error")
    run.do(msg.text_and_assembly, model)
    run.do(msg.decorator_regex, model)
    run.do(msg.scan_bounds, model)
    run.do(msg.bare_at_prefix, model)
    run.do(rec.lookup, model, "C07.lookup")
    # the error found is the error raised: the wrappers test the returned error for presence and raise it
    run.do(gates.c01_gate, model, "C07.error-raised")
    run.do(gates.c02_gate, model, "C07.error-raised")
    run.do(effects.handlers_rule, model, "C07.no-swallow")
    from . import fwd
    run.do(fwd.forwarding, model, "C07.forwarded", ("condition", "description", "location", "error"))
    run.do(rec.lambda_location, model)
    run.do(rec.all_trace, model, "C07.all-trace")
    run.do(rec.trace_only_unhappy, model)
    # the message (or the user's error factory) is built from the arguments of the call the contract was evaluated with
    for role, ck in gates.checkers(model).items():
        for kind, depth in (("PRE", 2), ("POST", 1)):
            h = loops.helper_of(model, ck, kind)
            if h is not None:
                run.do(loops.verdict_rule, model, "C07.error-of-failed", h[0], h[1], h[2], depth)
    run.minimum("C07.lazy", 14)
    run.minimum("C07.supported-forms", 22)
    run.minimum("C07.assembly", 24)
    run.minimum("C07.text", 3)
    run.minimum("C07.layout-regex", 2)
    run.minimum("C07.no-swallow", 3)
    run.minimum("C07.all-trace", 2)
    run.minimum("C07.dispatch-closed", 2)
    run.minimum("C07.truth-protocol", 1)
    run.minimum("C07.none-is-a-value", 1)
    run.minimum("C07.unknown-stops", 2)
    run.minimum("C07.speculative-visit", 4)
