"""Rules over message assembly in ``_represent`` (C06.args-listed, C07.text/assembly, C20.*)."""
import ast

from .. import tables
from ..events import Summaries, calls_in, fi_of_term, module_level_mutables
from ..flow import get_flow, show, strip_sites, subterms
from ..guards import GuardGraph, normal_succ
from ..model import AnalysisError, first_line, src_of
from . import effects


def _loops(flow):
    out = []
    for h in flow.cfg.nodes:
        if h.kind == "next":
            for k, p in h.pred:
                if p.kind == "iter" and p.stmt is h.stmt:
                    out.append((h, flow.term(p.ast, p)))
    return out


def sorted_rule(run, model, rule="C20.sorted"):
    """Every loop of repr_values whose order reaches the output iterates a sorted(...) value."""
    from ..decomp import loops_view

    fi = loops_view(model, model.func("_represent.repr_values"))
    flow = get_flow(model, fi)
    run.saw(flow)
    n = 0
    for h, it in _loops(flow):
        its = strip_sites(it)
        # loops over a tuple of inputs of one failing element keep the generator's order (deterministic)
        ordered = its[0] == "call" and its[1] == ("builtin", "sorted")
        fixed = (its[0] == "attr" and its[2] == "inputs") or (its[0] == "display" and its[1] in ("tuple", "list") and all(x[0] == "const" for x in its[2]))  # a literal sequence has one order
        n += 1
        run.check(ordered or fixed, rule, "%s:loop@%d" % (fi.qual, n), "iterates %s" % show(its, 60), "the loop iterates %s: the order of the value lines would depend on the order of keyword arguments / hash seed" % show(its, 80), fi.loc(h), None, first_line(h.stmt))
    # the sorted keys are those of the mapping that is then indexed
    return n


def _a_repr_sites(run, model, rule, fi, apname, name_params):
    """Judge every formatting site of ``fi`` (``apname``: its parameter holding the a_repr; ``name_params``: its
    parameters that hold keys / names, i.e. text the library produced itself); returns the number of sites."""
    flow = get_flow(model, fi)
    run.saw(flow)
    ap = ("param", apname)
    box = [0]
    # ``for name, value in <failing element>.inputs`` (loop or comprehension): the first of each pair is a name
    pair_names = set()
    for sub in ast.walk(fi.node):
        gens = [(g_.target, g_.iter) for g_ in sub.generators] if isinstance(sub, (ast.ListComp, ast.GeneratorExp, ast.SetComp, ast.DictComp)) else ([(sub.target, sub.iter)] if isinstance(sub, ast.For) else [])
        for tg, it in gens:
            if isinstance(tg, ast.Tuple) and len(tg.elts) == 2 and isinstance(tg.elts[0], ast.Name) and isinstance(it, ast.Attribute) and it.attr == "inputs":
                pair_names.add(tg.elts[0].id)

    def is_name(ts):
        """a key of the shown values / the name of a loop variable: text the library produced itself"""
        if ts[0] == "elem" and ts[1][0] == "call" and ts[1][1] == ("builtin", "sorted"):
            return True
        if ts[0] == "idx" and ts[1][0] == "elem" and ts[2] == ("const", "0"):
            return True
        if ts[0] == "param" and ts[1] in name_params:
            return True
        return False

    def judge(n, exprs_convs, what):
        """exprs_convs: [(value expression, has a !r/!s/!a conversion)]"""
        bad = None
        for arg, conv in exprs_convs:
            ts = strip_sites(flow.term(arg, n))
            is_repr = ts[0] == "call" and ts[1] == ("attr", ap, "repr")
            if isinstance(arg, ast.Name) and arg.id in pair_names and ts[0] in ("unk", "idx"):
                continue
            if conv and not is_name(ts):
                bad = "a conversion (!r / !s / !a) renders the value `%s` with the plain repr/str: the contract's a_repr (and its size limits) is bypassed" % src_of(arg)
            elif not is_repr and not is_name(ts):
                bad = "the value `%s` is interpolated without the contract's a_repr (size limits, deterministic rendering of sets and dicts)" % src_of(arg)
        run.check(bad is None, rule, "%s:format@%d" % (fi.qual, box[0]), "`%s` interpolates names and a_repr.repr(value) only" % what, bad or "", fi.loc(n), None, first_line(n.stmt))

    for n in flow.cfg.nodes:
        for call, c, a in calls_in(n):
            f = call.func
            if isinstance(f, ast.Attribute) and f.attr == "format" and isinstance(f.value, ast.Constant) and isinstance(f.value.value, str):
                fmt = f.value.value
                box[0] += 1
                import string

                fields = [(fld, conv) for _, fld, _, conv in string.Formatter().parse(fmt) if fld is not None]
                pairs = []
                auto = 0
                for fld, conv in fields:
                    key = fld.split(".")[0].split("[")[0]
                    if key == "":
                        idx = auto
                        auto += 1
                        arg = call.args[idx] if idx < len(call.args) else None
                    elif key.isdigit():
                        arg = call.args[int(key)] if int(key) < len(call.args) else None
                    else:
                        arg = ([kw.value for kw in call.keywords if kw.arg == key] or [None])[0]
                    if arg is not None:
                        pairs.append((arg, bool(conv)))
                judge(n, pairs, fmt)
        # f-strings: the same judgement per interpolated value; %-formatting is not used for values
        if n.ast is not None and n.kind in ("stmt", "return"):
            for sub in ast.walk(n.ast):
                if isinstance(sub, ast.JoinedStr):
                    pairs = [(v.value, v.conversion != -1) for v in sub.values if isinstance(v, ast.FormattedValue)]
                    if pairs:
                        box[0] += 1
                        judge(n, pairs, src_of(sub, 60))
                if isinstance(sub, ast.BinOp) and isinstance(sub.op, ast.Mod) and isinstance(sub.left, ast.Constant) and isinstance(sub.left.value, str):
                    run.violation(rule, "%s:percent" % fi.qual, "a value is rendered with %%-formatting instead of a_repr.repr", fi.loc(n), None, first_line(n.stmt))
        for call, c, a in calls_in(n):
            if isinstance(call.func, ast.Name) and call.func.id in ("repr", "str") :
                run.violation(rule, "%s:%s" % (fi.qual, call.func.id), "a value is rendered with the built-in %s() instead of a_repr.repr" % call.func.id, fi.loc(n), None, first_line(n.stmt))
    return box[0]


def reeval_once(run, model, rule="C16.reeval-once"):
    """Building the message re-evaluates the violated condition once: on every path through ``generate_message`` the
    values are computed (``repr_values``, directly or through a helper) exactly once -- a second rendering, say with
    another ``a_repr`` when the first came out too long, calls the functions named in the condition a third time."""
    mod = model.modules["_represent"]
    tops = [fi for fi in mod.funcs if fi.parent is None and fi.cls is None and fi.live]
    rv = model.func("_represent.repr_values")
    gm = model.func("_represent.generate_message")
    R = {rv.name}
    changed = True
    while changed:
        changed = False
        for fi in tops:
            if fi.name in R or fi is gm:
                continue
            if any(isinstance(c, ast.Call) and isinstance(c.func, ast.Name) and c.func.id in R for c in ast.walk(fi.node)):
                R.add(fi.name)
                changed = True
    flow = get_flow(model, gm)
    run.saw(flow)
    ps = tables.paths(flow)
    bad = None
    n_ret = 0
    for p in ps:
        if p.outcome is None or p.outcome[0] != "return":
            continue
        n_ret += 1
        k = 0
        where = None
        for ct, n in p.calls:
            g = fi_of_term(model, ct[1])
            if g is not None and g.module.name == "_represent" and g.name in R:
                k += 1
                where = n
        if k != 1 and bad is None:
            bad = (where, "a path through generate_message computes the values %d times (%s): each computation re-evaluates the condition -- the functions it calls run once more than documented" % (k, ", ".join(sorted(R))))
    # no loop may repeat the computation either
    for n in flow.cfg.nodes:
        if n.kind == "next":
            for sub in ast.walk(n.stmt):
                if isinstance(sub, ast.Call) and isinstance(sub.func, ast.Name) and sub.func.id in R and bad is None:
                    bad = (n, "the values are computed inside a loop of generate_message")
    run.check(bad is None and n_ret > 0, rule, gm.qual, "the values are computed exactly once on each of the %d returning path(s)" % n_ret, bad[1] if bad else "no returning path found", gm.loc(bad[0]) if bad and bad[0] is not None else gm.loc())


def eager_render(run, model, rule="C06.rendered-at-violation"):
    """The values are turned into text while the violation is being reported, not when somebody reads the message:
    no lambda / nested function of the message machinery calls ``<a_repr>.repr`` (or a helper that does) -- a deferred
    rendering shows the objects as they are *later* (after a rollback, a clean-up, further mutation), not what the
    condition saw."""
    mod = model.modules["_represent"]
    tops = [fi for fi in mod.funcs if fi.parent is None and fi.cls is None and fi.live]
    by_name = dict((fi.name, fi) for fi in tops)

    def direct(node):
        return any(isinstance(c, ast.Call) and isinstance(c.func, ast.Attribute) and c.func.attr in ("repr", "repr1") and not (isinstance(c.func.value, ast.Name) and c.func.value.id in ("reprlib",)) for c in ast.walk(node))

    renders = set(fi.name for fi in tops if direct(fi.node))
    changed = True
    while changed:
        changed = False
        for fi in tops:
            if fi.name in renders:
                continue
            if any(isinstance(c, ast.Call) and isinstance(c.func, ast.Name) and c.func.id in renders for c in ast.walk(fi.node)):
                renders.add(fi.name)
                changed = True
    if not renders:
        raise AnalysisError("_represent: no function renders values through <a_repr>.repr")
    bad = None
    n = 0
    for m in (mod, model.modules["_checkers"]):
        for fi in m.funcs:
            if not fi.live:
                continue
            for sub in ast.walk(fi.node):
                if sub is fi.node or not isinstance(sub, (ast.Lambda, ast.FunctionDef, ast.AsyncFunctionDef)):
                    continue
                if any(ch.node is sub for ch in fi.children) and m is not mod:
                    continue  # the wrapper closures of the checkers are analysed as functions of their own
                n += 1
                calls_render = direct(sub) or any(isinstance(c, ast.Call) and ((isinstance(c.func, ast.Name) and c.func.id in renders) or (isinstance(c.func, ast.Attribute) and c.func.attr in renders and m is not mod)) for c in ast.walk(sub))
                if calls_render and bad is None:
                    bad = (fi, sub)
    run.check(bad is None, rule, "_represent", "%d rendering function(s) (%s); none of the %d lambdas / nested functions renders values" % (len(renders), ", ".join(sorted(renders)), n), ("a %s inside %s renders values when it is called, i.e. after the violation has been reported: the text shows the state of the objects at that later time" % ("lambda" if isinstance(bad[1], ast.Lambda) else "nested function `%s`" % bad[1].name, bad[0].qual)) if bad else "", bad[0].loc(bad[1]) if bad else "icontract/_represent.py:1", None, first_line(bad[1]) if bad else None)


def default_repr(run, model, rule="C20.default-repr"):
    """The default representation object is an instance of the standard library's ``reprlib.Repr`` itself -- the
    trusted base whose rendering of sets and dictionaries is sorted --, and no class of the package re-defines how
    containers are rendered (a ``repr_dict`` that follows the insertion order makes the message depend on the order
    in which the caller wrote the keyword arguments)."""
    mod = model.modules["_globals"]
    vals = mod.assigns.get("aRepr", [])
    calls = [v for v in vals if isinstance(v, ast.Call)]
    bad = None
    if len(vals) != 1 or len(calls) != 1:
        bad = "`aRepr` is not bound once to a constructor call at module level"
    elif src_of(calls[0].func) not in ("reprlib.Repr", "Repr") or calls[0].args:
        bad = "the default representation object is `%s`, not an instance of reprlib.Repr itself" % src_of(calls[0], 60)
    over = []
    for m in model.modules.values():
        for node in ast.walk(m.tree):
            if isinstance(node, ast.ClassDef) and any(src_of(b) in ("reprlib.Repr", "Repr") for b in node.bases):
                for sub in node.body:
                    if isinstance(sub, (ast.FunctionDef, ast.AsyncFunctionDef)) and (sub.name.startswith("repr") or sub.name == "_repr_iterable"):
                        over.append((m.name, node.name, sub))
            if isinstance(node, ast.Assign):
                for tg in node.targets:
                    if isinstance(tg, ast.Attribute) and tg.attr.startswith("repr") and (tg.attr[4:5] in ("_", "1") or tg.attr == "repr") and src_of(tg.value) in ("aRepr", "reprlib.Repr", "Repr", "reprlib.aRepr"):
                        over.append((m.name, src_of(tg.value), node))
    if over and bad is None:
        mname, cname, sub = over[0]
        bad = "`%s.%s` re-defines `%s` of reprlib.Repr: how containers are ordered and cut in the message is no longer the standard library's (sorted) rendering" % (mname, cname, getattr(sub, "name", first_line(sub)))
    loc = "icontract/_globals.py:%d" % (calls[0].lineno if calls else 1)
    if over and over[0][2] is not None:
        loc = "icontract/%s.py:%d" % (over[0][0], over[0][2].lineno)
    run.check(bad is None, rule, "_globals.aRepr", "aRepr = reprlib.Repr(); no rendering method of reprlib.Repr is re-defined in the package", bad or "", loc, None, src_of(calls[0], 60) if calls else None)


def a_repr_rule(run, model, rule="C20.a-repr"):
    """Every user value interpolated into a part goes through <a_repr>.repr, a_repr being the contract's own."""
    root = model.func("_represent.repr_values")
    # repr_values and the module's helpers that receive its a_repr (also when called from inside a comprehension)
    work, done = [(root, "a_repr", frozenset())], []
    n_sites = 0
    while work:
        fi, apname, name_params = work.pop(0)
        if any(x is fi for x in done):
            continue
        done.append(fi)
        # comprehension / loop variables over sorted(...): keys
        key_vars = set()
        for sub in ast.walk(fi.node):
            gens = sub.generators if isinstance(sub, (ast.ListComp, ast.GeneratorExp, ast.SetComp, ast.DictComp)) else []
            for g_ in gens:
                if isinstance(g_.target, ast.Name) and isinstance(g_.iter, ast.Call) and isinstance(g_.iter.func, ast.Name) and g_.iter.func.id == "sorted":
                    key_vars.add(g_.target.id)
            if isinstance(sub, ast.For) and isinstance(sub.target, ast.Name) and isinstance(sub.iter, ast.Call) and isinstance(sub.iter.func, ast.Name) and sub.iter.func.id == "sorted":
                key_vars.add(sub.target.id)
        for call in ast.walk(fi.node):
            if isinstance(call, ast.Call) and isinstance(call.func, ast.Name):
                g = [x for x in model.modules["_represent"].funcs if x.parent is None and x.cls is None and x.name == call.func.id and x.live]
                if not g:
                    continue
                gp = [a_.arg for a_ in g[0].node.args.posonlyargs + g[0].node.args.args]
                bound = dict((gp[i_], arg) for i_, arg in enumerate(call.args) if i_ < len(gp))
                bound.update((kw.arg, kw.value) for kw in call.keywords if kw.arg is not None)
                aps = [p_ for p_, e_ in bound.items() if isinstance(e_, ast.Name) and e_.id == apname]
                if aps:
                    names = frozenset(p_ for p_, e_ in bound.items() if isinstance(e_, ast.Name) and (e_.id in key_vars or e_.id in name_params))
                    work.append((g[0], aps[0], names))
        n_sites += _a_repr_sites(run, model, rule, fi, apname, name_params)
    fi = root
    # a_repr comes from the violated contract
    gm = model.func("_represent.generate_message")
    fl2 = get_flow(model, gm)
    run.saw(fl2)
    ok = False
    for n in fl2.cfg.nodes:
        for call, c, a in calls_in(n):
            if fi_of_term(model, fl2.term(call.func, n)) is fi:
                t = fl2.term(call, n)
                ok = dict(t[3]).get("a_repr") == ("attr", ("param", "contract"), "_a_repr")
    run.check(ok, rule, gm.qual, "values are rendered with the violated contract's own a_repr", "the a_repr used for the values is not the one configured on the violated contract", gm.loc())
    # Contract stores the a_repr it was given; decorators pass theirs
    ci = model.method("_types", "Contract", "__init__")
    fl3 = get_flow(model, ci)
    ok = any(n.kind == "stmt" and isinstance(n.ast, ast.Assign) and src_of(n.ast) == "self._a_repr = a_repr" for n in fl3.cfg.nodes)
    run.check(ok, rule, ci.qual, "the contract keeps the a_repr it was given", "Contract does not keep the a_repr argument", ci.loc())
    for dec in ("require", "ensure", "invariant"):
        di = model.method("_decorators", dec, "__init__")
        src = src_of(di.node)
        run.check("a_repr=a_repr" in src, rule, di.qual, "passes its a_repr argument on to the contract", "the decorator's a_repr argument does not reach the contract", di.loc())
    if n_sites < 2:
        run.violation(rule, fi.qual, "only %d formatting site(s) of values found (expected the `was` line and the all()-trace line)" % n_sites, fi.loc())


def filter_rule(run, model, rule="C20.filter"):
    """_representable is false exactly for class, function, method, module, builtin; it guards the entries."""
    fi = model.func("_represent._representable")
    flow = get_flow(model, fi)
    run.saw(flow)
    rt = Summaries(model).return_term(fi)
    vp = ("param", fi.params[0])
    kinds = {"class": "isclass", "function": "isfunction", "method": "ismethod", "module": "ismodule", "builtin": "isbuiltin", "plain value": None}
    preds = set()
    for s_ in subterms(rt):
        if s_[0] == "call" and s_[1][0] == "attr" and s_[1][1] == ("module", "inspect"):
            preds.add(s_[1][2])
    for kind, pred in kinds.items():
        def ev(t, pred=pred):
            ts = strip_sites(t)
            if ts[0] == "call" and ts[1][0] == "attr" and ts[1][1] == ("module", "inspect") and ts[2] == (vp,):
                name = ts[1][2]
                if name in kinds.values():
                    return name == pred
                return None  # an inspect predicate the table does not know: free
            # ``isinstance(value, <type>)`` for the types the inspect predicates test
            if ts[0] == "call" and ts[1] == ("builtin", "isinstance") and len(ts[2]) == 2 and ts[2][0] == vp:
                same_as = {("builtin", "type"): "isclass", ("attr", ("module", "types"), "FunctionType"): "isfunction", ("attr", ("module", "types"), "LambdaType"): "isfunction", ("attr", ("module", "types"), "MethodType"): "ismethod", ("attr", ("module", "types"), "ModuleType"): "ismodule", ("attr", ("module", "types"), "BuiltinFunctionType"): "isbuiltin", ("attr", ("module", "types"), "BuiltinMethodType"): "isbuiltin"}.get(ts[2][1])
                if same_as is not None:
                    return same_as == pred
            return None
        got = tables.evaluate(strip_sites(rt), ev)
        want = pred is None
        run.check(got is want, rule, "%s[%s]" % (fi.qual, kind), "representable: %s" % want, "a %s is %s (expected: %s); the filter is %s" % (kind, {True: "shown", False: "left out", None: "shown or not depending on something else"}[got], "shown" if want else "left out", show(strip_sites(rt), 120)), fi.loc(), None, kind)
    # the argument entries are guarded by it, and only by (already shown, representable)
    rv = model.func("_represent.repr_values")
    fl = get_flow(model, rv)
    return rv, fl


def args_listed(run, model, rule="C06.args-listed"):
    """The loop adding the call's arguments walks the whole selected mapping; an entry is skipped only if already shown or not representable."""
    fi = model.func("_represent.repr_values")
    flow = get_flow(model, fi)
    run.saw(flow)
    rep = model.func("_represent._representable")
    target = None
    for h, it in _loops(flow):
        its = strip_sites(it)
        if its[0] == "call" and its[1] == ("builtin", "sorted") and its[2]:
            # sorted(mapping.keys()) or sorted(mapping), the mapping derived from the call's arguments
            base = its[2][0]
            if base[0] == "call" and base[1][0] == "attr" and base[1][2] == "keys" and not base[2]:
                base = base[1][1]
            if any(sub == ("param", "resolved_kwargs") for sub in subterms(base)):
                target = (h, it, base)
    if target is None:
        run.violation(rule, fi.qual, "no loop adds the call's arguments (sorted keys of the selected mapping) to the shown values", fi.loc())
        return
    h, it, base = target
    start = [t for k, t in h.succ if k == "T"][0]
    ps = tables.paths(flow, start, {h.id}, stop_at_loops=True)
    KEY = ("elem", it)
    for shown in (False, True):
        for representable in (True, False):
            def ev(t, shown=shown, representable=representable):
                ts = strip_sites(t)
                if ts[0] == "op" and ts[1] in ("cmp:NotIn", "cmp:In") and ts[2][0] == strip_sites(KEY):
                    v = shown
                    return v if ts[1] == "cmp:In" else (not v)
                if ts[0] == "call" and fi_of_term(model, ts[1]) is rep:
                    return representable
                return None
            feas = [p for p in ps if tables.feasible(p, ev)]
            added = set(bool(p.stores) for p in feas)
            want = (not shown) and representable
            construct = "%s[argument %s, %s]" % (fi.qual, "already shown" if shown else "not yet shown", "representable" if representable else "not representable")
            bad = None
            if added != {want}:
                bad = "the argument is %s (possible: %s); expected %s" % ("added" if True in added else "skipped", sorted(added), "added" if want else "skipped")
            else:
                for p in feas:
                    for tt, vt, n in p.stores:
                        if strip_sites(tt[2]) != strip_sites(KEY) or strip_sites(vt) not in (("idx", strip_sites(base), strip_sites(KEY)),):
                            bad = "the entry stored is %s = %s, not the argument under its own name" % (show(strip_sites(tt), 50), show(strip_sites(vt), 50))
            run.check(bad is None, rule, construct, "added: %s" % want, bad or "", fi.loc(h), None, construct.split("[", 1)[1])
    # no break in the loop
    inside = set(id(sub) for st in h.stmt.body for sub in ast.walk(st))
    brk = [n for n in flow.cfg.nodes if n.kind in ("break", "return") and id(n.stmt) in inside]
    run.check(not brk, rule, fi.qual + ":whole-mapping", "the loop walks the whole mapping", "the loop over the arguments can stop early", fi.loc(h))


def hide_placeholders(run, model, rule="C20.filter"):
    """_ARGS/_KWARGS are removed from the shown arguments unless the condition names them."""
    fi = model.func("_represent.repr_values")
    flow = get_flow(model, fi)
    src = src_of(fi.node)
    pops = []
    for n in flow.cfg.nodes:
        for call, c, a in calls_in(n):
            t = strip_sites(flow.term(call, n))
            if t[0] == "call" and t[1][0] == "attr" and t[1][2] == "pop" and t[2] and t[2][0][0] == "const":
                pops.append((n, ast.literal_eval(t[2][0][1]), t[1][1], None))
            elif t[0] == "call" and t[1][0] == "attr" and t[1][2] == "pop" and t[2] and t[2][0][0] == "elem" and t[2][0][1][0] == "display" and all(x[0] == "const" for x in t[2][0][1][2]):
                # ``for name in ('_ARGS', '_KWARGS'): ... pop(name)``: one pop per element of the literal
                for x in t[2][0][1][2]:
                    pops.append((n, ast.literal_eval(x[1]), t[1][1], t[2][0]))
    gg = GuardGraph(flow)
    for name in ("_ARGS", "_KWARGS"):
        hits = [(n, recv, var) for n, lit, recv, var in pops if lit == name]
        bad = None
        if len(hits) != 1:
            bad = "`%s` is not removed from the shown arguments" % name
        else:
            n, recv, var = hits[0]
            # popped from a copy, not from the caller's mapping
            if recv == ("param", "resolved_kwargs"):
                bad = "`%s` is popped from the call's own mapping: later contracts of the same call lose it" % name
            ok = False
            for (nid, k), (kn, atoms) in gg.edge_facts.items():
                for a, pol in kn:
                    a2 = strip_sites(a)
                    if a2[0] == "op" and a2[1] in ("cmp:NotIn", "cmp:In") and (a2[2][0] == ("const", repr(name)) or (var is not None and a2[2][0] == var)) and "parameters" in show(a2[2][1]) and (a2[1] == "cmp:NotIn") == pol:
                        if gg.necessary([flow.cfg.entry], [n.id], (a, pol)):
                            ok = True
                            # all the parameters of the condition, as inspect.signature reports them (keyword-only
                            # ones and those of a wrapped callable included) -- on every path
                            cont = a2[2][1]
                            subs_ = list(subterms(cont))
                            sig_ok = any(s_[0] == "attr" and s_[2] == "parameters" and s_[1][0] == "call" and s_[1][1] == ("attr", ("module", "inspect"), "signature") and ("param", fi.params[0]) in (list(s_[1][2]) + [v_ for _, v_ in s_[1][3]]) for s_ in subs_)
                            if (not sig_ok or any(s_[0] == "phi" for s_ in subs_) or cont[0] == "phi") and bad is None:
                                bad = "whether the condition names `%s` is looked up in %s, not in the parameters inspect.signature reports for the condition: a keyword-only parameter (or the parameters of a wrapped callable) is not seen, and the value is hidden although the condition names it" % (name, show(cont, 90))
            if not ok and bad is None:
                bad = "`%s` is removed regardless of whether the condition names it" % name
        run.check(bad is None, rule, "%s:%s" % (fi.qual, name), "hidden unless the condition has a parameter of that name; removed from a copy", bad or "", fi.loc(hits[0][0]) if hits else fi.loc())
    # the name / attribute entries of the selecting visitor are filtered too
    rep = model.func("_represent._representable")
    for meth in ("visit_Name", "visit_Attribute"):
        m = model.method("_represent", "Visitor", meth)
        fl = get_flow(model, m)
        gg2 = GuardGraph(fl)
        stores = [n for n in fl.cfg.nodes if n.kind == "stmt" and isinstance(n.ast, ast.Assign) and isinstance(n.ast.targets[0], ast.Subscript) and fl.term(n.ast.targets[0].value, n) == ("attr", ("param", "self"), "reprs")]
        ok = False
        for st in stores:
            val = fl.term(st.ast.value, st)
            for (nid, k), (kn, atoms) in gg2.edge_facts.items():
                for a, pol in kn:
                    if pol and a[0] == "call" and fi_of_term(model, a[1]) is rep and val in ([v for _, v in a[3]] + list(a[2])):
                        if gg2.necessary([fl.cfg.entry], [st.id], (a, True)):
                            ok = True
        run.check(ok, rule, m.qual, "entries for names / attributes are filtered by _representable", "names / attributes are shown without the representability filter", m.loc())


def no_nondeterminism(run, model, rule="C20.no-nondeterminism"):
    """No value derived from uuid / id() / hash() / time / random / os.getpid reaches the message; no history."""
    roots = [model.func("_represent.generate_message")]
    reach = effects.reachable_functions(model, roots)
    mutables = module_level_mutables(model)
    sources = ("uuid", "random", "time", "os.getpid", "datetime")
    for qual, fi in sorted(reach.items()):
        flow = get_flow(model, fi)
        run.saw(flow)
        bad = None
        for n in flow.cfg.nodes:
            for call, c, a in calls_in(n):
                t = strip_sites(flow.term(call.func, n))
                s = show(t)
                is_src = any(s.startswith(x) for x in sources) or t in (("builtin", "id"), ("builtin", "hash"))
                if not is_src:
                    continue
                # allowed: naming a generated helper function / a result variable (identifier, never a value)
                stmt_src = src_of(n.stmt) if n.stmt is not None else ""
                allowed = ("_name" in stmt_src.split("=")[0] or "result_id" in stmt_src.split("=")[0] or "dummy_" in stmt_src) and "uuid" in s
                if not allowed:
                    bad = (n, "`%s` is used at %s; a value that differs from run to run may reach the message" % (s, first_line(n.stmt, 70)))
        # module-level mutable state consulted while a message is generated => dependence on earlier calls
        for cv, (kind, text) in mutables.items():
            if cv[1] != fi.module.name:
                continue
            for n in flow.cfg.nodes:
                if n.ast is None or n.kind == "def" or isinstance(n.ast, (ast.FunctionDef, ast.AsyncFunctionDef, ast.ClassDef)):
                    continue
                for sub in ast.walk(n.ast):
                    if isinstance(sub, ast.Name) and sub.id == cv[2]:
                        bad = (n, "the module-level %s `%s` is used while the message is generated: the message of a violation would depend on earlier calls" % (kind, cv[2]))
        # caches: functools.lru_cache / cache decorators
        for d in fi.node.decorator_list:
            if "cache" in src_of(d) and not effects.pure_value_memo(fi.node, fi.module):
                bad = (fi.node, "`@%s`: values computed for an earlier violation are reused" % src_of(d))
        if bad:
            run.violation(rule, fi.qual, bad[1], fi.loc(bad[0]), None, first_line(bad[0].stmt) if hasattr(bad[0], "stmt") and bad[0].stmt is not None else None)
        else:
            run.ok(rule, fi.qual, "no run-dependent value source and no state kept between messages", fi.loc(), nontrivial=len(flow.cfg.nodes) > 6)
    return len(reach)


def text_and_assembly(run, model, rule_text="C07.text", rule_asm="C07.assembly"):
    gm = model.func("_represent.generate_message")
    flow = get_flow(model, gm)
    run.saw(flow)
    ps = tables.paths(flow)
    C = ("param", "contract")
    is_lambda = model.func("_represent.is_lambda")
    for lam in (True, False):
        for loc in (True, False):
            for desc in (True, False):
                for nvals in (0, 1, 2):
                    def ev(t, lam=lam, loc=loc, desc=desc, nvals=nvals):
                        ts = strip_sites(t)
                        if ts[0] == "call" and fi_of_term(model, ts[1]) is is_lambda:
                            return lam
                        if ts[0] == "op" and ts[1] in ("cmp:IsNot", "cmp:Is") and ts[2][1] == ("const", "None"):
                            l = ts[2][0]
                            if l == ("attr", C, "location"):
                                return loc if ts[1] == "cmp:IsNot" else (not loc)
                            if l == ("attr", C, "description"):
                                return desc if ts[1] == "cmp:IsNot" else (not desc)
                            return ts[1] == "cmp:IsNot"
                        if ts[0] == "op" and ts[1].startswith("cmp:") and len(ts[2]) == 2 and ts[2][0][0] == "call" and ts[2][0][1] == ("builtin", "len") and ts[2][1][0] == "const":
                            try:
                                c = int(ts[2][1][1])
                            except ValueError:
                                return None
                            op = ts[1][4:]
                            # nvals 2 stands for "two or more"
                            if op == "Eq":
                                return nvals == c if not (nvals == 2 and c >= 2) else None
                            if op == "NotEq":
                                return nvals != c if not (nvals == 2 and c >= 2) else None
                            if op == "Gt":
                                return nvals > c if not (nvals == 2 and c >= 2) else None
                            if op == "GtE":
                                return nvals >= c if not (nvals == 2 and c > 2) else None
                            if op == "Lt":
                                return nvals < c if not (nvals == 2 and c > 2) else None
                            if op == "LtE":
                                return nvals <= c if not (nvals == 2 and c >= 2) else None
                        if ts[0] == "call" and fi_of_term(model, ts[1]) is not None and fi_of_term(model, ts[1]).name == "repr_values":
                            return nvals > 0  # truthiness of the list of value lines
                        return None
                    feas = [p for p in ps if tables.feasible(p, ev)]
                    construct = "%s[%s condition, location %s, description %s, %d value line(s)]" % (gm.qual, "lambda" if lam else "named", "set" if loc else "unset", "set" if desc else "unset", nvals)
                    bad = None
                    if len(feas) != 1:
                        bad = "%d feasible paths" % len(feas)
                    else:
                        p = feas[0]
                        apps = []
                        for ct, n in p.calls:
                            if ct[1][0] == "attr" and ct[1][2] == "append" and ct[1][1][0] == "display":
                                a_ = ct[2][0]
                                # ``x if <test> else y``: the test is decided like a branch of the table
                                while a_[0] == "op" and a_[1] == "ifexp":
                                    v_ = tables.evaluate(a_[2][0], ev)
                                    if v_ is None:
                                        break
                                    a_ = a_[2][1] if v_ else a_[2][2]
                                # ``sep + value`` appended in one go is the two parts one after the other
                                todo_ = [strip_sites(a_)]
                                while todo_:
                                    x_ = todo_.pop(0)
                                    if x_[0] == "op" and x_[1] == "Add" and len(x_[2]) == 2:
                                        todo_ = [x_[2][0], x_[2][1]] + todo_
                                    else:
                                        apps.append(x_)
                        kinds = []
                        for a in apps:
                            s = show(a)
                            if "contract.location" in s:
                                kinds.append("location")
                            elif "contract.description" in s:
                                kinds.append("description")
                            elif a[0] == "const":
                                kinds.append("sep:" + a[1])
                            elif "repr_values" in s:
                                kinds.append("values")
                            elif ".text" in s or "__name__" in s:
                                kinds.append("text:" + ("lambda" if ".text" in s else "name"))
                            else:
                                kinds.append("?" + s[:40])
                        want = (["location"] if loc else []) + (["description"] if desc else []) + ["text:" + ("lambda" if lam else "name")]
                        if nvals == 1:
                            want += ["sep:': '", "values"]
                        elif nvals >= 2:
                            want += ["sep:':\\n'", "values"]
                        if kinds != want:
                            bad = "the message parts are %s, expected %s" % (kinds, want)
                        elif p.outcome is None or p.outcome[0] != "return" or "join" not in show(strip_sites(p.outcome[1])):
                            bad = "the parts are not joined into the message"
                    run.check(bad is None, rule_asm, construct, "location? description? text separator values", bad or "", gm.loc(), None, construct.split("[", 1)[1])
    # the text of a lambda condition is the source of its *body*
    cls = model.method("_represent", "ConditionLambdaInspection", "__init__")
    cfl = get_flow(model, cls)
    run.saw(cfl)
    p_atok, p_node = (cls.params + [None, None, None])[1:3]
    want_text = ("call", ("attr", ("param", p_atok), "get_text"), (("attr", ("param", p_node), "body"),), ())
    stored = [(n, strip_sites(cfl.term(n.ast.value, n))) for n in cfl.cfg.nodes if n.kind == "stmt" and isinstance(n.ast, (ast.Assign, ast.AnnAssign)) and getattr(n.ast, "value", None) is not None for tg in (n.ast.targets if isinstance(n.ast, ast.Assign) else [n.ast.target]) if isinstance(tg, ast.Attribute) and tg.attr == "text" and isinstance(tg.value, ast.Name) and tg.value.id == cls.params[0]]
    bad_t = None
    if not stored:
        bad_t = "the condition text is never stored"
    for n, t in stored:
        if t != want_text:
            bad_t = "the condition text stored is %s, not the source text of the lambda's body as it stands in the file (`atok.get_text(node.body)`): what the message shows no longer parses to the expression that was evaluated (or is another node)" % show(t, 90)
    run.check(bad_t is None, rule_text, cls.qual, "the condition text is the source text of the lambda's body, unchanged", bad_t or "", cls.loc(stored[0][0]) if stored else cls.loc())
    # the lambda located is the one of contract.condition; repr_values gets the same inspection/condition/mapping
    ok = False
    for n in flow.cfg.nodes:
        for call, c, a in calls_in(n):
            t = strip_sites(flow.term(call, n))
            if t[0] == "call" and t[1] == ("func", "_represent.repr_values"):
                kw = dict(t[3])
                ok = kw.get("condition") == ("attr", C, "condition") and kw.get("resolved_kwargs") == ("param", "resolved_kwargs")
    run.check(ok, rule_text, gm.qual + ":values", "the values are computed for this contract's condition on this call's mapping", "repr_values is not called with the contract's condition and the call's mapping", gm.loc())
    ok = any(strip_sites(flow.term(call, n)) == ("call", ("func", "_represent.inspect_lambda_condition"), (), (("condition", ("attr", C, "condition")),)) for n in flow.cfg.nodes for call, c, a in calls_in(n))
    run.check(ok, rule_text, gm.qual + ":inspection", "the source is located for this contract's condition", "the lambda inspection is not done for the contract's own condition", gm.loc())


def _regex_match_prefix(tree, text):
    """Does the parsed regular expression (stdlib regex AST) match at the start of ``text``?  A small backtracking
    interpreter for the constructs such delimiting patterns use; anything else is an AnalysisError."""
    import re._constants as C

    def cls_has(members, ch):
        neg = False
        hit = False
        for op, av in members:
            if op == C.NEGATE:
                neg = True
            elif op == C.LITERAL:
                hit = hit or ord(ch) == av
            elif op == C.RANGE:
                hit = hit or av[0] <= ord(ch) <= av[1]
            elif op == C.CATEGORY:
                if av == C.CATEGORY_SPACE:
                    hit = hit or ch.isspace()
                elif av == C.CATEGORY_NOT_SPACE:
                    hit = hit or not ch.isspace()
                elif av == C.CATEGORY_WORD:
                    hit = hit or ch.isalnum() or ch == "_"
                elif av == C.CATEGORY_NOT_WORD:
                    hit = hit or not (ch.isalnum() or ch == "_")
                elif av == C.CATEGORY_DIGIT:
                    hit = hit or ch.isdigit()
                else:
                    raise AnalysisError("regex category %s not handled" % av)
            else:
                raise AnalysisError("regex class member %s not handled" % op)
        return hit != neg

    def m(items, i, pos, k):
        """match items[i:] at pos, then continuation k(pos)"""
        if i == len(items):
            return k(pos)
        op, av = items[i]
        nxt = lambda p: m(items, i + 1, p, k)
        if op == C.AT:
            if av in (C.AT_BEGINNING, C.AT_BEGINNING_STRING):
                return pos == 0 and nxt(pos)
            if av in (C.AT_END, C.AT_END_STRING):
                return pos == len(text) and nxt(pos)
            if av == C.AT_BOUNDARY:
                a = pos > 0 and (text[pos - 1].isalnum() or text[pos - 1] == "_")
                b = pos < len(text) and (text[pos].isalnum() or text[pos] == "_")
                return a != b and nxt(pos)
            raise AnalysisError("regex anchor %s not handled" % av)
        if op == C.LITERAL:
            return pos < len(text) and ord(text[pos]) == av and nxt(pos + 1)
        if op == C.NOT_LITERAL:
            return pos < len(text) and ord(text[pos]) != av and nxt(pos + 1)
        if op == C.ANY:
            return pos < len(text) and text[pos] != "\n" and nxt(pos + 1)
        if op == C.IN:
            return pos < len(text) and cls_has(av, text[pos]) and nxt(pos + 1)
        if op in (C.MAX_REPEAT, C.MIN_REPEAT):
            lo, hi, sub = av
            sub = list(sub)

            def rep(count, p):
                if count >= lo and nxt(p):
                    return True
                if count < hi and count < 64:
                    return m(sub, 0, p, lambda q: q > p and rep(count + 1, q))
                return False

            return rep(0, pos)
        if op == C.SUBPATTERN:
            return m(list(av[3]), 0, pos, nxt)
        if op == C.BRANCH:
            return any(m(list(alt), 0, pos, nxt) for alt in av[1])
        raise AnalysisError("regex construct %s not handled" % op)

    return bool(m(list(tree), 0, 0, lambda p: True))


def decorator_regex(run, model, rule="C07.layout-regex"):
    """The regular expressions that delimit a decorator in the source file, found by their role (module-level
    ``re.compile(<literal>)`` constants matched against source lines in ``inspect_decorator``), are interpreted by the
    checker's own matcher on representative lines: every line that starts a decorator, a ``def``, an ``async def`` or
    a ``class`` ends the decorator text; a continuation line of the condition never does -- whatever identifier it
    starts with."""
    import re._parser as sre_parse  # stdlib regex AST

    mod = model.modules["_represent"]
    fi = model.func("_represent.inspect_decorator")
    patterns = {}
    for name, vals in mod.assigns.items():
        if len(vals) == 1 and isinstance(vals[0], ast.Call) and src_of(vals[0].func) == "re.compile" and vals[0].args and isinstance(vals[0].args[0], ast.Constant) and isinstance(vals[0].args[0].value, str) and len(vals[0].args) == 1 and not vals[0].keywords:
            patterns[name] = vals[0].args[0].value

    aliases = {}  # local name bound to ``PATTERN.match`` -> PATTERN (a bound method kept in a local of the scanning function)

    def names_in(expr):
        direct = [c.func.value.id for c in ast.walk(expr) if isinstance(c, ast.Call) and isinstance(c.func, ast.Attribute) and c.func.attr in ("match", "search") and isinstance(c.func.value, ast.Name) and c.func.value.id in patterns]
        via = [aliases[c.func.id] for c in ast.walk(expr) if isinstance(c, ast.Call) and isinstance(c.func, ast.Name) and c.func.id in aliases]
        return direct + via

    # the tests of inspect_decorator (and of the module's helpers it calls) that match lines: each is a disjunction
    todo, funcs = [fi], []
    while todo:
        g = todo.pop()
        if g in funcs:
            continue
        funcs.append(g)
        gfl = get_flow(model, g)
        for n in gfl.cfg.nodes:
            for call, c, a in calls_in(n):
                cf = fi_of_term(model, gfl.term(call.func, n))
                if cf is not None and cf.module.name == "_represent" and cf.cls is None and cf not in funcs:
                    todo.append(cf)
    tests = []
    for g in funcs:
        for sub in ast.walk(g.node):
            if isinstance(sub, ast.Assign) and len(sub.targets) == 1 and isinstance(sub.targets[0], ast.Name) and isinstance(sub.value, ast.Attribute) and sub.value.attr in ("match", "search") and isinstance(sub.value.value, ast.Name) and sub.value.value.id in patterns:
                n_binds = sum(1 for s2 in ast.walk(g.node) if isinstance(s2, ast.Name) and s2.id == sub.targets[0].id and isinstance(s2.ctx, ast.Store))
                if n_binds == 1:
                    aliases[sub.targets[0].id] = sub.value.value.id
    for g in funcs:
        for sub in ast.walk(g.node):
            if isinstance(sub, (ast.If, ast.While, ast.IfExp)) and names_in(sub.test):
                tests.append((sub, names_in(sub.test)))
            if isinstance(sub, ast.comprehension):
                for cond in sub.ifs:
                    if names_in(cond):
                        tests.append((cond, names_in(cond)))
            # a predicate helper: ``def _ends_decorator(line): return bool(A.match(line) or B.match(line))``
            if isinstance(sub, ast.Return) and g is not fi and sub.value is not None and names_in(sub.value):
                tests.append((sub.value, names_in(sub.value)))
    if not tests:
        raise AnalysisError("_represent.inspect_decorator: no test matching source lines against a module-level pattern was found")
    deco = ["@a", "    @name  # comment", "@a.b.setter", "  @_x(", "\t@icontract.require(", "@registry['x']", "@Z"]
    defs = ["def f():", "  def  f():", "async def f():", "    async   def f(", "class C:", "    class  C(object):", "\tdef g(self):", "def\tf():", "class\tC:", "async\tdef\tf():", "    async def\tf():"]
    cont = ["default is None or x < default", "    defaults)", "classes = 1", "    class_name == 'x'", "definitely", "async_mode", "    x > 0", ")", "lambda x: x", "", "  # @comment", "    error=ValueError)", "x @ y", "    @ values", "@ w > 0", "    'def ' in x", "asynchronous = 1"]
    trees = {name: list(sre_parse.parse(p)) for name, p in patterns.items()}
    ends_on_def = False

    # a cheap pre-filter in front of the patterns (``if not line.lstrip().startswith(PREFIXES): continue``) decides, too
    def const_strs(e):
        if isinstance(e, ast.Constant) and isinstance(e.value, str):
            return (e.value,)
        if isinstance(e, (ast.Tuple, ast.List)):
            out = ()
            for x in e.elts:
                v = const_strs(x)
                if v is None:
                    return None
                out += v
            return out
        if isinstance(e, ast.Name):
            vals = mod.assigns.get(e.id, [])
            if len(vals) == 1:
                return const_strs(vals[0])
        return None

    def startswith_test(e):
        """(negated, strip kind, prefixes) of ``[not] <x>[.lstrip()|.strip()].startswith(P)``, else None"""
        neg = False
        while isinstance(e, ast.UnaryOp) and isinstance(e.op, ast.Not):
            e, neg = e.operand, not neg
        if isinstance(e, ast.Call) and isinstance(e.func, ast.Attribute) and e.func.attr == "startswith" and len(e.args) == 1:
            base = e.func.value
            strip = None
            if isinstance(base, ast.Call) and isinstance(base.func, ast.Attribute) and base.func.attr in ("lstrip", "strip") and not base.args:
                strip = base.func.attr
            pre = const_strs(e.args[0])
            if pre is None:
                raise AnalysisError("_represent.inspect_decorator: a prefix test on the source lines with prefixes that are not literal (%s)" % src_of(e))
            return neg, strip, pre
        return None

    parent = {}
    for g in funcs:
        for p_ in ast.walk(g.node):
            for c_ in ast.iter_child_nodes(p_):
                parent[id(c_)] = p_

    def prefilters(node):
        """the prefix tests a line has passed when ``node`` (a test expression / statement) is evaluated"""
        out = []
        cur = node
        while id(cur) in parent:
            par = parent[id(cur)]
            # (b) nested inside ``if <startswith test>:``
            if isinstance(par, ast.If) and any(cur is x for x in par.body) and startswith_test(par.test) is not None:
                neg, strip, pre = startswith_test(par.test)
                out.append((not neg, strip, pre))
            # (a) an earlier ``if [not] <startswith test>: continue`` in the same block
            for field in ("body", "orelse"):
                blk = getattr(par, field, None)
                if isinstance(blk, list) and any(cur is x for x in blk):
                    for st_ in blk:
                        if st_ is cur:
                            break
                        if isinstance(st_, ast.If) and not st_.orelse and len(st_.body) == 1 and isinstance(st_.body[0], ast.Continue) and startswith_test(st_.test) is not None:
                            neg, strip, pre = startswith_test(st_.test)
                            out.append((neg, strip, pre))  # the line goes on iff the test is false
            if isinstance(par, (ast.FunctionDef, ast.AsyncFunctionDef)):
                break
            cur = par
        return out

    def passes(line, filters):
        for must_start, strip, pre in filters:
            s_ = line.lstrip() if strip == "lstrip" else (line.strip() if strip == "strip" else line)
            if s_.startswith(pre) != must_start:
                return False
        return True

    for node, names in tests:
        flt = prefilters(node)
        acc = lambda line, names=names, flt=flt: passes(line, flt) and any(_regex_match_prefix(trees[nm], line) for nm in names)
        text = " or ".join("%s=%r" % (nm, patterns[nm]) for nm in names)
        missed = [l for l in deco if not acc(l)]
        wrong = [l for l in cont if acc(l)]
        bad = None
        if missed:
            bad = "a line that starts a decorator is not recognised, e.g. %r: the text taken for the decorator spans two decorators and the violation is replaced by a parsing error" % missed[0]
        elif wrong:
            bad = "a continuation line of the condition is taken for the end of the decorator, e.g. %r: the decorator text is cut short and the violation is replaced by a SyntaxError" % wrong[0]
        if all(acc(l) for l in defs):
            ends_on_def = True
        elif any(acc(l) for l in defs) and bad is None:
            bad = "only some of def / async def / class end the decorator, e.g. not %r" % [l for l in defs if not acc(l)][0]
        run.check(bad is None, rule, "_represent.inspect_decorator:line %d" % getattr(node, "lineno", 0), "patterns %s: decorator lines accepted, continuation lines rejected" % text, (bad or "") + " (patterns: %s)" % text, fi.loc(node), None, text)
    run.check(ends_on_def, rule, "_represent.inspect_decorator:end", "def / async def / class end the decorator", "no test recognises def, async def and class lines as the end of the decorator", fi.loc())


def scan_bounds(run, model, rule="C07.scan-bounds"):
    """The scans of ``inspect_decorator`` over the source lines reach the ends of the file: the upward scan for the
    line that starts the decorator includes index 0 (a decorator on the very first line of a file / cell / snippet),
    the downward scan for its end includes the last line."""
    fi = model.func("_represent.inspect_decorator")
    lines_names = set()
    count = 0
    for sub in ast.walk(fi.node):
        if not isinstance(sub, ast.For) or not isinstance(sub.target, ast.Name):
            continue
        it = sub.iter
        rev = False
        if isinstance(it, ast.Call) and isinstance(it.func, ast.Name) and it.func.id == "reversed" and len(it.args) == 1:
            it, rev = it.args[0], True
        if not (isinstance(it, ast.Call) and isinstance(it.func, ast.Name) and it.func.id == "range" and not it.keywords and 1 <= len(it.args) <= 3):
            continue
        # the loop variable indexes a sequence of lines
        idx = [s for st in sub.body for s in ast.walk(st) if isinstance(s, ast.Subscript) and isinstance(s.slice, ast.Name) and s.slice.id == sub.target.id and isinstance(s.value, ast.Name)]
        if not idx:
            continue
        seq = idx[0].value.id
        args = it.args
        start = args[0] if len(args) >= 2 else ast.Constant(value=0)
        stop = args[1] if len(args) >= 2 else args[0]
        step = args[2] if len(args) == 3 else ast.Constant(value=1)

        def const(e):
            if isinstance(e, ast.Constant) and isinstance(e.value, int):
                return e.value
            if isinstance(e, ast.UnaryOp) and isinstance(e.op, ast.USub) and isinstance(e.operand, ast.Constant) and isinstance(e.operand.value, int):
                return -e.operand.value
            return None

        sv = const(step)
        if sv is None:
            continue
        count += 1
        down_in_index = (sv < 0) != rev  # indices visited in decreasing order
        construct = "%s:%s" % (fi.qual, "upward-scan" if down_in_index else "downward-scan")
        if down_in_index:
            # decreasing: the lowest index visited must be 0
            if sv < 0:
                low_ok = const(stop) is not None and const(stop) <= -1
            else:
                low_ok = const(start) is not None and const(start) <= 0
            run.check(low_ok, rule, construct, "the scan towards the top of the file includes its first line (index 0)", "`%s` never looks at index 0 of `%s`: a decorator that starts on the very first line of its source (a snippet, a notebook cell, a generated module) is not found, and the violation is replaced by a SyntaxError ('decorator could not be found')" % (src_of(sub.iter), seq), fi.loc(sub), None, src_of(sub.iter))
        else:
            hi = stop if sv > 0 else start
            hi_ok = isinstance(hi, ast.Call) and isinstance(hi.func, ast.Name) and hi.func.id == "len" and len(hi.args) == 1 and isinstance(hi.args[0], ast.Name) and hi.args[0].id == seq
            run.check(hi_ok, rule, construct, "the scan towards the end of the file includes its last line", "`%s` stops before the last line of `%s`: a decorator whose text ends on the last line of the file is cut short" % (src_of(sub.iter), seq), fi.loc(sub), None, src_of(sub.iter))
    return count


def bare_at_prefix(run, model, rule="C07.layout-prefix"):
    """A source line is not taken for the start of a decorator because it starts with ``@`` alone: a continuation line
    of a condition may start with the matrix-multiplication operator (``@ weights``, as code formatters break it).
    The character after ``@`` has to be looked at (the regular expression of the library asks for an identifier
    start).  Counted: the string tests of ``inspect_decorator`` and of the helpers it calls."""
    fi = model.func("_represent.inspect_decorator")
    todo, funcs = [fi], []
    while todo:
        g = todo.pop()
        if g in funcs:
            continue
        funcs.append(g)
        gfl = get_flow(model, g)
        for n in gfl.cfg.nodes:
            for call, c, a in calls_in(n):
                cf = fi_of_term(model, gfl.term(call.func, n))
                if cf is not None and cf.module.name == "_represent" and cf.cls is None and cf not in funcs:
                    todo.append(cf)
    count = 0
    for g in funcs:
        parents = {}
        for p in ast.walk(g.node):
            for ch in ast.iter_child_nodes(p):
                parents[id(ch)] = p
        for sub in ast.walk(g.node):
            bare = False
            if isinstance(sub, ast.Call) and isinstance(sub.func, ast.Attribute) and sub.func.attr == "startswith" and sub.args:
                a0 = sub.args[0]
                lits = [a0] if isinstance(a0, ast.Constant) else (list(a0.elts) if isinstance(a0, (ast.Tuple, ast.List)) else [])
                bare = any(isinstance(x, ast.Constant) and x.value == "@" for x in lits)
            if isinstance(sub, ast.Compare) and len(sub.ops) == 1 and isinstance(sub.ops[0], ast.Eq) and any(isinstance(x, ast.Constant) and x.value == "@" for x in [sub.left, sub.comparators[0]]):
                bare = True
            if not bare:
                continue
            count += 1
            par = parents.get(id(sub))
            refined = isinstance(par, ast.BoolOp) and isinstance(par.op, ast.And)
            run.check(refined, rule, "%s:%s" % (g.qual, src_of(sub, 40)), "the `@` test is refined by a further test of the same line", "a line counts as the start of a decorator because it starts with `@` alone (`%s`): a continuation line of the condition that starts with the matrix-multiplication operator ends the decorator text early, and a SyntaxError replaces the violation" % src_of(sub, 50), g.loc(sub), None, src_of(sub, 50))
    if count == 0:
        run.ok(rule, fi.qual, "no line is classified by a bare `@` prefix", fi.loc())
