"""Rules shared by several properties that do not belong to one engine module."""
import ast

from ..events import Summaries, calls_in, call_arg_terms, fi_of_term, bind_call, DUNDERS_CHECKER
from ..flow import get_flow, show, strip_sites, subterms
from ..model import AnalysisError, first_line, src_of
from . import loops
from ..guards import GuardGraph, normal_succ


def truth_rule(run, model, rule):
    """not_check negates the value it was given exactly once and returns that negation; handler chains."""
    helpers = loops.find_truth_helper(model)
    if not helpers:
        run.violation(rule, "_checkers", "no function returning `not <its parameter>` found: the truth test of condition results is gone or altered", "icontract/_checkers.py")
        return
    summ = Summaries(model)
    for fi, pname in helpers:
        flow = get_flow(model, fi)
        run.saw(flow)
        rt = summ.return_term(fi)
        ok = rt == ("op", "Not", (("param", pname),))
        run.check(ok, rule, fi.qual, "returns `not %s` (single negation of the value it was given) on its only returning path" % pname, "returns %s on some path, not the single negation of the judged value" % show(rt), fi.loc())


def all_calls(model, pred=None):
    """Yield (fi, flow, node, call) over every live function of the package."""
    for fi in model.functions.values():
        if not fi.live:
            continue
        flow = get_flow(model, fi)
        for n in flow.cfg.nodes:
            for call, cond, aw in calls_in(n):
                yield fi, flow, n, call


def kind_uniform(run, model, rule):
    """Checkers are created only by the checker factory; decorators and metaclass call the same factory."""
    factory = model.func("_checkers.decorate_with_checker")
    sites = []
    for fi, flow, n, call in all_calls(model):
        t = flow.term(call.func, n)
        f = fi_of_term(model, t)
        if f is factory:
            sites.append((fi, n))
    # who writes the three dunders onto a function object with a fresh list?  only the factory
    writers = set()
    for fi, flow, n, call in all_calls(model):
        t = flow.term(call.func, n)
        if t == ("builtin", "setattr") and len(call.args) == 3:
            name = flow.term(call.args[1], n)
            if name[0] == "const" and name[1].strip("'\"") in DUNDERS_CHECKER:
                writers.add(fi.qual)
    for fi in model.functions.values():
        if not fi.live:
            continue
        for st in ast.walk(fi.node):
            if isinstance(st, ast.Assign):
                for tg in st.targets:
                    if isinstance(tg, ast.Attribute) and tg.attr in DUNDERS_CHECKER:
                        writers.add(fi.qual)
    expected_callers = {"_decorators.require.__call__", "_decorators.ensure.__call__", "_metaclass._decorate_namespace_function", "_metaclass._decorate_namespace_property"}
    callers = set(fi.qual for fi, _ in sites)
    for q in sorted(expected_callers):
        run.check(q in callers, rule, q, "creates checkers through the one checker factory", "does not create its checker through decorate_with_checker (a kind-specific checker would escape the gate rules)", model.functions[q].loc() if q in model.functions else None)
    extra = callers - expected_callers
    for q in sorted(extra):
        run.ok(rule, q, "additional caller of the checker factory (same factory, same wrappers)", nontrivial=False)
    # the wrappers carry no branch on the kind of callable: a test inside a checker wrapper whose condition mentions the decorated function's type
    for role in ("sync", "async"):
        fi = model.func("_checkers.decorate_with_checker.wrapper[%s]" % role)
        flow = get_flow(model, fi)
        bad = None
        for n in flow.cfg.nodes:
            if n.kind == "test" and n.ast is not None:
                t = flow.term(n.ast, n)
                for s in subterms(t):
                    if s[0] == "call" and s[1][0] in ("builtin", "attr") and (s[1] in (("builtin", "isinstance"), ("builtin", "type")) or (s[1][0] == "attr" and s[1][1] == ("module", "inspect"))):
                        if any(a[0] == "closure" for a in s[2]):
                            bad = n
        run.check(bad is None, rule, fi.qual, "no branch of the wrapper depends on the kind of the decorated callable", "a branch of the wrapper depends on the kind of the decorated callable: %s" % (first_line(bad.stmt) if bad else ""), fi.loc(bad) if bad else fi.loc(), None, first_line(bad.stmt) if bad else None)


def _only_when_empty(flow, node, base):
    """``node`` is reachable only with the list ``base`` known to be empty (falsy)"""
    gg = GuardGraph(flow)
    atoms = [a for (nid, k), (kn, _atoms) in gg.edge_facts.items() for a, pol in kn if strip_sites(a) == strip_sites(base)]
    return any(gg.necessary([flow.cfg.entry], [node.id], (a, False)) for a in atoms)


def append_rules(run, model, rule, which=("pre", "post", "snap")):
    """add_*_to_checker add the contract at the END of the list they read from the checker, unconditionally."""
    specs = {
        "pre": ("_checkers.add_precondition_to_checker", "__preconditions__", 1),
        "post": ("_checkers.add_postcondition_to_checker", "__postconditions__", 0),
        "snap": ("_checkers.add_snapshot_to_checker", "__postcondition_snapshots__", 0),
    }
    for w in which:
        qual, dunder, depth = specs[w]
        fi = model.func(qual)
        flow = get_flow(model, fi)
        run.saw(flow)
        params = fi.params
        checker_p, item_p = params[0], params[1]
        base = ("attr", ("param", checker_p), dunder)
        want_recv = base if depth == 0 else ("idx", base, ("const", "0"))
        appends = []
        others = []
        for n in flow.cfg.nodes:
            for call, cond, aw in calls_in(n):
                t = flow.term(call.func, n)
                if t[0] == "attr" and t[2] in ("append", "insert", "extend", "__iadd__") :
                    recv = t[1]
                    args = [flow.term(a, n) for a in call.args]
                    if ("param", item_p) in args or any(("param", item_p) in list(subterms(a)) for a in args):
                        if t[2] == "append" and recv == want_recv and args == [("param", item_p)]:
                            appends.append(n)
                        elif depth == 1 and t[2] == "append" and recv == base and [strip_sites(a_) for a_ in args] == [("display", "list", (("param", item_p),))] and _only_when_empty(flow, n, base):
                            # the first group created together with its first member: `groups.append([contract])`
                            # on the path where the list of groups is empty is `groups.append([]); groups[0].append(contract)`
                            appends.append(n)
                        else:
                            others.append((n, t[2], recv))
        for n in flow.cfg.nodes:
            if n.kind == "stmt" and isinstance(n.ast, (ast.Assign, ast.AugAssign)):
                # list re-binding / concatenation in the wrong order
                txt = src_of(n.ast)
                if item_p in [x.id for x in ast.walk(n.ast) if isinstance(x, ast.Name)] and "append" not in txt:
                    others.append((n, "assignment", None))
        if others:
            n, how, recv = others[0]
            run.violation(rule, fi.qual, "the new contract is added by `%s` (%s), not appended at the end of the checker's own list: stacking order / ownership changes" % (first_line(n.stmt), how), fi.loc(n), None, first_line(n.stmt))
            continue
        if len(appends) == 2 and depth == 1:
            # one append per arm (empty list of groups / first group present): every returning path takes exactly one
            gg_ = GuardGraph(flow)
            ids_ = set(x.id for x in appends)
            without = gg_.reach([flow.cfg.entry], lambda n_, k_, t_: t_.id in ids_, None, False)
            crossing = any((gg_.reach(normal_succ(x), None, None, False) & (ids_ - {x.id})) for x in appends)
            a = appends[0]
            ok2 = flow.cfg.exit_return.id not in without and not crossing
            run.check(ok2, rule, fi.qual, "appends the new contract at the end of the checker's list on every returning path (one append per arm)", "some returning path does not append the contract exactly once", fi.loc(a), None, first_line(a.stmt))
            continue
        if len(appends) != 1:
            run.violation(rule, fi.qual, "expected exactly one `append(%s)` onto `%s` of the given checker, found %d" % (item_p, show(want_recv), len(appends)), fi.loc())
            continue
        # unconditional: the append dominates the normal exit (ignoring assert failures and the documented conflict raise)
        dom = flow.cfg.dominators()
        a = appends[0]
        preds_ok = a.id in dom[flow.cfg.exit_return.id]
        run.check(preds_ok, rule, fi.qual, "appends the new contract at the end of the checker's list on every returning path", "some returning path does not append the contract (it would be silently dropped)", fi.loc(a), None, first_line(a.stmt))
