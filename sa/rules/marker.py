"""T-pair: typestate of the in-progress marker over the wrapper regions (shared by C03, C10, C11, C12, C13).

Abstract state of *this activation* with respect to its key:
  U  untested            A  tested, absent        F  tested, present (an outer activation holds it)
  H  acquired after a negative test               Hb acquired blindly (without a negative test)
  R  given back

Marker operations are recognised in two idioms whose legality differs because their semantics differ:
  REMOVE  (``S.discard(k)``, ``cv.set(S - {k})``)  deletes the key whoever owns it -> legal only in H
  RESTORE (``cv.set(S)`` with S the entry snapshot, ``cv.reset(token)``) re-installs what this activation saw
          -> legal in every state
"""
import ast

from ..events import WrapperRoles, Summaries, find_wrappers, context_vars, calls_in
from ..flow import get_flow, show, strip_sites
from ..model import AnalysisError, first_line, src_of
from ..typestate import explore

CONTRACT_EVENTS = ("PRE", "SNAP", "POST", "INV", "ERRMSG")
MARKER_REGIONS = ("checker[sync]", "checker[async]", "inv[init]", "inv[sync]", "inv[async]")
# the ``__new__`` wrapper has no marker operations today; the rules on giving the marker back apply to it as soon as it gets any
MARKER_REGIONS_ALL = MARKER_REGIONS + ("inv[new]",)


class RegionResult:
    def __init__(self, role, fi, wr):
        self.role = role
        self.fi = fi
        self.wr = wr
        self.findings = []  # (rule, detail, node, state, witness)
        self.keys = []  # (event kind, key term, node)
        self.event_states = []  # (event kind, state, node)
        self.prod = None
        self.counts = {}


def _node_is_pure_marker_stmt(node, ev):
    """The statement is exactly the marker call: nothing can raise after the event completed."""
    st = node.ast
    return isinstance(st, ast.Expr) and st.value is ev.get("call")


def analyse_region(model, role, fi, summ=None):
    wr = WrapperRoles(model, fi, summ)
    events = wr.events()
    res = RegionResult(role, fi, wr)
    flow = wr.flow
    found = {}

    def report(rule, detail, node, state, prod_getter):
        key = (rule, first_line(node.stmt) if node.stmt is not None else node.kind)
        if key in found:
            return
        found[key] = (rule, detail, node, state)

    pending = []

    def step(node, state):
        evs = events.get(node.id, [])
        cur = state
        exc_states = [cur]
        normal = []
        branch = None
        pure_giveback = False
        for ev in evs:
            k = ev["kind"]
            if k == "CTX_UNKNOWN":
                raise AnalysisError(
                    "unrecognised marker operation in %s at %s: %s" % (fi.qual, fi.loc(node), ev.get("text", ""))
                )
            if k == "CLEAR":
                # the whole set of markers replaced by an empty one
                res.event_states.append(("REMOVE", cur, node))
                pending.append(("C10.own-release", "the set of markers is replaced by an empty set (`%s`): the markers of the enclosing activations -- other functions, other objects whose contracts are being evaluated further up the stack -- are dropped with it, so their re-entrant calls are checked again (without bound), and the state after the call is not the state before it" % ev.get("text", ""), node, state))
                exc_states.append(cur)
                cur = "R"
                continue
            if k == "TEST":
                res.keys.append(("TEST", ev["key"], node))
                branch = ev
                continue
            if k == "ACQUIRE":
                res.keys.append(("ACQUIRE", ev["key"], node))
                res.event_states.append(("ACQUIRE", cur, node))
                exc_states.append(cur)
                cur = "H" if cur in ("A", "R", "H") else "Hb"
                if not _node_is_pure_marker_stmt(node, ev):
                    exc_states.append(cur)
            elif k == "REMOVE":
                res.keys.append(("REMOVE", ev["key"], node))
                res.event_states.append(("REMOVE", cur, node))
                pure_giveback = pure_giveback or _node_is_pure_marker_stmt(node, ev)
                if cur != "H":
                    pending.append(("C10.own-release", "the key is removed in state %s (only its owner, state H, may remove it: a re-entrant or blind activation would drop the marker of the outer activation)" % cur, node, state))
                exc_states.append(cur)
                cur = "R"
                if not _node_is_pure_marker_stmt(node, ev):
                    exc_states.append(cur)
            elif k == "RESTORE":
                res.event_states.append(("RESTORE", cur, node))
                pure_giveback = pure_giveback or _node_is_pure_marker_stmt(node, ev)
                exc_states.append(cur)
                if cur in ("H", "Hb"):
                    cur = "R"
                if not _node_is_pure_marker_stmt(node, ev):
                    exc_states.append(cur)
            elif k in CONTRACT_EVENTS:
                res.event_states.append((k, cur, node))
                if cur == "Hb":
                    pending.append(("C10.test-first", "%s is evaluated by an activation that acquired the marker without testing for re-entry first (state Hb)" % k, node, state))
                elif cur != "H":
                    pending.append(("C10.held-for-contracts", "%s is evaluated in state %s: the marker is not held, so a contract calling the same function/object re-enters the checks without bound" % (k, cur), node, state))
                exc_states.append(cur)
            elif k == "BODY":
                res.event_states.append(("BODY", cur, node))
                exc_states.append(cur)
            else:
                exc_states.append(cur)
        if branch is not None and cur in ("U", "R", "A", "F"):
            present = branch["present_on"]
            absent = "F" if present == "T" else "T"
            normal = [(present, "F"), (absent, "A")]
        else:
            normal = [(None, cur)]
        if pure_giveback:
            # the give-back statement itself (``cv.set(S)`` / ``S.discard(k)``) is taken not to fail
            exc_states = []
        # de-duplicate
        ex = []
        for s in exc_states:
            if s not in ex:
                ex.append(s)
        return normal, ex

    prod = explore(flow.cfg, "U", step)
    res.prod = prod
    # findings recorded during exploration: attach the shortest witness
    seenf = set()
    for rule, detail, node, state in pending:
        key = (rule, first_line(node.stmt))
        if key in seenf:
            continue
        seenf.add(key)
        res.findings.append((rule, detail, node, state, prod.witness_lines(node.id, state)))
    # exits with the marker held
    for exit_node in (flow.cfg.exit_return, flow.cfg.exit_raise):
        for s in sorted(prod.at_node.get(exit_node.id, ())):
            if s in ("H", "Hb"):
                path = prod.path_to(exit_node.id, s)
                last = path[-2][0] if len(path) >= 2 else exit_node
                res.findings.append(
                    (
                        "C11.release-on-all-exits",
                        "an exit (%s) is reached with the marker still held (state %s): the suspension sticks for every later call in this thread/task"
                        % ("normal return" if exit_node.kind == "EXIT_RETURN" else "exception / cancellation", s),
                        last,
                        s,
                        prod.witness_lines(exit_node.id, s),
                    )
                )
    return res


_CACHE = {}


def regions(model):
    if "_regions_cache" in model.__dict__:
        return model.__dict__["_regions_cache"]
    summ = Summaries(model)
    wrappers = find_wrappers(model)
    out = {}
    for role, fi in wrappers.items():
        out[role] = analyse_region(model, role, fi, summ)
    model.__dict__["_regions_cache"] = out
    return out


def report_rule(run, model, rule, roles=None, note_ok="no path violates the rule", as_rule=None):
    """Record one obligation per region for ``rule`` from the typestate results."""
    regs = regions(model)
    for role, res in regs.items():
        if roles is not None and role not in roles:
            continue
        run.saw(res.wr.flow)
        hits = [f for f in res.findings if f[0] == rule]
        if not hits:
            n_states = sum(len(v) for v in res.prod.at_node.values())
            run.ok(as_rule or rule, res.fi.qual, "%s (%d product states explored)" % (note_ok, n_states), res.fi.loc())
        for _, detail, node, state, witness in hits:
            run.violation(as_rule or rule, res.fi.qual, detail, res.fi.loc(node), witness, first_line(node.stmt) if node.stmt is not None else None)


def body_rules(run, model, rule_unheld="C10.body-unheld", rule_held="C10.body-held"):
    """C10.body-unheld (checker wrappers) and the instance wrappers' obligation to hold the marker over BODY."""
    regs = regions(model)
    for role, res in regs.items():
        if role == "inv[new]":
            continue
        run.saw(res.wr.flow)
        if (role.startswith("checker") and rule_unheld is None) or (not role.startswith("checker") and rule_held is None):
            continue
        bodies = [(st, n) for k, st, n in res.event_states if k == "BODY"]
        if not bodies:
            run.violation(rule_unheld if role.startswith("checker") else rule_held, res.fi.qual, "the wrapper never calls the decorated function", res.fi.loc())
            continue
        if role.startswith("checker"):
            bad = [(st, n) for st, n in bodies if st in ("H", "Hb")]
            if bad:
                st, n = bad[0]
                wit = res.prod.witness_lines(n.id, _entry_state(res, n, st))
                run.violation(
                    rule_unheld,
                    res.fi.qual,
                    "the decorated function is called while this activation holds the marker (state %s): recursive calls made by the body are silently unchecked" % st,
                    res.fi.loc(n),
                    wit,
                    first_line(n.stmt),
                )
            else:
                run.ok(rule_unheld, res.fi.qual, "BODY occurs in states %s only" % sorted(set(st for st, _ in bodies)), res.fi.loc())
        else:
            bad = [(st, n) for st, n in bodies if st in ("U", "A", "R")]
            if bad:
                st, n = bad[0]
                run.violation(
                    rule_held,
                    res.fi.qual,
                    "the method/constructor body runs in state %s: the instance marker is not held, so invariants would be evaluated on the object while a public operation or its construction is in progress" % st,
                    res.fi.loc(n),
                    res.prod.witness_lines(n.id, _entry_state(res, n, st)),
                    first_line(n.stmt),
                )
            else:
                run.ok(rule_held, res.fi.qual, "BODY occurs in states %s only" % sorted(set(st for st, _ in bodies)), res.fi.loc())


def _entry_state(res, node, st_at_event):
    states = res.prod.at_node.get(node.id, set())
    if st_at_event in states:
        return st_at_event
    return sorted(states)[0] if states else st_at_event


def key_rule(run, model, rule="C10.key"):
    """C10.key: all marker operations of a region use one key: id(<decorated function>) / id(<instance>)."""
    regs = regions(model)
    for role, res in regs.items():
        if role == "inv[new]":
            continue
        run.saw(res.wr.flow)
        keys = []
        for kind, kt, node in res.keys:
            s = strip_sites(kt)
            if s not in [k for k, _, _ in keys]:
                keys.append((s, kind, node))
        if not keys:
            run.violation(rule, res.fi.qual, "no marker operation found in the region", res.fi.loc())
            continue
        if len(keys) > 1:
            run.violation(
                rule,
                res.fi.qual,
                "the marker operations use different keys: %s" % "; ".join("%s uses %s" % (k, show(t)) for t, k, _ in keys),
                res.fi.loc(keys[1][2]),
                None,
                first_line(keys[1][2].stmt),
            )
            continue
        kt = keys[0][0]
        ok = False
        want = ""
        if kt[0] == "call" and kt[1] == ("builtin", "id") and len(kt[2]) == 1:
            arg = kt[2][0]
            if role.startswith("checker"):
                want = "id(<decorated function>)"
                ok = (arg[0] == "closure" and arg[1][0] == "param") or (arg[0] == "param" and False)
                # the factory computes id(func) and the closure captures it: the term is id(param func) of the factory
                if arg[0] == "param":
                    ok = arg[1] in res.wr.factory.params
            else:
                want = "id(<instance found in the call arguments>)"
                ok = _is_instance_term(model, res, arg)
        run.check(ok, rule, res.fi.qual, "all %d marker operations use %s" % (len(res.keys), show(kt)), "the marker key is %s, expected %s" % (show(kt), want), res.fi.loc(keys[0][2]), None, first_line(keys[0][2].stmt))


def _is_instance_term(model, res, t):
    """The instance is the result of the self-finder applied to the wrapper's own args/kwargs."""
    if t[0] == "call":
        argterms = [v for _, v in t[3]] + list(t[2])
        return ("param", res.wr.vararg) in argterms and ("param", res.wr.kwarg) in argterms
    return False


def finally_clean(run, model, rule="C11.finally-clean"):
    """C11.finally-clean: a ``finally`` contains only marker give-backs; no return/break/continue/raise."""
    regs = regions(model)
    count = 0
    for role, res in regs.items():
        flow = res.wr.flow
        events = res.wr.events()
        for st in ast.walk(res.fi.node):
            if isinstance(st, ast.Try) and st.finalbody:
                count += 1
                bad = None
                for s in st.finalbody:
                    for sub in ast.walk(s):
                        if isinstance(sub, (ast.Return, ast.Break, ast.Continue, ast.Raise)):
                            bad = (sub, "control transfer `%s` inside finally swallows the pending exception / replaces the result" % first_line(sub))
                    if bad:
                        break
                    # a plain rebinding of a local to a local or a constant cannot raise (bindings made by inlining)
                    if isinstance(s, (ast.Assign, ast.AnnAssign)) and isinstance(s.value, (ast.Name, ast.Constant)) and all(isinstance(t, ast.Name) for t in (s.targets if isinstance(s, ast.Assign) else [s.target])):
                        continue
                    # every other statement must be a marker give-back
                    nodes = [n for n in flow.cfg.nodes if n.stmt is s]
                    kinds = set(ev["kind"] for n in nodes for ev in events.get(n.id, []))
                    if not nodes or not kinds or not kinds <= {"RESTORE", "REMOVE", "CTX_GET"}:
                        bad = (s, "statement in finally is not a marker give-back; if it raises it replaces the exception in flight")
                        break
                if bad:
                    run.violation(rule, res.fi.qual, bad[1], res.fi.loc(bad[0]), None, first_line(bad[0]))
                else:
                    run.ok(rule, res.fi.qual, "finally at line %d holds %d marker give-back statement(s) only" % (st.lineno, len(st.finalbody)), res.fi.loc(st))
    return count
