"""C18 -- introspection data tells integrators the truth (DESIGN.md 5/C18)."""
import ast
import difflib

from .. import tables
from ..events import Summaries, calls_in, fi_of_term, call_arg_terms, DUNDERS_CHECKER, DUNDERS_INV
from ..flow import get_flow, show, strip_sites, subterms
from ..guards import GuardGraph, normal_succ
from ..model import first_line, src_of
from . import gates, inv, meta

META = {
    "explanation": "dataflow: the wrappers read the lists from the checker object / the instance's class per activation; writer/reader agreement of the dunder names; loop analysis of the checker lookup (innermost match along __wrapped__); T-gate of the registration hook in the metaclass constructor",
    "trusted_base": ["functools.update_wrapper sets __wrapped__"],
    "not_decided": ["verdicts of manual evaluation for concrete calls (follow from C01/C02 on the same lists)"],
    "assumptions": [],
}

ALL_DUNDERS = DUNDERS_CHECKER + DUNDERS_INV + ("__is_invariant_check__", "__wrapped__")


def same_object(run, model, rule="C18.same-object"):
    fi = model.func("_checkers.decorate_with_checker")
    flow = get_flow(model, fi)
    run.saw(flow)
    wrappers = set(("func", q) for q in ("_checkers.decorate_with_checker.wrapper[sync]", "_checkers.decorate_with_checker.wrapper[async]"))
    written = {}
    for n in flow.cfg.nodes:
        for call, c, a in calls_in(n):
            t = flow.term(call.func, n)
            if t == ("builtin", "setattr") and len(call.args) == 3:
                obj = flow.term(call.args[0], n)
                nm = flow.term(call.args[1], n)
                val = flow.term(call.args[2], n)
                if nm[0] == "const":
                    written[nm[1].strip("'")] = (obj, val, n)
    rets = [flow.term(n.ast, n) for n in flow.cfg.nodes if n.kind == "return" and n.ast is not None]

    def is_wrapper(t):
        alts = t[1] if t[0] == "phi" else (t,)
        return set(alts) <= wrappers and alts

    for d in DUNDERS_CHECKER:
        w = written.get(d)
        ok = w is not None and is_wrapper(w[0]) and w[1][0] == "display" and w[1][1] == "list" and not w[1][2]
        run.check(ok, rule, "%s:%s" % (fi.qual, d), "a fresh empty list is set on the closure the factory returns", "`%s` is not initialised as a fresh list on the returned checker" % d, fi.loc(w[2]) if w else fi.loc())
    run.check(rets and all(is_wrapper(t) for t in rets), rule, fi.qual + ":return", "returns the closure carrying the lists", "returns %s" % [show(strip_sites(t)) for t in rets], fi.loc())
    # three distinct list objects
    vals = [written[d][1] for d in DUNDERS_CHECKER if d in written]
    run.check(len(set(vals)) == len(vals) == 3, rule, fi.qual + ":distinct", "the three lists are distinct objects", "the lists share one object", fi.loc())


def names(run, model, rule="C18.names"):
    """Every contract dunder that is written is read, and vice versa; no near-miss spelling."""
    reads, writes, all_lits = {}, {}, {}
    for mod in model.modules.values():
        for node in ast.walk(mod.tree):
            lit = None
            mode = None
            if isinstance(node, ast.Call) and isinstance(node.func, ast.Name) and node.func.id in ("getattr", "hasattr", "setattr") and len(node.args) >= 2 and isinstance(node.args[1], ast.Constant) and isinstance(node.args[1].value, str):
                lit = node.args[1].value
                mode = "w" if node.func.id == "setattr" else "r"
            elif isinstance(node, ast.Attribute) and node.attr.startswith("__") and node.attr.endswith("__"):
                lit = node.attr
                mode = "w" if isinstance(node.ctx, ast.Store) else "r"
            elif isinstance(node, ast.Constant) and isinstance(node.value, str) and node.value.startswith("__") and node.value.endswith("__") and len(node.value) > 6 and " " not in node.value:
                all_lits.setdefault(node.value, []).append((mod.name, node.lineno))
            if lit and lit.startswith("__") and lit.endswith("__"):
                (writes if mode == "w" else reads).setdefault(lit, []).append((mod.name, node.lineno))
                all_lits.setdefault(lit, []).append((mod.name, node.lineno))
    # namespace[...] stores through a variable: the three invariant dunders are written via _collapse_invariants
    for d in DUNDERS_INV:
        if d in all_lits:
            writes.setdefault(d, []).extend(all_lits[d])
    for d in DUNDERS_CHECKER + DUNDERS_INV:
        r, w = reads.get(d, []), writes.get(d, [])
        run.check(bool(r) and bool(w), rule, d, "written at %d site(s), read at %d site(s)" % (len(w), len(r)), "`%s` is %s" % (d, "never read" if not r else "never written"), "icontract/")
    canon = set(ALL_DUNDERS)
    for lit, where in sorted(all_lits.items()):
        if lit in canon:
            continue
        near = difflib.get_close_matches(lit, list(DUNDERS_CHECKER + DUNDERS_INV), n=1, cutoff=0.88)
        if near:
            run.violation(rule, lit, "`%s` is used at icontract/%s.py:%d; it differs slightly from the documented `%s` -- integrators (and the library's other half) look for the documented name" % (lit, where[0][0], where[0][1], near[0]), "icontract/%s.py:%d" % where[0], None, lit)


def find_rule(run, model, rule="C18.find"):
    from ..decomp import loops_view

    fi = loops_view(model, model.func("_checkers.find_checker"))
    flow = get_flow(model, fi)
    run.saw(flow)
    walker = model.func("_checkers._walk_decorator_stack")
    heads = [n for n in flow.cfg.nodes if n.kind == "next"]
    bad = None
    if len(heads) != 1:
        bad = "expected one loop over the decorator stack"
    else:
        head = heads[0]
        it = None
        for k, p in head.pred:
            if p.kind == "iter":
                it = flow.term(p.ast, p)
        if not (it is not None and it[0] == "call" and fi_of_term(model, it[1]) is walker and ("param", fi.params[0]) in [v for _, v in it[3]] + list(it[2])):
            bad = "the loop does not walk the whole decorator stack of the given function"
        else:
            el = ("elem", it)
            inside = set(id(sub) for st in head.stmt.body for sub in ast.walk(st))
            for n in flow.cfg.nodes:
                if id(n.stmt) in inside and n.kind in ("break", "return"):
                    bad = "`%s` inside the walk: the first (outermost) object carrying the lists is returned; functools.update_wrapper copies the list attributes onto foreign decorators, so the real checker is the innermost one" % n.kind
            # the condition and the result
            tests = [n for n in flow.cfg.nodes if n.kind == "test" and id(n.stmt) in inside]
            okc = False
            for n in tests:
                t = strip_sites(flow.term(n.ast, n))
                el_s = strip_sites(el)
                want = set([("call", ("builtin", "hasattr"), (el_s, ("const", "'__preconditions__'")), ()), ("call", ("builtin", "hasattr"), (el_s, ("const", "'__postconditions__'")), ())])
                if t[0] == "op" and t[1] == "Or" and set(t[2]) == want:
                    okc = True
            if not okc and bad is None:
                bad = "a wrapper counts as the checker under a different condition than `has __preconditions__ or __postconditions__`"
            rets = [(n, flow.term(n.ast, n)) for n in flow.cfg.nodes if n.kind == "return" and n.ast is not None]
            # the matches may be collected in a list whose LAST element is returned (``xs[-1] if xs else None``)
            collected = set()
            for n in flow.cfg.nodes:
                for call, c, a in calls_in(n):
                    if id(n.stmt) in inside and isinstance(call.func, ast.Attribute) and call.func.attr == "append" and len(call.args) == 1 and flow.term(call.args[0], n) == el and isinstance(call.func.value, ast.Name):
                        collected.add(call.func.value.id)
            for rn, rt in rets:
                alts = rt[1] if rt[0] == "phi" else (rt,)
                if all(a == ("const", "None") or a == el for a in alts):
                    continue
                e = rn.ast
                last_of_list = (
                    isinstance(e, ast.IfExp) and isinstance(e.test, ast.Name) and e.test.id in collected
                    and isinstance(e.orelse, ast.Constant) and e.orelse.value is None
                    and isinstance(e.body, ast.Subscript) and isinstance(e.body.value, ast.Name) and e.body.value.id == e.test.id and src_of(e.body.slice) == "-1"
                )
                if not last_of_list and isinstance(e, ast.Subscript) and isinstance(e.value, ast.Name) and e.value.id in collected and src_of(e.slice) == "-1":
                    # ``if not xs: return None`` ... ``return xs[-1]``: the emptiness of the list is tested before
                    gg_ = GuardGraph(flow)
                    atoms_ = [a_ for (nid_, k_), (kn_, _at) in gg_.edge_facts.items() for a_, pol_ in kn_ if strip_sites(a_) == strip_sites(flow.term(e.value, rn))]
                    last_of_list = any(gg_.necessary([flow.cfg.entry], [rn.id], (a_, True)) for a_ in atoms_)
                if not last_of_list:
                    bad = bad or "returns %s" % show(strip_sites(rt))
    run.check(bad is None, rule, fi.qual, "walks the whole __wrapped__ chain and returns the innermost object carrying the lists (None if there is none)", bad or "", fi.loc())
    # the walker: yields every object down to the one without __wrapped__
    fw = get_flow(model, walker)
    run.saw(fw)
    src = src_of(walker.node)
    p0 = walker.params[0]
    yields = [n for n in ast.walk(walker.node) if isinstance(n, ast.Yield)]
    whiles = [n for n in ast.walk(walker.node) if isinstance(n, ast.While)]
    okw = len(whiles) == 1 and src_of(whiles[0].test) == "hasattr(%s, '__wrapped__')" % p0 and len(yields) == 2 and all(isinstance(y.value, ast.Name) and y.value.id == p0 for y in yields)
    if okw:
        assigns = [s for s in whiles[0].body if isinstance(s, ast.Assign)]
        okw = len(assigns) == 1 and src_of(assigns[0]) in ("%s = getattr(%s, '__wrapped__')" % (p0, p0), "%s = %s.__wrapped__" % (p0, p0))
    run.check(okw, rule, walker.qual, "yields every object along __wrapped__ including the innermost", "the stack walk is not `while hasattr(f, '__wrapped__'): yield f; f = f.__wrapped__` followed by `yield f`", walker.loc())


def register(run, model, rule="C18.register"):
    hook = model.func("_metaclass._register_for_hypothesis")
    for fi in model.methods("_metaclass", "DBCMeta", live_only=(run.tier != "thorough")):
        if fi.name != "__new__":
            continue
        flow = get_flow(model, fi)
        run.saw(flow)
        cfg = flow.cfg
        gg = GuardGraph(flow)
        sites = []
        sup = None
        for n in cfg.nodes:
            for call, c, a in calls_in(n):
                if fi_of_term(model, flow.term(call.func, n)) is hook:
                    sites.append((n, call))
                if src_of(call.func) == "super().__new__":
                    sup = (n, call)
        bad = None
        if len(sites) != 1 or sup is None:
            bad = "the registration hook is called at %d sites (expected one)" % len(sites)
        else:
            n, call = sites[0]
            cls_t = flow.term(sup[1], sup[0])
            if not isinstance(call.func, ast.Name):
                bad = "the hook is not called through its module-level name (integrators monkey-patch `_register_for_hypothesis`)"
            elif [t for _, t in call_arg_terms(flow, n, call)] != [cls_t]:
                bad = "the hook is not called with the class just created"
            elif sup[0].id not in cfg.dominators()[n.id]:
                bad = "the hook can run before the class exists"
            else:
                # `cls.__module__ != __name__` (facts are kept on the positive atom: `==` known false)
                want = ("op", "cmp:Eq", (("attr", cls_t, "__module__"), ("builtin", "__name__")))
                atom = None
                for (nid, k), (kn, atoms) in gg.edge_facts.items():
                    for a_, pol in kn:
                        if a_ == want and not pol:
                            atom = a_
                if atom is None:
                    guards = [show(strip_sites(flow.term(x.ast, x)), 90) for x in cfg.nodes if x.kind == "test" and n.id in gg.reach([t for k, t in x.succ if k == "T"], None, None, False) and x.lineno > sup[0].lineno]
                    bad = "the announcement is guarded by %s instead of `cls.__module__ != __name__`: classes of other modules are not announced (or the library's own are)" % (guards[-1:] or "nothing")
                elif not gg.necessary(normal_succ(sup[0]), [n.id], (atom, False)) or not gg.sufficient(normal_succ(sup[0]), [n.id], [cfg.exit_return.id], [(atom, False)]):
                    bad = "not every class created outside the library is announced exactly once before it is returned"
                else:
                    # at most once: the hook call is not inside a loop
                    if any(h.kind == "next" for h in cfg.nodes):
                        bad = "the metaclass constructor contains a loop around the announcement"
        run.check(bad is None, rule, fi.qual, "every path to `return cls` announces the new class exactly once iff it is defined outside the library", bad or "", fi.loc())
    # the default hook records the class
    fl = get_flow(model, hook)
    ok = any(ct[0] == "call" and ct[1] == ("attr", ("global", "_metaclass", "_CONTRACT_CLASSES"), "add") and ct[2] == (("param", hook.params[0]),) for n in fl.cfg.nodes for call, c, a in calls_in(n) for ct in [fl.term(call, n)])
    run.check(ok, rule, hook.qual, "the default hook records the class for later registration", "the default hook does not record the class", hook.loc())


def run(run, model):
    run.do(gates.c01_read_live, model, "C18.live-read", ("PRE", "SNAP", "POST"))
    run.do(inv.phases, model, "C18.live-read-inv")
    run.do(same_object, model)
    run.do(names, model)
    run.do(find_rule, model)
    run.do(register, model)
    for dunder, what in (("__preconditions__", "precondition groups"), ("__postconditions__", "postconditions"), ("__postcondition_snapshots__", "snapshots")):
        run.do(meta.provenance_rule, model, "C18.merged-lists", dunder, what)
    from . import c04, loops
    run.do(c04.structure_rules, model)
    run.do(c04.invariant_provenance, model, "C18.merged-lists", "C18.inv-own")
    from . import c05, common
    run.do(c05.pos_table, model, "C18.args-table", "C18.posonly")
    run.do(common.truth_rule, model, "C18.truth")
    from . import effects
    run.do(effects.no_memo, model, "C18.no-memo")
    from . import c17
    run.do(c17.invariant_decorator_table, model, "C18.decorator-lists")
    # ``snap.capture(**selected)`` by hand gives what the checker binds to ``OLD.<snap.name>``
    from . import c08
    run.do(c08.capture_helpers, model, "C18.capture-value")
    # what the dunders list is what is enforced: evaluating the listed contracts by hand gives the checker's verdict
    for role, ck in gates.checkers(model).items():
        for kind, depth in (("PRE", 2), ("POST", 1)):
            h = loops.helper_of(model, ck, kind)
            if h is not None:
                run.do(loops.verdict_rule, model, "C18.verdict", h[0], h[1], h[2], depth)
    run.minimum("C18.live-read", 6)
    run.minimum("C18.same-object", 5)
    run.minimum("C18.names", 6)
    run.minimum("C18.find", 2)
    run.minimum("C18.register", 2)
