"""C09 -- the ``error`` argument decides exactly what a violation raises (DESIGN.md 5/C09, table A.4)."""
import ast

from .. import tables
from ..events import fi_of_term
from ..flow import get_flow, show, strip_sites, subterms
from ..model import first_line, src_of, resolve_class
from . import kinds, loops, common, select

META = {
    "explanation": "decision tables (predicate abstraction over 7 kinds of `error` x factory result) extracted from the dispatch function and from the three decorators' validation regions, compared with table A.4 and with each other; T-identity of the raised value",
    "trusted_base": ["inspect.isfunction/ismethod, isinstance, issubclass as documented"],
    "not_decided": ["behaviour of user error factories"],
    "assumptions": ["asserts hold (their tests are pure: C15.assert-pure)"],
}

DECORATORS = ("require", "ensure", "invariant")


def dispatch_table(run, model, rule="C09.dispatch"):
    fi = loops.find_errfact(model)
    flow = get_flow(model, fi)
    run.saw(flow)
    ps = tables.paths(flow)
    cparam, mparam = fi.params[0], fi.params[1]
    E = ("attr", ("param", cparam), "error")
    gen = model.func("_represent.generate_message")

    def is_msg(t):
        """generate_message(contract=<the contract>, resolved_kwargs=<the mapping>)"""
        return t[0] == "call" and fi_of_term(model, t[1]) is gen and dict(t[3]).get("contract") == ("param", cparam) and dict(t[3]).get("resolved_kwargs") == ("param", mparam)

    def factory_call(t):
        if t[0] == "call" and t[1] == E:
            return t
        return None

    cases = []
    for k in kinds.ERROR_KINDS:
        if k in ("function", "method"):
            cases.append((k, True))
            cases.append((k, False))
        else:
            cases.append((k, None))
    for k, res_exc in cases:
        def extra(t, res_exc=res_exc):
            # isinstance(<result of the factory>, BaseException)
            if t[0] == "call" and t[1] == ("builtin", "isinstance") and len(t[2]) == 2 and factory_call(t[2][0]) is not None and t[2][1] == ("builtin", "BaseException"):
                return res_exc
            # ``exception is not None`` asserts on constructed values
            if t[0] == "op" and t[1] in ("cmp:IsNot",) and t[2][1] == ("const", "None") and t[2][0] != E:
                return True
            return None

        ev = kinds.error_atom_eval(k, E, extra)
        feas = [p for p in ps if tables.feasible(p, ev)]
        label = "error=%s%s" % (k, "" if res_exc is None else (", factory returns an exception" if res_exc else ", factory returns a non-exception"))
        construct = "%s[%s]" % (fi.qual, label)
        outs = sorted(set(tables.classify(p) for p in feas))
        if len(outs) != 1:
            unk = []
            for p in feas:
                unk += [show(strip_sites(t), 70) for t, n in tables.unknown_atoms(p, ev)]
            run.violation(rule, construct, "the outcome is not determined by the kind of `error`: possible outcomes %s (depends on %s)" % (outs, sorted(set(unk))[:3]), fi.loc(), None, label)
            continue
        out = outs[0]
        bad = None
        for p in feas:
            if out == "return":
                rt = p.outcome[1]
                if k == "none":
                    ok = rt[0] == "call" and rt[1] == ("class", "errors", "ViolationError") and len(rt[2]) + len(rt[3]) == 1 and is_msg((list(rt[2]) + [v for _, v in rt[3]])[0])
                    if not ok:
                        bad = "without `error` the result must be ViolationError(<generated message for this contract and call>), got %s" % show(strip_sites(rt), 140)
                elif k in ("function", "method"):
                    fc = factory_call(rt)
                    n_calls = sum(1 for t, n in p.calls if factory_call(t) is not None)
                    if fc is None:
                        bad = "the value returned is %s, not the object the error factory returned" % show(strip_sites(rt), 120)
                    elif n_calls != 1:
                        bad = "the error factory is called %d times on this path (expected once)" % n_calls
                    else:
                        # arguments: **select_error_kwargs(contract, mapping)
                        kw = [v for kk, v in fc[3] if kk is None]
                        sel = kw[0] if len(kw) == 1 and not fc[2] and len(fc[3]) == 1 else None
                        if not (sel and sel[0] == "call" and dict(sel[3]).get("contract") == ("param", cparam) and dict(sel[3]).get("resolved_kwargs") == ("param", mparam)):
                            bad = "the error factory is not called with exactly the keywords selected for it from this call's mapping: %s" % show(strip_sites(fc), 140)
                    if res_exc is False:
                        bad = "a non-exception result of the error factory is returned instead of raising TypeError"
                elif k == "exc_class":
                    ok = rt[0] == "call" and rt[1] == E and len(rt[2]) + len(rt[3]) == 1 and is_msg((list(rt[2]) + [v for _, v in rt[3]])[0])
                    if not ok:
                        bad = "an exception class must be instantiated with the generated message, got %s" % show(strip_sites(rt), 140)
                elif k == "exc_instance":
                    if rt != E:
                        bad = "an exception instance must be raised as that very object, got %s" % show(strip_sites(rt), 140)
                else:
                    bad = "error of kind %s yields a value (%s) instead of being rejected" % (k, show(strip_sites(rt), 100))
            else:
                want = None
                if k in ("function", "method") and res_exc is False:
                    want = "raise TypeError"
                elif k == "other_class":
                    want = "raise TypeError"
                elif k == "other":
                    want = None  # any rejection (NotImplementedError today)
                else:
                    bad = "error of kind %s ends in `%s` instead of producing the violation error" % (k, out)
                if want and out != want:
                    bad = "expected `%s`, got `%s`" % (want, out)
        run.check(bad is None, rule, construct, "single outcome `%s` as in table A.4 (%d feasible path(s))" % (out, len(feas)), bad or "", fi.loc(), None, label)


def validation_region(model, fi):
    """Paths of a decorator ``__init__`` up to the construction of its Contract/Invariant/Snapshot."""
    flow = get_flow(model, fi)
    stop = set()
    for n in flow.cfg.nodes:
        if n.ast is None or n.kind in ("def",):
            continue
        for sub in ast.walk(n.ast) if n.kind in ("stmt", "return", "test") else []:
            if isinstance(sub, ast.Call):
                c = resolve_class(model, fi, sub.func)
                if c is not None and c[0] == "_types" and c[1] in ("Contract", "Invariant", "Snapshot"):
                    stop.add(n.id)
    return flow, stop


def validate_tables(run, model, rule="C09.validate"):
    tabs = {}
    for dec in DECORATORS:
        fi = model.method("_decorators", dec, "__init__")
        flow, stop = validation_region(model, fi)
        run.saw(flow)
        if not stop:
            run.violation(rule, fi.qual, "the decorator never constructs its contract object", fi.loc())
            continue
        ps = tables.paths(flow, None, stop)
        E = ("param", "error")
        table = {}
        for k in kinds.ERROR_KINDS:
            def extra(t):
                if t == ("param", "enabled"):
                    return True
                # the coroutine-function test on the condition: a sync condition here
                if t[0] == "call" and t[1] == ("attr", ("module", "inspect"), "iscoroutinefunction"):
                    return False
                return None

            ev = kinds.error_atom_eval(k, E, extra)
            feas = [p for p in ps if tables.feasible(p, ev)]
            outs = sorted(set(tables.classify(p) for p in feas))
            table[k] = outs
            want = ["raise ValueError"] if k in ("other_class", "other") else ["reaches"]
            construct = "%s[error=%s]" % (fi.qual, k)
            if outs != want:
                unk = []
                for p in feas:
                    unk += [show(strip_sites(t), 70) for t, n in tables.unknown_atoms(p, ev)]
                run.violation(
                    rule,
                    construct,
                    "an `error` of kind %s must %s at decoration time, but the possible outcomes are %s%s" % (k, "be rejected with ValueError" if want[0].startswith("raise") else "be accepted", outs, (" (depends on %s)" % sorted(set(unk))[:2]) if len(outs) > 1 else ""),
                    fi.loc(),
                    None,
                    "error=%s" % k,
                )
            else:
                run.ok(rule, construct, "outcome %s before the contract is constructed" % outs[0], fi.loc())
        tabs[dec] = table
    # sibling cross-check
    if len(tabs) == len(DECORATORS):
        ref = tabs[DECORATORS[0]]
        for dec in DECORATORS[1:]:
            same = tabs[dec] == ref
            run.check(same, rule, "_decorators.%s.__init__~require" % dec, "validation table equals the one of `require` (sibling cross-check, 7 rows)", "validation table differs from the one of `require`: %s" % sorted((k, v, ref[k]) for k, v in tabs[dec].items() if v != ref[k]), model.method("_decorators", dec, "__init__").loc())


def base_rule(run, model, rule="C09.base"):
    cls = model.cls("errors", "ViolationError")
    bases = [src_of(b) for b in cls.bases]
    run.check("AssertionError" in bases, rule, "errors.ViolationError", "derives from AssertionError", "ViolationError derives from %s, not from AssertionError" % bases, "icontract/errors.py:%d" % cls.lineno)
    # nothing in the class overrides construction / str
    extra = [s.name for s in cls.body if isinstance(s, (ast.FunctionDef, ast.AsyncFunctionDef))]
    run.check(not extra, rule, "errors.ViolationError:body", "no method overrides the behaviour of AssertionError", "ViolationError defines %s" % extra, "icontract/errors.py:%d" % cls.lineno)


def invariant_raise_site(run, model, rule="C09.raise-site"):
    """_assert_invariant raises the dispatch result, built for its contract with {'self': instance}."""
    errfact = loops.find_errfact(model)
    n_sites = 0
    for fi in model.modules["_checkers"].funcs:
        if not fi.live:
            continue
        flow = get_flow(model, fi)
        for n in flow.cfg.nodes:
            if n.kind == "raise" and n.ast.exc is not None:
                t = flow.term(n.ast.exc, n)
                if t[0] == "call" and fi_of_term(model, t[1]) is errfact:
                    n_sites += 1
                    run.saw(flow)
                    args = dict(t[3])
                    c = args.get(errfact.params[0])
                    m = args.get(errfact.params[1])
                    okc = c is not None and c[0] == "param"
                    okm = m is not None and m[0] == "display" and m[1] == "dict" and len(m[2]) == 1 and m[2][0][0] == ("const", "'self'") and m[2][0][1][0] == "param"
                    run.check(okc and okm, rule, fi.qual, "raises the dispatch result for its own contract with {'self': <instance>}", "the invariant's error is built with %s / %s" % (show(c) if c else None, show(strip_sites(m)) if m else None), fi.loc(n), None, first_line(n.stmt))
    if n_sites == 0:
        run.violation(rule, "_checkers", "no site raises the dispatch result directly (the invariant violation is not raised)", "icontract/_checkers.py")


def run(run, model):
    run.do(dispatch_table, model)
    run.do(validate_tables, model)
    run.do(base_rule, model)
    run.do(invariant_raise_site, model)
    run.do(select.selector_rules, model, "C09.factory-args", which=("error",))
    run.do(select.introspect_rules, model, "C09.factory-args-source")
    from . import gates
    # the values produced by the dispatch reach the caller unchanged: gates of PRE / POST raise the helper's value
    for role, ck in gates.checkers(model).items():
        for kind in ("PRE", "POST"):
            evs = ck.by_kind.get(kind, [])
            for ev in evs:
                ok, detail, node = ck.gate(ev, set(), user_value=True)
                run.check(ok, "C09.raise-site", "%s:%s" % (ck.fi.qual, kind), "the wrapper raises the very value the helper returned", detail, ck.loc(node), None, first_line(node.stmt))
    run.do(gates.c08_place, model, "C09.old-for-error")
    from . import loops
    for role, ck in gates.checkers(model).items():
        for kind, depth in (("PRE", 2), ("POST", 1)):
            h = loops.helper_of(model, ck, kind)
            if h is not None:
                run.do(loops.verdict_rule, model, "C09.error-of-failed", h[0], h[1], h[2], depth)
    from . import fwd
    run.do(fwd.forwarding, model, "C09.error-forwarded", ("error",))
    run.minimum("C09.dispatch", 9, "7 kinds, factories split by result")
    run.minimum("C09.validate", 23, "3 decorators x 7 kinds + 2 sibling comparisons")
    run.minimum("C09.raise-site", 5)
