"""Gate / order / identity rules over the two checker wrappers (shared by C01, C02, C08, C14, C16, C18, C19).

All rules are phrased over resolved roles (events.py) and value terms (flow.py), never over variable names.
"""
import ast

from ..events import Summaries, WrapperRoles, call_arg_terms, find_wrappers, bind_call, fi_of_term
from ..flow import get_flow, show, strip_sites, mentions
from ..guards import GuardGraph, normal_succ, facts
from ..model import AnalysisError, first_line, src_of
from . import marker

_CACHE = {}


class Checker:
    """Analysis of one checker wrapper (sync or async)."""

    def __init__(self, model, role, region):
        self.model = model
        self.role = role
        self.region = region
        self.wr = region.wr
        self.fi = region.fi
        self.flow = self.wr.flow
        self.cfg = self.flow.cfg
        self.gg = GuardGraph(self.flow)
        self.dom = self.cfg.dominators()
        self.by_kind = {}
        for nid, evs in self.wr.events().items():
            for ev in evs:
                self.by_kind.setdefault(ev["kind"], []).append(ev)
        body_states = {}
        for k, st, n in region.event_states:
            if k == "BODY":
                body_states.setdefault(n.id, set()).add(st)
        self.reentrant_bodies = [ev for ev in self.by_kind.get("BODY", []) if body_states.get(ev["node"].id, set()) <= {"F"} and body_states.get(ev["node"].id)]
        self.checked_bodies = [ev for ev in self.by_kind.get("BODY", []) if ev not in self.reentrant_bodies]
        # helper calls by role
        self.kwargs_validator = None
        self.resolver = None
        self.resolved_validator = None
        kw = ("param", self.wr.kwarg)
        va = ("param", self.wr.vararg)
        for ev in self.by_kind.get("CALL", []):
            if ev.get("callee") is None:
                continue
            args = [t for _, t in call_arg_terms(self.flow, ev["node"], ev["call"])]
            if args == [kw] and self.kwargs_validator is None:
                self.kwargs_validator = ev
            elif kw in args and va in args and self.resolver is None:
                self.resolver = ev
        self.mapping = self.result_term(self.resolver) if self.resolver else None
        for ev in self.by_kind.get("CALL", []):
            if ev.get("callee") is None or ev is self.kwargs_validator or ev is self.resolver:
                continue
            args = [t for _, t in call_arg_terms(self.flow, ev["node"], ev["call"])]
            roles = [r for _, r, _ in ev.get("roles", [])]
            if "post" in roles and self.mapping is not None and self.mapping in args:
                self.resolved_validator = ev

    # ------------------------------------------------------------------ helpers
    def result_term(self, ev):
        t = self.flow.term(ev["call"], ev["node"])
        return ("await", t) if ev.get("awaited") else t

    def ids(self, evs):
        return set(ev["node"].id for ev in evs)

    def one(self, kind):
        evs = self.by_kind.get(kind, [])
        return evs[0] if len(evs) == 1 else None

    def loc(self, node):
        return self.fi.loc(node)

    def gate(self, ev, guarded_ids, user_value=False):
        """T-gate: returns (ok, detail, node) for 'the result of ev is tested, raised on truth, and guards guarded_ids'."""
        rt = self.result_term(ev)
        starts = normal_succ(ev["node"])
        fail_edges = self.gg.edges_where((rt, True))
        if not fail_edges:
            return False, "the value returned by %s is never tested" % show(strip_sites(self.flow.term(ev["call"].func, ev["node"]))), ev["node"]
        if not self.gg.necessary(starts, guarded_ids, (rt, False)):
            return False, "a later phase is reachable without the returned error having been found absent (the result is dropped or not tested on some path)", ev["node"]
        byid = {n.id: n for n in self.cfg.nodes}
        # presence, not truth: where the value may be the user's own exception object (``user_value``) it may be falsy
        # (``__len__`` / ``__bool__``), and a falsy error must be raised like any other.  Errors the library constructs
        # itself (TypeError(...)) are always truthy.
        for nid, kind in fail_edges if user_value else ():
            tnode = byid[nid]
            if _tests_truth_of(strip_sites(self.flow.term(tnode.ast, tnode)), strip_sites(rt)):
                return False, "the error returned by the helper is tested for TRUTH (`%s`), not for presence (`is not None`): an exception object that is falsy (it defines __len__ or __bool__) is dropped -- the violation is not raised and the call goes on" % first_line(tnode.stmt).rstrip(":"), tnode
        for nid, kind in fail_edges:
            tnode = byid[nid]
            for k, tgt in tnode.succ:
                if k != kind:
                    continue
                seen = self.gg.reach([tgt])
                if self.cfg.exit_return.id in seen:
                    return False, "after the error was found present, a normal return is still reachable (the error is not raised on every path)", tnode
                if seen & set(guarded_ids):
                    return False, "after the error was found present, a later phase is still reachable", tnode
                raises = [byid[i] for i in seen if byid[i].kind == "raise"]
                if not any(r.ast.exc is not None and self.flow.term(r.ast.exc, r) == rt for r in raises):
                    return False, "the error that is raised is not the value the helper returned", tnode
        return True, "result tested on the next branch; raised unchanged on truth; later phases only on its absence", ev["node"]


def _tests_truth_of(t, rt):
    """Does the test term ``t`` use ``rt`` as a truth value (anywhere outside an ``is [not] None`` comparison)?"""
    if t == rt:
        return True
    if t[0] == "op":
        if t[1] in ("cmp:Is", "cmp:IsNot") and len(t[2]) == 2 and t[2][0] == rt and t[2][1] == ("const", "None"):
            return False
        if t[1] in ("Not", "And", "Or"):
            return any(_tests_truth_of(x, rt) for x in t[2])
    if t[0] == "call" and t[1] == ("builtin", "bool") and len(t[2]) == 1:
        return _tests_truth_of(t[2][0], rt)
    return False


def checkers(model):
    # cached on the model object itself (an id() key could be reused by a later model)
    if "_checkers_cache" in model.__dict__:
        return model.__dict__["_checkers_cache"]
    regs = marker.regions(model)
    out = {}
    for role in ("checker[sync]", "checker[async]"):
        out[role] = Checker(model, role, regs[role])
    model.__dict__["_checkers_cache"] = out
    return out


# ====================================================================== rules
def need(run, rule, ck, kind, what):
    evs = ck.by_kind.get(kind, [])
    if len(evs) != 1:
        run.violation(rule, ck.fi.qual, "expected exactly one %s in the wrapper, found %d" % (what, len(evs)), ck.fi.loc())
        return None
    return evs[0]


def c01_gate(run, model, rule="C01.gate"):
    for role, ck in checkers(model).items():
        run.saw(ck.flow)
        pre = need(run, rule, ck, "PRE", "call evaluating the preconditions")
        if pre is None:
            continue
        if not ck.checked_bodies:
            run.violation(rule, ck.fi.qual, "no call of the decorated function on the checked branch", ck.fi.loc())
            continue
        later = ck.ids(ck.checked_bodies) | ck.ids(ck.by_kind.get("SNAP", [])) | ck.ids(ck.by_kind.get("POST", []))
        # every checked BODY / SNAP / POST is dominated by PRE
        nd = [i for i in later if pre["node"].id not in ck.dom[i]]
        if nd:
            n = [x for x in ck.cfg.nodes if x.id == nd[0]][0]
            run.violation(rule, ck.fi.qual, "a path reaches `%s` without evaluating the preconditions first" % first_line(n.stmt), ck.loc(n), None, first_line(n.stmt))
            continue
        ok, detail, node = ck.gate(pre, later, user_value=True)
        run.check(ok, rule, ck.fi.qual, detail, detail, ck.loc(node), None, first_line(node.stmt))


def c01_read_live(run, model, rule="C01.read-live", kinds=("PRE",)):
    for role, ck in checkers(model).items():
        run.saw(ck.flow)
        for kind in kinds:
            if not ck.by_kind.get(kind):
                run.violation(rule, "%s:%s" % (ck.fi.qual, kind), "no call in the wrapper hands the live `%s` list of the checker object to its evaluation (the list is cached, copied or read from elsewhere)" % {"PRE": "__preconditions__", "SNAP": "__postcondition_snapshots__", "POST": "__postconditions__"}[kind], ck.fi.loc())
            for ev in ck.by_kind.get(kind, []):
                src = ck.wr.list_source(ev["list_term"])
                ok = src == ck.wr.self_term
                run.check(
                    ok,
                    rule,
                    "%s:%s" % (ck.fi.qual, kind),
                    "the list is read from the wrapper object itself inside the activation",
                    "the %s list handed to the evaluation is read from %s, not from the checker object at call time" % (kind, show(src) if src else "an unrecognised source"),
                    ck.loc(ev["node"]),
                    None,
                    first_line(ev["node"].stmt),
                )


def c02_gate(run, model, rule="C02.gate"):
    for role, ck in checkers(model).items():
        run.saw(ck.flow)
        post = need(run, rule, ck, "POST", "call evaluating the postconditions")
        if post is None or not ck.checked_bodies:
            continue
        body = ck.checked_bodies[0]
        if len(ck.checked_bodies) != 1:
            run.violation(rule, ck.fi.qual, "expected one call of the decorated function on the checked branch, found %d" % len(ck.checked_bodies), ck.fi.loc())
            continue
        pl = post["list_term"]
        pl_e = ck.wr.summ.expand(pl)
        starts = normal_succ(body["node"])
        # (1) POST happens only if the live postconditions list is truthy
        atoms_t = [a for (a, p) in _all_facts(ck) if p and ck.wr.summ.expand(a) == pl_e]
        nec = any(ck.gg.necessary(starts, [post["node"].id], (a, True)) for a in atoms_t)
        if not nec:
            run.violation(rule, ck.fi.qual, "the postconditions are evaluated without testing that the live list is non-empty (result key would be bound although no postcondition exists)", ck.loc(post["node"]), None, first_line(post["node"].stmt))
            continue
        # (2) nothing but that guard decides whether POST runs: with the list truthy every normal path from BODY reaches POST before returning
        req = [(a, True) for a in atoms_t]
        suff = ck.gg.sufficient(starts, [post["node"].id], [ck.cfg.exit_return.id], req)
        if not suff:
            run.violation(rule, ck.fi.qual, "a normal return is reachable after the body without evaluating the postconditions although the list is non-empty (an extra guard or early return)", ck.loc(post["node"]), None, first_line(post["node"].stmt))
            continue
        # (3) the result of POST gates the return
        ok, detail, node = ck.gate(post, [ck.cfg.exit_return.id], user_value=True)
        # gate() checks that exit_return is not reachable on the fail side and that the guarded ids need the pass edge
        if not ok:
            run.violation(rule, ck.fi.qual, detail, ck.loc(node), None, first_line(node.stmt))
            continue
        # (4) "result" is bound to the BODY value in the mapping handed to POST, before POST
        bt = ck.result_term(body)
        bound = None
        for n in ck.cfg.nodes:
            if n.kind == "stmt" and isinstance(n.ast, ast.Assign):
                for tg in n.ast.targets:
                    if isinstance(tg, ast.Subscript) and ck.flow.term(tg.slice, n) == ("const", "'result'"):
                        bound = (n, ck.flow.term(tg.value, n), ck.flow.term(n.ast.value, n))
        margs = [t for _, t in call_arg_terms(ck.flow, post["node"], post["call"])]
        if bound is None:
            run.violation(rule, ck.fi.qual, "the key 'result' is never bound before the postconditions are evaluated", ck.loc(post["node"]), None, first_line(post["node"].stmt))
        elif bound[2] != bt:
            run.violation(rule, ck.fi.qual, "'result' is bound to %s, not to the value the body returned" % show(bound[2]), ck.loc(bound[0]), None, first_line(bound[0].stmt))
        elif bound[1] not in margs or bound[0].id not in ck.dom[post["node"].id]:
            run.violation(rule, ck.fi.qual, "the mapping in which 'result' is bound is not the one handed to the postcondition evaluation (or is bound after it)", ck.loc(bound[0]), None, first_line(bound[0].stmt))
        else:
            # the binding itself must be guarded by the postconditions (C02.result-only-with-post)
            nec2 = any(ck.gg.necessary(starts, [bound[0].id], (a, True)) for a in atoms_t)
            run.check(nec2, rule, ck.fi.qual, "POST guarded exactly by the live list; its result gates the return; 'result' bound to the BODY value in the same mapping", "'result' is written into the mapping even when the function has no postconditions", ck.loc(bound[0]), None, first_line(bound[0].stmt))


def _all_facts(ck):
    out = set()
    for (nid, k), (kn, atoms) in ck.gg.edge_facts.items():
        out |= kn
    return out


def c02_result_identity(run, model, rule="C02.result-identity", rule_fwd="C14.forward"):
    """Every return of every wrapper returns the value of its BODY call (modulo await); BODY gets the own args."""
    regs = marker.regions(model)
    for role, res in regs.items():
        flow = res.wr.flow
        run.saw(flow)
        bodies = [ev for evs in res.wr.events().values() for ev in evs if ev["kind"] == "BODY"]
        body_terms = set()
        for ev in bodies:
            t = flow.term(ev["call"], ev["node"])
            body_terms.add(("await", t) if ev.get("awaited") else t)
            if res.fi.is_async and not ev.get("awaited"):
                run.violation(rule, res.fi.qual, "the coroutine returned by the decorated async function is not awaited", res.fi.loc(ev["node"]), None, first_line(ev["node"].stmt))
        rets = [n for n in flow.cfg.nodes if n.kind == "return"]
        if not rets:
            run.violation(rule, res.fi.qual, "the wrapper has no return statement (the result of the body is lost)", res.fi.loc())
        # falling off the end returns None instead of the result
        for k, p in flow.cfg.exit_return.pred:
            if p.kind != "return" and not p.fin:
                run.violation(rule, res.fi.qual, "a path falls off the end of the wrapper (returns None instead of the body's result)", res.fi.loc(p), None, first_line(p.stmt) if p.stmt is not None else None)
        for n in rets:
            t = flow.term(n.ast, n) if n.ast is not None else ("const", "None")
            ok = t in body_terms
            run.check(
                ok,
                rule,
                "%s:return@%s" % (res.fi.qual, _ret_ordinal(flow, n)),
                "returns the very value produced by the call of the decorated function",
                "returns %s, which is not the value produced by the call of the decorated function (copy, conversion or other value)" % show(t),
                res.fi.loc(n),
                None,
                first_line(n.stmt),
            )
        for ev in bodies:
            run.check(
                ev.get("own_args") or (role == "inv[init]" and _object_init_exception(model, res, ev)),
                rule_fwd,
                "%s:body@%s" % (res.fi.qual, _ev_ordinal(bodies, ev)),
                "the decorated function receives exactly the wrapper's own *args, **kwargs",
                "the decorated function is not called with the wrapper's own *args/**kwargs objects: %s" % first_line(ev["call"]),
                res.fi.loc(ev["node"]),
                None,
                first_line(ev["node"].stmt),
            )


def object_init_args(run, model, rule="C14.object-init-args"):
    """A class with invariants and no ``__init__`` of its own gets the wrapper of ``object.__init__`` as ``__init__``.
    ``object.__init__`` tolerates constructor arguments only while the class overrides ``__new__`` and *not*
    ``__init__`` -- and the wrapper counts as an override.  So the wrapper must not pass the arguments on in that case,
    or a subclass that merely adds ``__new__(cls, x)`` can no longer be instantiated."""
    regs = marker.regions(model)
    res = regs["inv[init]"]
    run.saw(res.wr.flow)
    bodies = [ev for evs in res.wr.events().values() for ev in evs if ev["kind"] == "BODY"]
    ok = bool(bodies) and all(_object_init_exception(model, res, ev) for ev in bodies)
    run.check(ok, rule, res.fi.qual, "where the wrapped constructor is object.__init__ and the class overrides __new__, only the instance is passed on", "the wrapper installed in place of `object.__init__` forwards the constructor's arguments unconditionally: `object.__init__` rejects them because the wrapper counts as an override of `__init__` -- a subclass of a class with invariants that defines only `__new__(cls, x)` fails with TypeError on instantiation, although the same hierarchy without invariants works", res.fi.loc(bodies[0]["node"]) if bodies else res.fi.loc(), None, first_line(bodies[0]["node"].stmt) if bodies else None)


def _object_init_exception(model, res, ev):
    """The one permitted deviation from "the constructor receives the wrapper's own arguments": where the wrapped
    constructor is ``object.__init__`` itself and the class of the instance overrides ``__new__``, only the instance is
    passed on -- ``object.__init__`` ignores the arguments of the constructor as long as ``__init__`` is not overridden,
    and the wrapper counts as an override (a subclass defining only ``__new__(cls, x)`` must stay instantiable)."""
    from ..guards import GuardGraph
    from ..flow import subterms as _subterms

    flow = res.wr.flow
    call = ev["call"]
    if not (len(call.args) == 1 and isinstance(call.args[0], ast.Starred) and len(call.keywords) == 1 and call.keywords[0].arg is None):
        return False
    at = strip_sites(flow.term(call.args[0].value, ev["node"]))
    kt = strip_sites(flow.term(call.keywords[0].value, ev["node"]))
    if at[0] != "phi" or kt[0] != "phi" or len(at[1]) != 2 or len(kt[1]) != 2:
        return False
    own_a, own_k = ("param", res.wr.vararg), ("param", res.wr.kwarg)
    if own_a not in at[1] or own_k not in kt[1]:
        return False
    alt_a = [x for x in at[1] if x != own_a][0]
    alt_k = [x for x in kt[1] if x != own_k][0]
    if not (alt_a[0] == "display" and alt_a[1] == "tuple" and len(alt_a[2]) == 1 and marker._is_instance_term(model, res, alt_a[2][0])):
        return False
    if not (alt_k[0] == "display" and alt_k[1] == "dict" and not alt_k[2]):
        return False
    inst = alt_a[2][0]
    gg = GuardGraph(flow)
    stores = [n for n in flow.cfg.nodes if n.kind == "stmt" and isinstance(n.ast, (ast.Assign, ast.AugAssign, ast.AnnAssign)) and any(isinstance(x, ast.Name) and isinstance(x.ctx, ast.Store) and x.id in (res.wr.vararg, res.wr.kwarg) for x in ast.walk(n.ast))]
    if not stores:
        return False
    for n in stores:
        is_obj_init = new_overridden = False
        for (nid, k), (kn, atoms) in gg.edge_facts.items():
            for a, pol in kn:
                if not gg.necessary([flow.cfg.entry], [n.id], (a, pol)):
                    continue
                ts = strip_sites(a)
                if ts[0] == "op" and ts[1] in ("cmp:Eq", "cmp:Is") and pol and res.wr.is_func_param(ts[2][0]) and ts[2][1] == ("attr", ("builtin", "object"), "__init__"):
                    is_obj_init = True
                if ts[0] == "op" and ts[1] in ("cmp:Is", "cmp:Eq") and not pol and ts[2][1] == ("attr", ("builtin", "object"), "__new__") and ts[2][0][0] == "attr" and ts[2][0][2] == "__new__" and any(s_ == inst for s_ in _subterms(ts[2][0])):
                    new_overridden = True
        if not (is_obj_init and new_overridden):
            return False
    return True


def _ret_ordinal(flow, n):
    rets = sorted([x for x in flow.cfg.nodes if x.kind == "return" and not x.fin], key=lambda x: (x.lineno, x.id))
    return rets.index(n) if n in rets else "f"


def _ev_ordinal(evs, ev):
    return sorted(evs, key=lambda e: e["line"]).index(ev)


def c02_exc_transparent(run, model, rule="C02.exc-transparent"):
    regs = marker.regions(model)
    for role, res in regs.items():
        flow = res.wr.flow
        events = res.wr.events()
        run.saw(flow)
        for nid, evs in events.items():
            for ev in evs:
                if ev["kind"] != "BODY":
                    continue
                n = ev["node"]
                bad = None
                for tr, part in n.in_try:
                    if part == "body" and tr.handlers:
                        for h in tr.handlers:
                            if not _handler_only_reraises(h):
                                bad = (h, "the call of the decorated function is inside a try whose `except %s` handler does not simply re-raise: the body's exception would be replaced or swallowed" % (src_of(h.type) if h.type else ""))
                    if part == "body" and tr.finalbody:
                        for s in tr.finalbody:
                            for sub in ast.walk(s):
                                if isinstance(sub, (ast.Return, ast.Break, ast.Continue)):
                                    bad = (sub, "`%s` inside the finally that encloses the body call discards the body's exception" % first_line(sub))
                if bad is None:
                    # no contract evaluation on the exceptional continuation of BODY
                    for k, tgt in n.succ:
                        if k == "exc":
                            seen = flow.cfg.reachable_from(tgt)
                            for i in seen:
                                for ev2 in events.get(i, []):
                                    if ev2["kind"] in ("POST", "INV", "PRE", "SNAP"):
                                        bad = (ev2["node"].stmt, "%s is evaluated on the exceptional continuation of the body" % ev2["kind"])
                            if flow.cfg.exit_return.id in seen:
                                bad = bad or (n.stmt, "a normal return is reachable after the body raised (the exception is swallowed)")
                if bad:
                    run.violation(rule, res.fi.qual, bad[1], res.fi.loc(bad[0]), None, first_line(bad[0]))
                else:
                    run.ok(rule, "%s:body@%s" % (res.fi.qual, n.lineno if False else _ev_ordinal([e for es in events.values() for e in es if e["kind"] == "BODY"], ev)), "exception edge of BODY leads to the exceptional exit through marker give-backs only", res.fi.loc(n))


def _handler_only_reraises(h):
    """``except X [as e]: raise`` / ``raise e`` -- behaviour preserving."""
    body = [s for s in h.body if not (isinstance(s, ast.Expr) and isinstance(s.value, ast.Constant))]
    if len(body) != 1 or not isinstance(body[0], ast.Raise):
        return False
    r = body[0]
    if r.exc is None:
        return True
    return isinstance(r.exc, ast.Name) and r.exc.id == h.name and r.cause is None


def c08_place(run, model, rule="C08.place"):
    for role, ck in checkers(model).items():
        run.saw(ck.flow)
        snap = need(run, rule, ck, "SNAP", "call capturing the snapshots")
        pre = ck.one("PRE")
        if snap is None or pre is None or not ck.checked_bodies:
            continue
        bodies = ck.checked_bodies  # more than one when a fast path calls the function on its own
        sn = snap["node"]
        # dominated by PRE, before BODY, never after BODY
        if pre["node"].id not in ck.dom[sn.id]:
            run.violation(rule, ck.fi.qual, "the snapshots can be captured without the preconditions having been evaluated", ck.loc(sn), None, first_line(sn.stmt))
            continue
        after_body = set()
        for body in bodies:
            after_body |= ck.gg.reach(normal_succ(body["node"]))
        if sn.id in after_body:
            run.violation(rule, ck.fi.qual, "the snapshots are captured after the body ran", ck.loc(sn), None, first_line(sn.stmt))
            continue
        after_snap = ck.gg.reach(normal_succ(sn))
        if not any(body["node"].id in after_snap for body in bodies):
            run.violation(rule, ck.fi.qual, "the body does not follow the capture", ck.loc(sn), None, first_line(sn.stmt))
            continue
        if pre["node"].id in after_snap:
            run.violation(rule, ck.fi.qual, "preconditions are evaluated after the capture", ck.loc(sn), None, first_line(sn.stmt))
            continue
        # guard: exactly (postconditions truthy AND snapshots truthy), both live lists
        starts = normal_succ(pre["node"])
        pl = [ev["list_term"] for ev in ck.by_kind.get("POST", [])]
        sl = snap["list_term"]
        exp = ck.wr.summ.expand
        facts_all = _all_facts(ck)
        post_atoms = [a for (a, p) in facts_all if p and pl and exp(a) == exp(pl[0])]
        snap_atoms = [a for (a, p) in facts_all if p and exp(a) == exp(sl)]
        nec_post = any(ck.gg.necessary(starts, [sn.id], (a, True)) for a in post_atoms)
        nec_snap = any(ck.gg.necessary(starts, [sn.id], (a, True)) for a in snap_atoms)
        if not nec_post:
            run.violation(rule, ck.fi.qual, "the capture is not guarded by the presence of postconditions (snapshots would be captured for a function without postconditions)", ck.loc(sn), None, first_line(sn.stmt))
            continue
        if not nec_snap and False:
            pass
        # sufficiency: given the pre-gate passed, postconditions and snapshots truthy => SNAP before BODY
        rt = ck.result_term(pre)
        req = [(a, True) for a in post_atoms + snap_atoms] + [(rt, False)]
        for ev in [ck.kwargs_validator, ck.resolved_validator]:
            if ev is not None:
                req.append((ck.result_term(ev), False))
        suff = ck.gg.sufficient(starts, [sn.id], [body["node"].id for body in bodies], req)
        if not suff:
            run.violation(
                rule,
                ck.fi.qual,
                "with postconditions and snapshots present and the preconditions satisfied, the body can still be reached without capturing (the capture depends on an additional condition)",
                ck.loc(sn),
                None,
                first_line(sn.stmt),
            )
            continue
        # the Old is stored under "OLD" in the mapping handed to POST
        st = sn.ast
        stored = None
        if isinstance(st, ast.Assign) and len(st.targets) == 1 and isinstance(st.targets[0], ast.Subscript):
            tg = st.targets[0]
            if ck.flow.term(tg.slice, sn) == ("const", "'OLD'"):
                stored = ck.flow.term(tg.value, sn)
        post = ck.one("POST")
        margs = [t for _, t in call_arg_terms(ck.flow, post["node"], post["call"])] if post else []
        if stored is None:
            # the captured value may be bound by a later statement
            val = ck.result_term(snap)
            for n in ck.cfg.nodes:
                if n.kind == "stmt" and isinstance(n.ast, ast.Assign):
                    for tg in n.ast.targets:
                        if isinstance(tg, ast.Subscript) and ck.flow.term(tg.slice, n) == ("const", "'OLD'") and ck.flow.term(n.ast.value, n) == val:
                            stored = ck.flow.term(tg.value, n)
        if stored is None or stored not in margs:
            run.violation(rule, ck.fi.qual, "the captured values are not bound to 'OLD' in the mapping the postconditions (and error factories) receive", ck.loc(sn), None, first_line(sn.stmt))
            continue
        run.ok(rule, ck.fi.qual, "capture dominated by the precondition gate, guarded exactly by live postconditions and snapshots, precedes the body, bound to 'OLD' in the POST mapping", ck.loc(sn))


def _raises_itself(model, ev):
    """The validating helper returns nothing (every return is None) and has a ``raise``: its verdict is the raise,
    there is no returned error for the wrapper to test (the helper's own decision table is checked by C19's tables)."""
    h = ev.get("callee")
    if h is None or not hasattr(h, "node"):
        return False
    rets = [x for x in ast.walk(h.node) if isinstance(x, ast.Return)]
    if any(x.value is not None and not (isinstance(x.value, ast.Constant) and x.value.value is None) for x in rets):
        return False
    return any(isinstance(x, ast.Raise) for x in ast.walk(h.node))


def _skipped_only_when_no_kwargs(ck, ev_node, target_id):
    """Every path to ``target_id`` that does not pass ``ev_node`` takes an edge on which the wrapper's ``**kwargs`` is
    known to be empty: a validation of the keyword names that is skipped for a call without keywords skips nothing."""
    if ck.wr.kwarg is None:
        return False
    atoms = [a for (nid, k), (kn, _at) in ck.gg.edge_facts.items() for a, pol in kn if strip_sites(a) == ("param", ck.wr.kwarg)]
    drop = set()
    for a in atoms:
        drop |= set(ck.gg.edges_where((a, False)))
    if not drop:
        return False
    seen = ck.gg.reach([ck.cfg.entry], lambda n, k, t: t.id == ev_node.id or (n.id, k) in drop, None, False)
    return target_id not in seen


def c19_reserved_call(run, model, rule="C19.reserved-call"):
    for role, ck in checkers(model).items():
        run.saw(ck.flow)
        ev = ck.kwargs_validator
        if ev is None:
            run.violation(rule, ck.fi.qual, "the wrapper does not validate its keyword arguments for the reserved names", ck.fi.loc())
            continue
        # first event of the wrapper: nothing else (marker, resolver, contract, body) before it
        others = set()
        for nid, evs in ck.wr.events().items():
            for e in evs:
                if e is not ev and e["kind"] not in ("TEST",):
                    others.add(e["node"].id)
        after_ev = ck.gg.reach(normal_succ(ev["node"]))
        before = [i for i in others if i not in after_ev or (ev["node"].id not in ck.dom[i] and not _skipped_only_when_no_kwargs(ck, ev["node"], i))]
        before = [i for i in before if i != ev["node"].id]
        if before:
            n = [x for x in ck.cfg.nodes if x.id == before[0]][0]
            run.violation(rule, ck.fi.qual, "`%s` can run before (or without) the validation of the reserved keyword names" % first_line(n.stmt), ck.loc(n), None, first_line(n.stmt))
            continue
        if _raises_itself(model, ev):
            run.ok(rule, ck.fi.qual, "first node of the wrapper; the validator raises the TypeError itself (it returns nothing to test)", ck.loc(ev["node"]))
            continue
        ok, detail, node = ck.gate(ev, others - {ev["node"].id})
        run.check(ok, rule, ck.fi.qual, "first node of the wrapper; " + detail, detail, ck.loc(node), None, first_line(node.stmt))


def c19_result_old(run, model, rule="C19.result-old"):
    for role, ck in checkers(model).items():
        run.saw(ck.flow)
        ev = ck.resolved_validator
        pre = ck.one("PRE")
        if ev is None:
            run.violation(rule, ck.fi.qual, "the resolved arguments are not validated against the reserved names 'result'/'OLD' with the live postconditions", ck.fi.loc())
            continue
        later = ck.ids(ck.checked_bodies) | ck.ids(ck.by_kind.get("SNAP", [])) | ck.ids(ck.by_kind.get("POST", [])) | (ck.ids([pre]) if pre else set())
        nd = [i for i in later if ev["node"].id not in ck.dom[i]]
        if nd:
            n = [x for x in ck.cfg.nodes if x.id == nd[0]][0]
            run.violation(rule, ck.fi.qual, "`%s` is reachable without the validation of 'result'/'OLD'" % first_line(n.stmt), ck.loc(n), None, first_line(n.stmt))
            continue
        # it must receive the resolved mapping (not the raw kwargs) and the live postconditions
        args = [t for _, t in call_arg_terms(ck.flow, ev["node"], ev["call"])]
        if ck.mapping not in args:
            run.violation(rule, ck.fi.qual, "the validation does not receive the resolved mapping of the call", ck.loc(ev["node"]), None, first_line(ev["node"].stmt))
            continue
        if _raises_itself(model, ev):
            run.ok(rule, ck.fi.qual, "validated on the resolved mapping with the live postconditions before the preconditions; the validator raises the TypeError itself", ck.loc(ev["node"]))
            continue
        ok, detail, node = ck.gate(ev, later)
        run.check(ok, rule, ck.fi.qual, "validated on the resolved mapping with the live postconditions before the preconditions; " + detail, detail, ck.loc(node), None, first_line(node.stmt))


def c16_phases(run, model, rule="C16.phases"):
    """Order chain: kwargs validation < resolver < reserved-name validation < PRE < SNAP < BODY < POST."""
    for role, ck in checkers(model).items():
        run.saw(ck.flow)
        chain = []
        for name, ev in (("kwargs-validation", ck.kwargs_validator), ("resolver", ck.resolver), ("result/OLD-validation", ck.resolved_validator), ("PRE", ck.one("PRE")), ("SNAP", ck.one("SNAP")), ("BODY", ck.checked_bodies[0] if len(ck.checked_bodies) == 1 else None), ("POST", ck.one("POST"))):
            if ev is None:
                run.violation(rule, ck.fi.qual, "phase %s not found in the wrapper" % name, ck.fi.loc())
                chain = None
                break
            chain.append((name, ev))
        if not chain:
            continue
        bad = None
        for (n1, e1), (n2, e2) in zip(chain, chain[1:]):
            a, b = e1["node"], e2["node"]
            fwd = ck.gg.reach(normal_succ(a))
            back = ck.gg.reach(normal_succ(b))
            if b.id not in fwd or a.id in back:
                bad = (n1, n2, b)
                break
            # unconditional phases must dominate the following ones
            if n1 not in ("SNAP",) and a.id not in ck.dom[b.id] and not (n1 == "kwargs-validation" and _skipped_only_when_no_kwargs(ck, a, b.id)):
                bad = (n1, n2, b)
                break
        if bad:
            run.violation(rule, ck.fi.qual, "phase %s does not precede phase %s on every path" % (bad[0], bad[1]), ck.loc(bad[2]), None, first_line(bad[2].stmt))
        else:
            run.ok(rule, ck.fi.qual, "order " + " < ".join(n for n, _ in chain) + " holds on every path")


def c05_select_mapping(run, model, rule="C05.identity"):
    """The mapping handed to PRE / SNAP / POST is the resolver's result for this call (same object)."""
    for role, ck in checkers(model).items():
        run.saw(ck.flow)
        if ck.resolver is None:
            run.violation(rule, ck.fi.qual, "the wrapper does not resolve the call's arguments from its own *args/**kwargs", ck.fi.loc())
            continue
        for kind in ("PRE", "SNAP", "POST"):
            for ev in ck.by_kind.get(kind, []):
                args = [t for _, t in call_arg_terms(ck.flow, ev["node"], ev["call"])]
                run.check(
                    ck.mapping in args,
                    rule,
                    "%s:%s-mapping" % (ck.fi.qual, kind),
                    "%s receives the mapping resolved from this call's own arguments" % kind,
                    "%s does not receive the mapping resolved from this call's arguments" % kind,
                    ck.loc(ev["node"]),
                    None,
                    first_line(ev["node"].stmt),
                )
