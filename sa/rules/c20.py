"""C20 -- violation messages are deterministic and bounded (DESIGN.md 5/C20)."""
from . import effects, msg

META = {
    "explanation": "order taint: every loop whose order reaches the message iterates a sorted() value; every interpolated value passes through the contract's own a_repr; decision table of the representability filter and of the _ARGS/_KWARGS hiding; effect analysis: no run-dependent source and no state kept between messages in the call-graph closure of generate_message",
    "trusted_base": ["reprlib.Repr size limits and its sorted rendering of sets/dicts"],
    "not_decided": ["address-bearing user reprs", "reprlib truncation arithmetic"],
    "assumptions": [],
}


def run(run, model):
    run.do(msg.sorted_rule, model)
    run.do(msg.a_repr_rule, model)
    run.do(msg.default_repr, model)
    run.do(msg.filter_rule, model)
    run.do(msg.args_listed, model, "C20.filter-args")
    run.do(msg.hide_placeholders, model)
    run.do(msg.no_nondeterminism, model)
    run.do(effects.no_memo, model, "C20.no-memo")
    run.do(effects.frozen_after_init, model, "C20.no-history")
    from . import fwd
    run.do(fwd.forwarding, model, "C20.a-repr-forwarded", ("a_repr",))
    from . import rec
    run.do(rec.repr_coupling, model, "C20.filter-names")
    # what the message shows must not depend on whether a variable happens to be None
    run.do(rec.comprehension_env, model, "C20.comprehension-env")
    run.do(rec.scope_restore, model, "C20.scope-restore")
    run.minimum("C20.sorted", 2)  # the two sorted walks (shown values, call arguments); the walk over the inputs of a failed quantifier may be a comprehension
    run.minimum("C20.a-repr", 8)
    run.minimum("C20.filter", 5)
    run.minimum("C20.no-nondeterminism", 20)
