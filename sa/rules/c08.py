"""C08 -- OLD snapshots: once, after preconditions, before the body (DESIGN.md 5/C08, table A.5)."""
import ast

from .. import tables
from ..events import calls_in, fi_of_term
from ..flow import get_flow, show, strip_sites, subterms
from ..guards import GuardGraph, normal_succ
from ..model import first_line, src_of
from . import gates, loops, common, meta

META = {
    "explanation": "T-order/T-gate of the capture inside both checker wrappers (dominance, guard necessity and sufficiency on the live lists); T-iter-all over both capture helpers with storage provenance; decision tables of the definition-time validations (table A.5)",
    "trusted_base": ["dict semantics of the per-call mapping"],
    "not_decided": ["what a capture function returns for given arguments"],
    "assumptions": [],
}


def capture_helpers(run, model, rule="C08.once"):
    for role, ck in gates.checkers(model).items():
        h = loops.helper_of(model, ck, "SNAP")
        if h is None:
            continue
        fi, lp, mp = h
        res = loops.analyse_iter_all(run, rule, model, fi, lp, mp, "capture", 1)
        if res is None:
            continue
        hl, outer, inner, target = res
        flow = hl.flow
        # the captured value (modulo await) is stored under <target>.name in one mapping, which becomes the Old
        stores = []
        for n in flow.cfg.nodes:
            if n.kind == "stmt" and isinstance(n.ast, ast.Assign):
                for tg in n.ast.targets:
                    if isinstance(tg, ast.Subscript):
                        stores.append((n, flow.term(tg.value, n), flow.term(tg.slice, n), flow.term(n.ast.value, n)))
        bad = None
        if not stores:
            bad = (fi.node, "the captured values are never stored")
        maps = set(m for _, m, _, _ in stores)
        for n, m, key, val in stores:
            if key != ("attr", target, "name"):
                bad = (n, "the captured value is stored under %s, not under the name of the snapshot being captured" % show(key))
            alts = val[1] if val[0] == "phi" else (val,)
            for a in alts:
                a2 = a[1] if a[0] == "await" else a
                if not (a2[0] == "call" and a2[1] == ("attr", target, "capture")):
                    bad = (n, "the stored value %s is not the result of the capture function of the snapshot being captured" % show(strip_sites(a), 100))
        if len(maps) > 1:
            bad = (stores[0][0], "captured values are stored into different mappings")
        # returned: Old(mapping=<that mapping>)
        rets = [n for n in flow.cfg.nodes if n.kind == "return"]
        for r in rets:
            rt = flow.term(r.ast, r) if r.ast is not None else ("const", "None")
            ok = rt[0] == "call" and rt[1] == ("class", "_checkers", "Old") and maps and list(maps)[0] in ([v for _, v in rt[3]] + list(rt[2]))
            if not ok:
                bad = (r, "the helper returns %s, not the OLD container built from the captured values" % show(strip_sites(rt), 100))
        # select_capture_kwargs for the same snapshot on the same mapping
        for n, call, aw, recv in hl.user:
            kws = [kw for kw in call.keywords if kw.arg is None]
            sel = flow.term(kws[0].value, n) if len(kws) == 1 and not call.args and len(call.keywords) == 1 else None
            ok = sel is not None and sel[0] == "call" and fi_of_term(model, sel[1]) is model.func("_checkers.select_capture_kwargs") and target in [v for _, v in sel[3]] and ("param", mp) in [v for _, v in sel[3]]
            if not ok:
                bad = (n, "the capture function is not called with exactly the keywords selected for this snapshot from the call's mapping")
        if bad:
            run.violation(rule, fi.qual + ":store", bad[1], fi.loc(bad[0]), None, first_line(bad[0]) if not isinstance(bad[0], (ast.FunctionDef, ast.AsyncFunctionDef)) else None)
        else:
            run.ok(rule, fi.qual + ":store", "each capture result is stored under its snapshot's name in one mapping, returned as Old(mapping)", fi.loc())


def define_tables(run, model, rule="C08.define"):
    # ---- Snapshot.__init__
    fi = model.method("_types", "Snapshot", "__init__")
    flow = get_flow(model, fi)
    run.saw(flow)
    ps = tables.paths(flow)
    ARGS = None
    for p in ps:
        for t, pol, n in p.decisions:
            for s in subterms(t):
                if s[0] == "call" and s[1] == ("builtin", "len") and len(s[2]) == 1:
                    ARGS = s[2][0]
    # the count is taken over ALL parameters of the capture function (a defaulted parameter is still a parameter)
    from . import select as _select

    counted = _select._names_of(strip_sites(ARGS)) if ARGS is not None else None
    run.check(counted == ("param", "capture"), rule, fi.qual + ":counted-parameters", "the name is inferred from the full parameter list of the capture function", "whether a snapshot must be named is decided over %s, not over all the parameters of the capture function" % (show(strip_sites(ARGS), 80) if ARGS is not None else "nothing"), fi.loc())
    for name_kind in ("none", "given"):
        for nargs in (0, 1, 2):
            def ev(t, name_kind=name_kind, nargs=nargs):
                if t[0] == "op" and t[1].startswith("cmp:") and len(t[2]) == 2:
                    op = t[1][4:]
                    l, r = t[2]
                    if l == ("param", "name") and r == ("const", "None"):
                        return (name_kind == "none") if op in ("Is", "Eq") else ((name_kind != "none") if op in ("IsNot", "NotEq") else None)
                    if l[0] == "call" and l[1] == ("builtin", "len") and l[2] and l[2][0] == ARGS and r[0] == "const":
                        try:
                            c = int(r[1])
                        except Exception:
                            return None
                        # nargs 2 stands for "two or more"
                        table = {"Eq": lambda a: a == c if not (nargs == 2 and c >= 2) else None, "NotEq": lambda a: a != c if not (nargs == 2 and c >= 2) else None,
                                 "Gt": lambda a: a > c if not (nargs == 2 and c >= 2) else None, "GtE": lambda a: a >= c if not (nargs == 2 and c > 2) else None,
                                 "Lt": lambda a: a < c if not (nargs == 2 and c > 2) else None, "LtE": lambda a: a <= c if not (nargs == 2 and c >= 2) else None}
                        if op in table:
                            return table[op](nargs)
                    if l[0] == "idx" and r == ("const", "None") and op == "IsNot":
                        return True
                if t == ARGS:
                    return nargs > 0
                if t == ("op", "Not", (ARGS,)):
                    return nargs == 0
                return None

            feas = [p for p in ps if tables.feasible(p, ev)]
            outs = sorted(set(tables.classify(p) for p in feas))
            construct = "%s[name %s, %s capture parameter(s)]" % (fi.qual, name_kind, {0: "no", 1: "one", 2: "several"}[nargs])
            if name_kind == "none" and nargs != 1:
                want = ["raise ValueError"]
            else:
                want = ["return"]
            if outs != want:
                run.violation(rule, construct, "expected %s, possible outcomes are %s" % (want, outs), fi.loc(), None, construct.split("[", 1)[1])
                continue
            if want == ["return"]:
                bad = None
                for p in feas:
                    names = [v for t, v, n in p.stores if t == ("attr", ("param", "self"), "name")]
                    if name_kind == "given":
                        if names[-1:] != [("param", "name")]:
                            bad = "a given name is not used as the snapshot's name (stored: %s)" % [show(x) for x in names]
                    else:
                        if not (names and names[-1][0] == "idx" and names[-1][1] == ARGS and names[-1][2] == ("const", "0")):
                            bad = "the unnamed single-parameter capture is not named after that parameter (stored: %s)" % [show(x) for x in names]
                run.check(bad is None, rule, construct, "accepted; name bound as documented", bad or "", fi.loc())
            else:
                run.ok(rule, construct, "rejected with ValueError", fi.loc())
    # ---- snapshot.__call__
    fi = model.method("_decorators", "snapshot", "__call__")
    flow = get_flow(model, fi)
    run.saw(flow)
    ps = tables.paths(flow)
    fp = fi.params[1]
    finder = model.func("_checkers.find_checker")
    adder = model.func("_checkers.add_snapshot_to_checker")

    def is_found(t):
        return t[0] == "call" and fi_of_term(model, t[1]) is finder

    for ck_kind in ("none", "no-postconditions", "with-postconditions"):
        def ev(t, ck_kind=ck_kind):
            if t == ("attr", ("param", "self"), "enabled"):
                return True
            if t[0] == "op" and t[1].startswith("cmp:") and len(t[2]) == 2 and is_found(t[2][0]) and t[2][1] == ("const", "None"):
                isnone = ck_kind == "none"
                return isnone if t[1][4:] in ("Is", "Eq") else (not isnone)
            if is_found(t):
                return ck_kind != "none"
            if t[0] == "attr" and is_found(t[1]) and t[2] == "__postconditions__":
                return None if ck_kind == "none" else ck_kind == "with-postconditions"
            if t[0] == "call" and t[1] == ("builtin", "len") and t[2] and t[2][0][0] == "attr" and t[2][0][2] == "__postconditions__":
                return None
            if t[0] == "op" and t[1] == "cmp:IsNot" and t[2][1] == ("const", "None"):
                return True
            return None

        feas = [p for p in ps if tables.feasible(p, ev)]
        outs = sorted(set(tables.classify(p) for p in feas))
        construct = "%s[checker %s]" % (fi.qual, ck_kind)
        want = ["return"] if ck_kind == "with-postconditions" else ["raise ValueError"]
        if outs != want:
            run.violation(rule, construct, "a snapshot on a function whose checker is `%s` must %s; possible outcomes: %s" % (ck_kind, "be accepted" if want == ["return"] else "be rejected with ValueError", outs), fi.loc(), None, ck_kind)
            continue
        if want == ["return"]:
            bad = None
            for p in feas:
                adds = [t for t, n in p.calls if fi_of_term(model, t[1]) is adder]
                if len(adds) != 1:
                    bad = "the snapshot is added %d times to the checker" % len(adds)
                else:
                    a = dict(adds[0][3])
                    if not is_found(a.get("checker", ("x",))) or a.get("snapshot") != ("attr", ("param", "self"), "_snapshot"):
                        bad = "the snapshot is not added to the checker found on the decorated function's stack"
                if p.outcome[1] != ("param", fp):
                    bad = "the decorator returns %s, not the function it was given" % show(strip_sites(p.outcome[1]))
            run.check(bad is None, rule, construct, "snapshot added once to the found checker; returns the given function", bad or "", fi.loc())
        else:
            run.ok(rule, construct, "rejected with ValueError", fi.loc())
    # ---- add_snapshot_to_checker: equal names raise ValueError
    fi = model.func("_checkers.add_snapshot_to_checker")
    flow = get_flow(model, fi)
    run.saw(flow)
    gg = GuardGraph(flow)
    cp, sp = fi.params[0], fi.params[1]
    lst = ("attr", ("param", cp), "__postcondition_snapshots__")
    heads = [n for n in flow.cfg.nodes if n.kind == "next" and any(p.kind == "iter" and flow.term(p.ast, p) == lst for _, p in n.pred)]
    ok = False
    detail = "no loop over the checker's snapshots compares the names"
    if heads:
        el = ("elem", lst)
        eq = ("op", "cmp:Eq", (("attr", el, "name"), ("attr", ("param", sp), "name")))
        eq2 = ("op", "cmp:Eq", (("attr", ("param", sp), "name"), ("attr", el, "name")))
        for n in flow.cfg.nodes:
            if n.kind == "test" and flow.term(n.ast, n) in (eq, eq2):
                for k, tgt in n.succ:
                    if k == "T":
                        seen = gg.reach([tgt], None, None, follow_exc=False)
                        rs = [x for x in flow.cfg.nodes if x.id in seen and x.kind == "raise"]
                        if rs and flow.cfg.exit_return.id not in seen and all(tables.exc_name(flow.term(x.ast.exc, x)) == "ValueError" for x in rs):
                            ok = True
                        else:
                            detail = "equal snapshot names do not end in ValueError on every path"
    run.check(ok, rule, fi.qual + "[equal name]", "a snapshot whose name equals one already on the checker raises ValueError", detail, fi.loc())


def old_rules(run, model, rule="C08.old"):
    cls = model.cls("_checkers", "Old")
    ga = model.method("_checkers", "Old", "__getattr__", required=False)
    if ga is None:
        run.violation(rule, "_checkers.Old.__getattr__", "Old has no __getattr__: reading a name that was never captured gives a bare AttributeError without explanation", "icontract/_checkers.py:%d" % cls.lineno)
    else:
        flow = get_flow(model, ga)
        run.saw(flow)
        ps = tables.paths(flow)
        outs = sorted(set(tables.classify(p) for p in ps))
        run.check(outs == ["raise AttributeError"], rule, ga.qual, "unconditionally raises AttributeError", "possible outcomes: %s (expected only `raise AttributeError`)" % outs, ga.loc())
    ini = model.method("_checkers", "Old", "__init__")
    flow = get_flow(model, ini)
    run.saw(flow)
    ok = False
    for n in flow.cfg.nodes:
        for call, cond, aw in calls_in(n):
            t = flow.term(call, n)
            if t[0] == "call" and t[1] == ("attr", ("attr", ("param", "self"), "__dict__"), "update") and t[2] == (("param", ini.params[1]),):
                ok = True
    run.check(ok, rule, ini.qual, "stores the captured mapping in the instance __dict__", "the captured mapping is not stored in the instance __dict__ (OLD.<name> would not find the values)", ini.loc())
    extra = [s.name for s in cls.body if isinstance(s, (ast.FunctionDef, ast.AsyncFunctionDef)) and s.name in ("__getattribute__", "__setattr__")]
    run.check(not extra, rule, "_checkers.Old:body", "no attribute interception besides __getattr__", "Old defines %s" % extra, "icontract/_checkers.py:%d" % cls.lineno)


def run(run, model):
    run.do(gates.c08_place, model)
    run.do(gates.c01_gate, model, "C08.after-pre-gate")
    from . import twins
    run.do(twins.helper_dispatch, model, "C08.capture-dispatch", "C08.capture-sync-reject")
    # error factories see OLD: the error of a violated postcondition is built from the mapping that holds it
    for role, ck in gates.checkers(model).items():
        h = loops.helper_of(model, ck, "POST")
        if h is not None:
            run.do(loops.verdict_rule, model, "C08.old-for-error", h[0], h[1], h[2], 1)
    run.do(gates.c01_read_live, model, "C08.read-live", ("SNAP",))
    run.do(capture_helpers, model)
    run.do(define_tables, model)
    run.do(old_rules, model)
    run.do(common.append_rules, model, "C08.append", which=("snap",))
    run.do(meta.snapshot_provenance, model, "C08.inherit")
    run.minimum("C08.place", 2)
    run.minimum("C08.once", 4)
    run.minimum("C08.define", 10)
    run.minimum("C08.old", 3)
