"""C03 -- invariants around every public operation on a constructed object (DESIGN.md 5/C03, tables A.1/A.2)."""
from . import inv, marker

META = {
    "explanation": "decision table of the member selection (9 name classes x 6 value kinds x 3 check-on settings, table A.1); T-order of the method/constructor/__new__ wrappers; typestate of the constructor wrapper; decision table of the single-invariant check; dominance in the metaclass constructor",
    "trusted_base": ["dir()/getattr of ordinary Python classes", "inspect.isfunction / getattr_static"],
    "not_decided": ["the member set of exotic classes (C types, dataclass-generated members)", "classes inheriting without the metaclass"],
    "assumptions": ["__init__ found by dir() is a function or a slot wrapper (asserted by the library)"],
}


def run(run, model):
    run.do(inv.selection, model)
    run.do(inv.install, model)
    run.do(inv.marker_agreement, model)
    from . import common
    run.do(common.truth_rule, model, "C03.truth")
    from . import c17
    run.do(c17.invariant_decorator_table, model, "C03.decorator-lists")
    run.do(inv.phases, model)
    run.do(inv.ctor, model)
    run.do(inv.self_rule, model)
    run.do(inv.find_self, model, "C03.find-self")
    run.do(inv.meta_reapply, model, "C03.meta-reapply", None)
    run.do(marker.body_rules, model, None, "C03.body-held")
    from . import fwd, c04
    marker.report_rule(run, model, "C11.release-on-all-exits", ("inv[init]", "inv[sync]", "inv[async]"), "the instance marker is given back on every exit (a leaked marker suspends the invariants of every later object at the same address)", as_rule="C03.marker-released")
    run.do(c04.invariant_provenance, model, "C03.inherited-lists", "C03.own-lists")
    run.do(c04.structure_rules, model)
    run.do(fwd.forwarding, model, "C03.check-on-forwarded", ("check_on", "condition"))
    run.minimum("C03.selection", 1)
    run.minimum("C03.selection-source", 1)
    run.minimum("C03.phases", 2)
    run.minimum("C03.ctor", 3)
    run.minimum("C03.self", 8)
    run.minimum("C03.meta-reapply", 1)
