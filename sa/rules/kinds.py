"""Abstract input kinds for the ``error`` argument and the 3-valued atom evaluators over them (decision tables)."""
from ..flow import subterms

ERROR_KINDS = ("none", "function", "method", "exc_class", "other_class", "exc_instance", "other")


def error_atom_eval(kind, subject, extra=None):
    """Evaluator for tests about ``subject`` (a term) when it is of the abstract ``kind``.

    ``extra(term)`` may decide further atoms (returns True/False/None).
    """
    classes = ("exc_class", "other_class")

    def ev(t):
        if extra is not None:
            v = extra(t)
            if v is not None:
                return v
        if t == subject:
            # truthiness of the error object itself
            if kind == "none":
                return False
            return None if kind in ("other", "exc_instance") else True
        if t[0] == "op" and t[1].startswith("cmp:") and len(t[2]) == 2:
            op = t[1][4:]
            left, right = t[2]
            if left == subject and right == ("const", "None"):
                if op in ("Is", "Eq"):
                    return kind == "none"
                if op in ("IsNot", "NotEq"):
                    return kind != "none"
        if t[0] == "call" and not t[3]:
            c, args = t[1], t[2]
            if args and args[0] == subject:
                name = None
                if c[0] == "builtin":
                    name = c[1]
                elif c[0] == "attr" and c[1] == ("module", "inspect"):
                    name = "inspect." + c[2]
                if name == "inspect.isfunction" and len(args) == 1:
                    return kind == "function"
                if name == "inspect.ismethod" and len(args) == 1:
                    return kind == "method"
                if name == "inspect.isroutine" and len(args) == 1:
                    return True if kind in ("function", "method") else (None if kind == "other" else False)
                if name == "inspect.isclass" and len(args) == 1:
                    return kind in classes
                if name == "callable" and len(args) == 1:
                    if kind in ("function", "method") + classes:
                        return True
                    if kind == "none":
                        return False
                    return None  # an instance may or may not be callable
                if name == "isinstance" and len(args) == 2:
                    what = args[1]
                    if what == ("builtin", "type"):
                        return kind in classes
                    if what == ("builtin", "BaseException"):
                        return kind == "exc_instance"
                    # the types behind inspect.isfunction / inspect.ismethod
                    if what == ("attr", ("module", "types"), "FunctionType"):
                        return kind == "function"
                    if what == ("attr", ("module", "types"), "MethodType"):
                        return kind == "method"
                    if what == ("builtin", "Exception"):
                        return None if kind == "exc_instance" else False
                    if what[0] == "display" and what[1] == "tuple":
                        vals = [ev(("call", c, (subject, w), ())) for w in what[2]]
                        if any(v is True for v in vals):
                            return True
                        if all(v is False for v in vals):
                            return False
                        return None
                    return None
                if name == "issubclass" and len(args) == 2:
                    if args[1] == ("builtin", "BaseException"):
                        if kind == "exc_class":
                            return True
                        if kind == "other_class":
                            return False
                        return None
                    if args[1] == ("builtin", "Exception"):
                        if kind == "other_class":
                            return False
                        return None
                    return None
        return None

    return ev
