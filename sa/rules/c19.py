"""C19 -- misuse is rejected at the earliest point with the documented error (DESIGN.md 5/C19, table A.7)."""
import ast

from .. import tables
from ..flow import get_flow, show, strip_sites, subterms
from ..model import first_line, src_of
from . import gates, c09, c08, kinds

META = {
    "explanation": "decision tables (membership atoms) of the two call-time validators, of the factory's reserved-parameter test and of invariant.__init__; T-gates that the wrappers raise the validators' results first; sibling tables of the decorators' error validation",
    "trusted_base": ["inspect.signature / inspect.iscoroutinefunction as documented"],
    "not_decided": ["misuse kinds not named by the property"],
    "assumptions": [],
}


def membership_eval(facts, extra=None):
    """facts: {(literal name, container term): bool}; evaluates ``'<lit>' in <container>`` atoms."""

    def ev(t):
        if extra is not None:
            v = extra(t)
            if v is not None:
                return v
        if t[0] == "op" and t[1] in ("cmp:In", "cmp:NotIn") and t[2][0][0] == "const":
            try:
                lit = ast.literal_eval(t[2][0][1])
            except Exception:
                return None
            v = facts.get((lit, t[2][1]))
            if v is None:
                return None
            return v if t[1] == "cmp:In" else (not v)
        # a container known to hold something is not empty: its truth value and ``len(...) > 0`` follow
        holds = set(cont for (lit, cont), v in facts.items() if v)
        if t in holds:
            return True
        if t[0] == "call" and t[1] == ("builtin", "len") and len(t[2]) == 1 and t[2][0] in holds:
            return True
        if t[0] == "op" and t[1] in ("cmp:Gt", "cmp:NotEq", "cmp:Eq", "cmp:GtE") and len(t[2]) == 2 and t[2][0][0] == "call" and t[2][0][1] == ("builtin", "len") and len(t[2][0][2]) == 1 and t[2][0][2][0] in holds and t[2][1][0] == "const":
            try:
                k = int(t[2][1][1])
            except ValueError:
                return None
            if t[1] == "cmp:Gt" and k == 0 or t[1] == "cmp:GtE" and k == 1 or t[1] == "cmp:NotEq" and k == 0:
                return True
            if t[1] == "cmp:Eq" and k == 0:
                return False
        return None

    return ev


def _table(run, rule, fi, flow, ps, cases, label_of, expect, stop_label="reaches"):
    for case in cases:
        ev = case["eval"]
        feas = [p for p in ps if tables.feasible(p, ev)]
        outs = set()
        for p in feas:
            lab = tables.classify(p)
            if lab == "return" and p.outcome is not None and p.outcome[0] == "return":
                rt = p.outcome[1]
                n = tables.exc_name(rt)
                lab = "return %s" % n if (rt[0] == "call" and n and n.endswith("Error")) else ("return None" if rt == ("const", "None") else "return")
            outs.add(lab)
        outs = sorted(outs)
        want = expect(case)
        construct = "%s[%s]" % (fi.qual, label_of(case))
        # a validator may hand the TypeError back (the wrapper raises it) or raise it itself: the same rejection
        if want == "return TypeError" and outs == ["raise TypeError"]:
            run.ok(rule, construct, "outcome `raise TypeError` (raised by the validator itself)", fi.loc())
            continue
        if outs != [want]:
            run.violation(rule, construct, "expected `%s`, possible outcomes are %s" % (want, outs), fi.loc(), None, label_of(case))
        else:
            run.ok(rule, construct, "outcome `%s`" % want, fi.loc())


def validators(run, model, rule_call="C19.reserved-call", rule_result="C19.result-old"):
    # ---- call-time: reserved keyword names
    for role, ck in gates.checkers(model).items():
        ev = ck.kwargs_validator
        if ev is None or role != "checker[sync]":
            continue
        fi = ev["callee"]
        flow = get_flow(model, fi)
        run.saw(flow)
        ps = tables.paths(flow)
        kp = ("param", fi.params[0])
        cases = []
        for a in (False, True):
            for k in (False, True):
                cases.append({"a": a, "k": k, "eval": membership_eval({("_ARGS", kp): a, ("_KWARGS", kp): k})})
        _table(run, rule_call, fi, flow, ps, cases, lambda c: "_ARGS %s, _KWARGS %s" % ("given" if c["a"] else "absent", "given" if c["k"] else "absent"), lambda c: "return TypeError" if (c["a"] or c["k"]) else "return None")
    # ---- call-time: result / OLD with postconditions
    for role, ck in gates.checkers(model).items():
        ev = ck.resolved_validator
        if ev is None or role != "checker[sync]":
            continue
        fi = ev["callee"]
        flow = get_flow(model, fi)
        run.saw(flow)
        ps = tables.paths(flow)
        pp, mp = ("param", fi.params[0]), ("param", fi.params[1])
        cases = []
        for post in (False, True):
            for r in (False, True):
                for o in (False, True):
                    def extra(t, post=post):
                        if t == pp:
                            return post
                        return None
                    cases.append({"post": post, "r": r, "o": o, "eval": membership_eval({("result", mp): r, ("OLD", mp): o}, extra)})
        _table(run, rule_result, fi, flow, ps, cases, lambda c: "postconditions %s, result %s, OLD %s" % ("present" if c["post"] else "absent", "bound" if c["r"] else "free", "bound" if c["o"] else "free"), lambda c: "return TypeError" if (c["post"] and (c["r"] or c["o"])) else "return None")


def reserved_def(run, model, rule="C19.reserved-def"):
    fi = model.func("_checkers.decorate_with_checker")
    flow = get_flow(model, fi)
    run.saw(flow)
    stop = set(n.id for n in flow.cfg.nodes if n.kind == "def")
    # region: entry .. first nested def (both arms)
    try:
        ps = tables.paths(flow, None, stop)
    except Exception:
        # the region before the closures contains a loop (parameter table): cut at the first loop instead
        heads = [n for n in flow.cfg.nodes if n.kind in ("iter",)]
        stop = stop | set(n.id for n in heads)
        ps = tables.paths(flow, None, stop)
    # the container: <inspect.signature(func)>.parameters
    cont = None
    for p in ps:
        for t, pol, n in p.decisions:
            if t[0] == "op" and t[1] in ("cmp:In", "cmp:NotIn") and t[2][0] in (("const", "'_ARGS'"), ("const", "'_KWARGS'")):
                cont = t[2][1]
    if cont is None:
        run.violation(rule, fi.qual, "the factory does not test the function's parameters for the reserved names _ARGS / _KWARGS", fi.loc())
        return
    ok_cont = any(s[0] == "call" and s[1] == ("attr", ("module", "inspect"), "signature") and ("param", fi.params[0]) in (list(s[2]) + [v for _, v in s[3]]) for s in subterms(cont))
    run.check(ok_cont, rule, fi.qual + ":subject", "the reserved names are looked up in the parameters of the decorated function's signature", "the reserved names are looked up in %s" % show(strip_sites(cont)), fi.loc())

    def extra(t):
        if t[0] == "call" and t[1] == ("builtin", "hasattr"):
            return False  # the pristine-function asserts
        if t[0] == "op" and t[1] == "Not":
            v = extra(t[2][0])
            return None if v is None else (not v)
        return None

    cases = []
    for a in (False, True):
        for k in (False, True):
            cases.append({"a": a, "k": k, "eval": membership_eval({("_ARGS", cont): a, ("_KWARGS", cont): k}, extra)})
    _table(run, rule, fi, flow, ps, cases, lambda c: "parameter _ARGS %s, _KWARGS %s" % ("declared" if c["a"] else "absent", "declared" if c["k"] else "absent"), lambda c: "raise TypeError" if (c["a"] or c["k"]) else "reaches")


def invariant_init(run, model):
    fi = model.method("_decorators", "invariant", "__init__")
    flow = get_flow(model, fi)
    run.saw(flow)
    ps = tables.paths(flow)
    E = ("param", "error")
    base = kinds.error_atom_eval("none", E)
    for coro in (False, True):
        for mand in ("none", "self", "other"):
            def ev(t, coro=coro, mand=mand):
                if t == ("param", "enabled"):
                    return True
                if t[0] == "call" and t[1] == ("attr", ("module", "inspect"), "iscoroutinefunction") and ("param", "condition") in (list(t[2]) + [v for _, v in t[3]]):
                    return coro
                if t[0] == "attr" and t[2] == "mandatory_args":
                    return mand != "none"
                if t[0] == "op" and t[1] in ("cmp:NotEq", "cmp:Eq") and t[2][0][0] == "attr" and t[2][0][2] == "mandatory_args":
                    r = t[2][1]
                    if r[0] == "display" and r[1] == "list" and r[2] == (("const", "'self'"),):
                        eq = mand == "self"
                        return eq if t[1] == "cmp:Eq" else (not eq)
                    if r[0] == "display" and r[1] == "list" and not r[2]:
                        eq = mand == "none"
                        return eq if t[1] == "cmp:Eq" else (not eq)
                    return None
                if t[0] == "call" and t[1] == ("builtin", "len") and t[2] and t[2][0][0] == "attr" and t[2][0][2] == "mandatory_args":
                    return None
                return base(t)

            feas = [p for p in ps if tables.feasible(p, ev)]
            outs = sorted(set(tables.classify(p) for p in feas))
            want = "raise ValueError" if (coro or mand == "other") else "return"
            rule = "C19.invariant-async" if coro else "C19.invariant-args"
            construct = "%s[%s condition, mandatory arguments: %s]" % (fi.qual, "coroutine-function" if coro else "sync", {"none": "none", "self": "['self']", "other": "something else"}[mand])
            if outs != [want]:
                run.violation(rule, construct, "expected `%s`, possible outcomes are %s" % (want, outs), fi.loc(), None, construct.split("[", 1)[1])
            else:
                run.ok(rule, construct, "outcome `%s`" % want, fi.loc())


def run(run, model):
    run.do(reserved_def, model)
    run.do(gates.c19_reserved_call, model)
    run.do(gates.c19_result_old, model)
    run.do(validators, model)
    run.do(invariant_init, model)
    run.do(c08.define_tables, model, "C19.snapshot-order")
    run.do(c09.validate_tables, model, "C19.error-kind")
    from . import select
    run.do(select.introspect_rules, model, "C19.invariant-args-source")
    run.minimum("C19.reserved-def", 5)
    run.minimum("C19.reserved-call", 6)
    run.minimum("C19.result-old", 10)
    run.minimum("C19.invariant-args", 3)
    run.minimum("C19.invariant-async", 3)
    run.minimum("C19.error-kind", 23)
