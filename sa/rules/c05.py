"""C05 -- contracts observe the same argument values the body receives (DESIGN.md 5/C05)."""
import ast

from .. import tables
from ..events import Summaries, calls_in, fi_of_term, bind_call, call_arg_terms
from ..flow import get_flow, show, strip_sites, subterms
from ..guards import GuardGraph
from ..model import AnalysisError, first_line, src_of
from . import gates, select, meta, loops, effects

META = {
    "explanation": "decision table over the five inspect.Parameter kinds of the loop that builds the positional name table; T-order of the writes into the per-call mapping; T-identity of the stored values; per-contract selection (shape of the selecting comprehension, missing-name gate); introspection provenance on Contract/Snapshot",
    "trusted_base": ["inspect.signature / inspect.Parameter kinds", "Python's own binding of the call (the body's view)"],
    "not_decided": ["the variadic parameter's own name (excluded by the statement; pinned by tests)", "defaults whose != is not boolean"],
    "assumptions": [],
}

KINDS = ("POSITIONAL_ONLY", "POSITIONAL_OR_KEYWORD", "VAR_POSITIONAL", "KEYWORD_ONLY", "VAR_KEYWORD")


def _kind_eval(kind, param_term):
    param_term = strip_sites(param_term)

    def ev(t):
        ts = strip_sites(t)
        if ts[0] == "op" and ts[1] in ("cmp:In", "cmp:NotIn", "cmp:Eq", "cmp:NotEq", "cmp:Is", "cmp:IsNot") and ts[2][0] == ("attr", param_term, "kind"):
            r = ts[2][1]

            def kname(x):
                if x[0] == "attr" and x[2] in KINDS:
                    return x[2]
                return None

            if ts[1] in ("cmp:In", "cmp:NotIn") and r[0] == "display":
                names = [kname(x) for x in r[2]]
                if None in names:
                    return None
                v = kind in names
                return v if ts[1] == "cmp:In" else (not v)
            k = kname(r)
            if k is None:
                return None
            v = kind == k
            return v if ts[1] in ("cmp:Eq", "cmp:Is") else (not v)
        return None

    return ev


def pos_table(run, model, rule="C05.pos-table", rule_po="C05.posonly"):
    factory = model.func("_checkers.decorate_with_checker")
    flow = get_flow(model, factory)
    run.saw(flow)
    cks = gates.checkers(model)
    resolver = None
    names_terms, po_terms = {}, {}
    for role, ck in cks.items():
        if ck.resolver is None:
            run.violation(rule, ck.fi.qual, "the wrapper does not resolve the call's arguments", ck.fi.loc())
            continue
        resolver = ck.resolver["callee"]
        b = bind_call(resolver, ck.resolver["call"]) or {}
        names_terms[role] = ck.flow.term(b[resolver.params[0]], ck.resolver["node"]) if resolver.params[0] in b else None
        po_terms[role] = ck.flow.term(b["positional_only"], ck.resolver["node"]) if "positional_only" in b else None
    if resolver is None:
        return
    # ---- the name table: one fresh list in the factory, filled by a loop over sign.parameters
    nt = set(names_terms.values())
    if len(nt) != 1 or None in nt:
        run.violation(rule, factory.qual, "the two wrappers do not hand the same positional name table to the resolver: %s" % dict((k, show(strip_sites(v)) if v else None) for k, v in names_terms.items()), factory.loc())
        return
    table = nt.pop()
    if table[0] == "comp" or (table[0] == "call" and table[2] and table[2][0][0] == "comp"):
        raise AnalysisError("%s: the positional name table is built by a comprehension (%s); the rule reads tables filled by a loop over the signature's parameters and cannot decide this form" % (factory.qual, show(strip_sites(table), 60)))
    if not (table[0] == "display" and table[1] == "list" and not table[2]):
        # e.g. list(sign.parameters.keys())
        run.violation(rule, factory.qual, "the table that maps the position of a call argument to a parameter name is %s: it contains keyword-only parameters (and **kwargs), so surplus positional arguments captured by *args are bound to them" % show(strip_sites(table), 80), factory.loc(), None, show(strip_sites(table), 80))
        return
    heads = [n for n in flow.cfg.nodes if n.kind == "next"]
    host = None
    for h in heads:
        inside = set(id(sub) for st in h.stmt.body for sub in ast.walk(st))
        for n, how, recv in meta.mutation_sites(model, factory):
            if how == "append" and recv == table and id(n.stmt) in inside:
                host = h
    if host is None:
        run.violation(rule, factory.qual, "the positional name table is not filled by a loop over the signature's parameters", factory.loc())
        return
    it = None
    for k, p in host.pred:
        if p.kind == "iter":
            it = flow.term(p.ast, p)
    sig_ok = it is not None and it[0] == "call" and it[1][0] == "attr" and it[1][2] == "values" and it[1][1][0] == "attr" and it[1][1][2] == "parameters"
    if not sig_ok:
        run.violation(rule, factory.qual, "the loop filling the table iterates %s, expected the parameters of the function's signature in definition order" % show(strip_sites(it)), factory.loc(host), None, first_line(host.stmt))
        return
    P = ("elem", it)
    start = [t for k, t in host.succ if k == "T"][0]
    after = [t for k, t in host.succ if k == "F"]
    exit_ids = set(t.id for t in after) | {host.id}
    ps = tables.paths(flow, start, exit_ids, stop_at_loops=True)
    po_table = set(po_terms.values())
    for kind in KINDS:
        ev = _kind_eval(kind, P)
        feas = [p for p in ps if tables.feasible(p, ev)]
        eff = set()
        for p in feas:
            appended = any(ct[1] == ("attr", table, "append") and ct[2] == (("attr", P, "name"),) for ct, n in p.calls)
            wrong = [ct for ct, n in p.calls if ct[1] == ("attr", table, "append") and ct[2] != (("attr", P, "name"),)]
            po_added = any(ct[1][0] == "attr" and ct[1][2] == "add" and ct[2] == (("attr", P, "name"),) and ct[1][1] in po_table for ct, n in p.calls)
            eff.add((appended, bool(wrong), po_added))
        want = kind in ("POSITIONAL_ONLY", "POSITIONAL_OR_KEYWORD", "VAR_POSITIONAL")
        construct = "%s[parameter kind %s]" % (factory.qual, kind)
        if len(eff) != 1:
            run.violation(rule, construct, "whether the parameter enters the positional name table does not depend on its kind alone: %s" % sorted(eff), factory.loc(host), None, kind)
            continue
        appended, wrong, po_added = list(eff)[0]
        if wrong:
            run.violation(rule, construct, "something other than the parameter's name is appended to the table", factory.loc(host), None, kind)
        elif appended != want:
            run.violation(rule, construct, ("a %s parameter is reachable by the position of a call argument: surplus positionals (captured by *args) would be shown to the contracts as this parameter's value" % kind) if appended else ("a %s parameter is missing from the positional name table" % kind), factory.loc(host), None, kind)
        else:
            run.ok(rule, construct, "in the table: %s" % appended, factory.loc(host))
        run.check(po_added == (kind == "POSITIONAL_ONLY"), rule_po, construct, "recorded as positional-only: %s" % po_added, "a %s parameter is %s as positional-only" % (kind, "recorded" if po_added else "not recorded"), factory.loc(host), None, kind)
    # a keyword-only kind must also END the table (break) or be skipped: covered by the rows above (no append).
    # ---- both wrappers pass the positional-only set
    for role, t in po_terms.items():
        ck = cks[role]
        ok = t is not None and t[0] in ("call", "display")
        run.check(ok, rule_po, ck.fi.qual, "passes the set of positional-only names to the resolver", "the wrapper does not tell the resolver which parameters are positional-only: a keyword argument of the same name (captured by **kwargs) overrides the parameter's value seen by the contracts", ck.loc(ck.resolver["node"]), None, first_line(ck.resolver["node"].stmt))
    # ---- the resolver skips positional-only names when copying keywords
    from ..decomp import loops_view
    resolver = loops_view(model, resolver)  # ``mapping.update(<pairs>)`` read as the loop of stores it is
    fl = get_flow(model, resolver)
    run.saw(fl)
    kw_p = ("param", resolver.params[3]) if len(resolver.params) > 3 else None
    heads = [n for n in fl.cfg.nodes if n.kind == "next"]
    kw_loop = None
    for h in heads:
        for k, p in h.pred:
            if p.kind == "iter" and strip_sites(fl.term(p.ast, p)) == ("call", ("attr", kw_p, "items"), (), ()):
                kw_loop = h
    if kw_loop is None:
        run.violation(rule_po, resolver.qual, "no loop copies the call's keyword arguments into the mapping", resolver.loc())
    else:
        start = [t for k, t in kw_loop.succ if k == "T"][0]
        ps = tables.paths(fl, start, {kw_loop.id}, stop_at_loops=True)
        it = None
        for k, p in kw_loop.pred:
            if p.kind == "iter":
                it = fl.term(p.ast, p)
        key_t = ("idx", ("elem", it), ("const", "0"))
        val_t = ("idx", ("elem", it), ("const", "1"))
        for is_po in (True, False):
            def ev(t, is_po=is_po):
                ts = t
                if ts == ("param", "positional_only"):
                    return True
                if ts[0] == "op" and ts[1] in ("cmp:In", "cmp:NotIn") and ts[2][0] == key_t and ts[2][1] == ("param", "positional_only"):
                    return is_po if ts[1] == "cmp:In" else (not is_po)
                if ts[0] == "op" and ts[1] == "cmp:IsNot" and ts[2][0] == ("param", "positional_only"):
                    return True
                return None
            feas = [p for p in ps if tables.feasible(p, ev)]
            stored = set(any(tt[0] == "idx" and tt[2] == key_t and vt == val_t for tt, vt, n in p.stores) for p in feas)
            want = not is_po
            # ... and the loop goes on with the next keyword (a `break` / `return` there drops every keyword after it)
            left = [p for p in feas if p.outcome is None or p.outcome[0] != "stop" or p.outcome[2] is not kw_loop]
            if left and stored == {want}:
                stored = {"the loop over the keywords is left early"}
            run.check(stored == {want}, rule_po, "%s[keyword named like a %s parameter]" % (resolver.qual, "positional-only" if is_po else "regular"), "copied into the mapping: %s" % want, "keyword arguments named like a positional-only parameter %s" % ("override the value bound by position" if is_po else "are not copied"), resolver.loc(kw_loop), None, "positional-only=%s" % is_po)


def order_identity(run, model, rule_order="C05.order", rule_id="C05.identity"):
    cks = gates.checkers(model)
    resolver = None
    for role, ck in cks.items():
        if ck.resolver is not None:
            resolver = ck.resolver["callee"]
            # the wrapper hands its own args / kwargs objects
            b = bind_call(resolver, ck.resolver["call"]) or {}
            a_ok = "args" in b and ck.flow.term(b["args"], ck.resolver["node"]) == ("param", ck.wr.vararg)
            k_ok = "kwargs" in b and ck.flow.term(b["kwargs"], ck.resolver["node"]) == ("param", ck.wr.kwarg)
            run.check(a_ok and k_ok, rule_id, ck.fi.qual + ":resolver-args", "the resolver receives the wrapper's own *args tuple and **kwargs dict", "the resolver does not receive the wrapper's own *args/**kwargs objects", ck.loc(ck.resolver["node"]), None, first_line(ck.resolver["node"].stmt))
            # nothing rebinds or mutates args/kwargs in the wrapper
            muts = [(n, how) for n, how, recv in meta.mutation_sites(model, ck.fi) if recv in (("param", ck.wr.vararg), ("param", ck.wr.kwarg))]
            rebinds = [d for lst in ck.flow.node_defs.values() for d in lst if d.name in (ck.wr.vararg, ck.wr.kwarg) and d.kind != "param"]
            badn = muts[0][0] if muts else (rebinds[0].node if rebinds else None)
            run.check(badn is None, rule_id, ck.fi.qual + ":args-untouched", "*args/**kwargs are neither rebound nor mutated before the body receives them", "the wrapper %s its *args/**kwargs" % ("mutates" if muts else "rebinds"), ck.loc(badn) if badn is not None else ck.fi.loc(), None, first_line(badn.stmt) if badn is not None else None)
    if resolver is None:
        return
    from ..decomp import loops_view
    summ = Summaries(model)
    mp = meta.mutated_params(model, resolver, summ)
    rt_plain = summ.return_term(resolver)
    resolver = loops_view(model, resolver)
    fl = get_flow(model, resolver)
    run.saw(fl)
    run.check(not (mp & {"args", "kwargs", "kwdefaults", "param_names"}), rule_id, resolver.qual + ":no-mutation", "the resolver mutates none of its inputs", "the resolver mutates its parameter(s) %s: the body would receive changed arguments" % sorted(mp), resolver.loc())
    # the mapping: {"_ARGS": args, "_KWARGS": kwargs} then defaults, positionals, keywords
    rt = rt_plain
    init_ok = rt[0] == "display" and rt[1] == "dict" and dict((k[1], v) for k, v in rt[2] if k[0] == "const") == {"'_ARGS'": ("param", "args"), "'_KWARGS'": ("param", "kwargs")}
    run.check(init_ok, rule_id, resolver.qual + ":placeholders", "_ARGS is the tuple of positional arguments and _KWARGS the dict of keyword arguments of the call (a fresh mapping per call)", "the mapping starts as %s" % show(strip_sites(rt), 100), resolver.loc())
    heads = sorted([n for n in fl.cfg.nodes if n.kind == "next"], key=lambda n: n.lineno)
    its = []
    for h in heads:
        for k, p in h.pred:
            if p.kind == "iter":
                its.append((h, strip_sites(fl.term(p.ast, p))))
    # the positional loop: ``enumerate(args)`` indexing the name table, or ``zip`` of the name table and the arguments
    POS_FORMS = {
        ("call", ("builtin", "enumerate"), (("param", "args"),), ()): "enumerate",
        ("call", ("builtin", "zip"), (("param", "param_names"), ("param", "args")), ()): "zip-names-args",
        ("call", ("builtin", "zip"), (("param", "args"), ("param", "param_names")), ()): "zip-args-names",
    }
    got = [t for _, t in its]
    dom = fl.cfg.dominators()
    okorder = (
        len(got) == 3
        and got[0] == ("call", ("attr", ("param", "kwdefaults"), "items"), (), ())
        and got[1] in POS_FORMS
        and got[2] == ("call", ("attr", ("param", "kwargs"), "items"), (), ())
        and all(a.id in dom[b.id] for (a, _), (b, _) in zip(its, its[1:]))
    )
    run.check(okorder, rule_order, resolver.qual, "defaults, then positional arguments, then keyword arguments are written (later wins)", "the mapping is not filled in the order defaults < positionals < keywords: loops over %s" % [show(t) for t in got], resolver.loc())
    # stored values are the objects themselves
    for h, it in its:
        start = [t for k, t in h.succ if k == "T"][0]
        ps = tables.paths(fl, start, {h.id}, stop_at_loops=True)
        el = None
        for k, p in h.pred:
            if p.kind == "iter":
                el = ("elem", fl.term(p.ast, p))
        form = POS_FORMS.get(strip_sites(it))
        val_t = ("idx", el, ("const", "0" if form == "zip-args-names" else "1"))
        bad = None
        nstores = 0
        for p in ps:
            for tt, vt, n in p.stores:
                nstores += 1
                if vt != val_t:
                    bad = (n, "stores %s instead of the very object supplied" % show(strip_sites(vt), 60))
                if form == "enumerate":
                    # key = param_names[i]
                    idx = ("idx", el, ("const", "0"))
                    if tt[2] != ("idx", ("param", "param_names"), idx):
                        bad = (n, "the positional argument number i is stored under %s, not under param_names[i]" % show(strip_sites(tt[2]), 60))
                elif form is not None:
                    want_key = ("idx", el, ("const", "1" if form == "zip-args-names" else "0"))
                    if tt[2] != want_key:
                        bad = (n, "the positional argument is stored under %s, not under the name paired with it" % show(strip_sites(tt[2]), 60))
        if nstores == 0:
            bad = (h, "the loop stores nothing")
        run.check(bad is None, rule_id, "%s:loop over %s" % (resolver.qual, show(it, 40)), "each value is stored as the object itself under its name", bad[1] if bad else "", resolver.loc(bad[0] if bad else h), None, first_line((bad[0] if bad else h).stmt))
    # positional surplus: index guarded by i < len(param_names)
    LEN = ("call", ("builtin", "len"), (("param", "param_names"),), ())
    ok_guard = any(n.kind == "test" and any(sub == LEN for sub in subterms(strip_sites(fl.term(n.ast, n)))) for n in fl.cfg.nodes)
    # ``zip`` stops at the shorter sequence: the surplus is dropped by construction
    ok_guard = ok_guard or (len(got) == 3 and POS_FORMS.get(got[1], "").startswith("zip"))
    run.check(ok_guard, rule_id, resolver.qual + ":surplus", "surplus positional arguments are left to *args (index guarded by the table length)", "positions beyond the table are not guarded", resolver.loc())


def defaults_rule(run, model, rule="C05.defaults"):
    from ..decomp import loops_view

    fi = loops_view(model, model.func("_checkers.resolve_kwdefaults"))
    flow = get_flow(model, fi)
    run.saw(flow)
    heads = [n for n in flow.cfg.nodes if n.kind == "next"]
    bad = None
    if len(heads) != 1:
        bad = "expected one loop over the parameters"
    else:
        h = heads[0]
        it = None
        for k, p in h.pred:
            if p.kind == "iter":
                it = flow.term(p.ast, p)
        P = ("elem", it)
        okit = it is not None and strip_sites(it) == ("call", ("attr", ("attr", ("param", fi.params[0]), "parameters"), "values"), (), ())
        if not okit:
            bad = "the loop iterates %s" % show(strip_sites(it))
        else:
            start = [t for k, t in h.succ if k == "T"][0]
            ps = tables.paths(flow, start, {h.id}, stop_at_loops=True)
            for has_default in (True, False):
                def ev(t, has_default=has_default):
                    ts = strip_sites(t)
                    if ts[0] == "op" and ts[1] in ("cmp:NotEq", "cmp:IsNot", "cmp:Eq", "cmp:Is") and ts[2][0] == ("attr", strip_sites(P), "default"):
                        r = show(ts[2][1])
                        if r in ("inspect.Parameter.empty", "inspect._empty"):
                            return has_default if ts[1] in ("cmp:NotEq", "cmp:IsNot") else (not has_default)
                    return None
                feas = [p for p in ps if tables.feasible(p, ev)]
                stored = set(any(tt[0] == "idx" and tt[2] == ("attr", P, "name") and vt == ("attr", P, "default") for tt, vt, n in p.stores) for p in feas)
                if stored != {has_default}:
                    bad = "a parameter %s a default is %s in the defaults (kept: %s)" % ("with" if has_default else "without", "not included" if has_default else "included", sorted(stored))
    run.check(bad is None, rule, fi.qual, "kwdefaults[name] = default exactly for the parameters that have one", bad or "", fi.loc())
    # ... and every call is resolved with that table: the wrappers hand it to the resolver as it is
    table_fi = model.func("_checkers.resolve_kwdefaults")
    for role, ck in gates.checkers(model).items():
        if ck.resolver is None:
            continue
        resolver = ck.resolver["callee"]
        b = bind_call(resolver, ck.resolver["call"]) or {}
        dp = resolver.params[1] if len(resolver.params) > 1 else None
        t = strip_sites(ck.flow.term(b[dp], ck.resolver["node"])) if dp in b else None
        okt = t is not None and t[0] == "call" and fi_of_term(model, t[1]) is table_fi
        if okt:
            # ... computed from the signature of *this* function, taken afresh: a signature looked up in a cache keyed by
            # the code object (or any other key functions can share) hands one function's defaults to another
            sargs = [v_ for _, v_ in t[3]] + list(t[2])
            fresh_sig = len(sargs) == 1 and sargs[0][0] == "call" and sargs[0][1] == ("attr", ("module", "inspect"), "signature") and (list(sargs[0][2]) + [v_ for _, v_ in sargs[0][3]]) in ([("closure", ("param", ck.wr.factory.params[0]))], [("param", ck.wr.factory.params[0])])
            run.check(fresh_sig, rule, ck.fi.qual + ":defaults-signature", "the defaults are read off `inspect.signature(func)` of the decorated function itself", "the signature whose defaults are handed to the contracts is %s, not `inspect.signature(func)` taken afresh for the decorated function: with a cache keyed by something functions can share (the code object of a factory's inner `def`), one function's contracts see another function's default values" % (show(sargs[0], 70) if sargs else "nothing"), ck.loc(ck.resolver["node"]), None, first_line(ck.resolver["node"].stmt))
        run.check(okt, rule, ck.fi.qual + ":defaults-table", "the resolver gets the table of the function's default values on every call", "the resolver gets %s as the table of defaults, not the table computed from the function's signature: for some calls (surplus positionals or extra keywords while a named parameter keeps its default) the contracts do not see the default the body receives" % (show(t, 80) if t is not None else "nothing"), ck.loc(ck.resolver["node"]), None, first_line(ck.resolver["node"].stmt))


def select_sites(run, model, rule="C05.select"):
    """At each user call-out the keywords are exactly select_*(same contract, the call's mapping)."""
    specs = []
    for role, ck in gates.checkers(model).items():
        for kind, what, selq in (("PRE", "condition", "_checkers.select_condition_kwargs"), ("POST", "condition", "_checkers.select_condition_kwargs"), ("SNAP", "capture", "_checkers.select_capture_kwargs")):
            h = loops.helper_of(model, ck, kind)
            if h is not None:
                specs.append((h[0], h[2], what, selq))
    seen = set()
    for fi, mp, what, selq in specs:
        if fi.qual in seen:
            continue
        seen.add(fi.qual)
        flow = get_flow(model, fi)
        run.saw(flow)
        sel = model.func(selq)
        n_sites = 0
        # the TypeError of a missing name (and any exception of the callable) must reach the caller: no handler
        for n in flow.cfg.nodes:
            for call, c, a in calls_in(n):
                if fi_of_term(model, flow.term(call.func, n)) is sel:
                    caught = [tr for tr, part in n.in_try if part == "body" and tr.handlers]
                    run.check(not caught, rule, "%s:select-propagates@%d" % (fi.qual, n.lineno if False else 0), "the missing-name TypeError of the selection is not intercepted", "the selection of the keywords is inside a try with `except %s`: the TypeError naming a missing argument is intercepted instead of failing the call" % (src_of(caught[0].handlers[0].type) if caught and caught[0].handlers[0].type is not None else ""), fi.loc(n), None, first_line(n.stmt))
        for n in flow.cfg.nodes:
            for call, c, a in calls_in(n):
                f = call.func
                if isinstance(f, ast.Attribute) and f.attr == what:
                    n_sites += 1
                    recv = flow.term(f.value, n)
                    kws = [kw for kw in call.keywords if kw.arg is None]
                    bad = None
                    if call.args or len(call.keywords) != 1 or len(kws) != 1:
                        bad = "the %s is not called with exactly `**<selected keywords>`" % what
                    else:
                        st = flow.term(kws[0].value, n)
                        vals = [v for _, v in st[3]] if st[0] == "call" else []
                        if not (st[0] == "call" and fi_of_term(model, st[1]) is sel and recv in vals and ("param", mp) in vals):
                            bad = "the keywords passed to the %s are %s, not the selection for this very contract from the call's mapping" % (what, show(strip_sites(st), 100))
                    run.check(bad is None, rule, "%s:%s@%d" % (fi.qual, what, n_sites), "called with **select(<this contract>, <the call's mapping>)", bad or "", fi.loc(n), None, first_line(n.stmt))


def run(run, model):
    run.do(pos_table, model)
    run.do(effects.no_memo, model, "C05.no-memo")
    run.do(order_identity, model)
    run.do(defaults_rule, model)
    run.do(select.selector_rules, model, "C05.select")
    run.do(select_sites, model)
    run.do(select.introspect_rules, model, "C05.introspect")
    run.do(gates.c05_select_mapping, model)
    run.do(gates.c02_result_identity, model, "C05.body-result", "C05.body-args")
    # the mapping of the call is not changed behind the back of the contracts evaluated later (message generation
    # hides _ARGS/_KWARGS in a copy), and an error factory gets the call's mapping, not the condition's selection
    from . import msg, loops
    run.do(msg.hide_placeholders, model, "C05.mapping-untouched")
    run.do(gates.c08_place, model, "C05.old-bound")
    for role, ck in gates.checkers(model).items():
        for kind, depth in (("PRE", 2), ("POST", 1)):
            h = loops.helper_of(model, ck, kind)
            if h is not None:
                run.do(loops.verdict_rule, model, "C05.error-mapping", h[0], h[1], h[2], depth)
    run.minimum("C05.pos-table", 5)
    run.minimum("C05.posonly", 9)
    run.minimum("C05.order", 1)
    run.minimum("C05.identity", 14)
    run.minimum("C05.defaults", 1)
    run.minimum("C05.select", 14)
    run.minimum("C05.introspect", 9)
