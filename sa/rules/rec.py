"""Rules over the AST re-evaluator ``_recompute.Visitor`` and the selector ``_represent.Visitor`` (C06, C07, C20)."""
import ast

from .. import tables
from ..events import bind_call, calls_in, fi_of_term
from ..flow import get_flow, show, strip_sites, subterms
from ..guards import GuardGraph, normal_succ
from ..model import AnalysisError, first_line, src_of

NODE = ("param", "node")


def _visit_of(t):
    """If ``t`` is ``self.visit(<x>)`` return the term of x, else None."""
    if t[0] == "call" and t[1] == ("attr", ("param", "self"), "visit"):
        args = list(t[2]) + [v for _, v in t[3]]
        if len(args) == 1:
            return args[0]
    return None


def _is_placeholder_flag(ts):
    """A boolean built only from PLACEHOLDER identity tests and True/False constants (e.g. ``has_placeholder``)."""
    if ts in (("const", "True"), ("const", "False")):
        return True
    if ts[0] == "op" and ts[1] in ("cmp:Is", "cmp:IsNot") and ts[2][1] == ("global", "_recompute", "PLACEHOLDER"):
        return True
    if ts[0] == "phi":
        return all(_is_placeholder_flag(a) for a in ts[1])
    if ts[0] == "op" and ts[1] in ("Or", "And"):
        return all(_is_placeholder_flag(a) for a in ts[2])
    return False


def _placeholder_false(t):
    """Atoms about PLACEHOLDER are false on the paths that compute a value."""
    ts = strip_sites(t)
    if ts[0] == "phi" and _is_placeholder_flag(ts) and any(a[0] == "op" or a == ("const", "True") for a in ts[1]):
        return False
    if ts == ("const", "False"):
        return False
    if ts[0] == "op" and ts[1] in ("cmp:Is", "cmp:IsNot") and ts[2][1] == ("global", "_recompute", "PLACEHOLDER"):
        return ts[1] == "cmp:IsNot"
    if ts[0] == "call" and ts[1] == ("builtin", "any") and ts[2] and ts[2][0][0] == "comp":
        return False
    if ts[0] == "op" and ts[1] == "cmp:In" and ts[2][0] == ("global", "_recompute", "PLACEHOLDER"):
        return False
    return None


def _isinstance_op(ts, subject):
    """``isinstance(<subject>, ast.X)`` -> 'X' (or tuple of names) else None."""
    if ts[0] == "call" and ts[1] == ("builtin", "isinstance") and len(ts[2]) == 2 and ts[2][0] == subject:
        c = ts[2][1]
        if c[0] == "attr" and c[1] == ("module", "ast"):
            return (c[2],)
        if c[0] == "display" and all(x[0] == "attr" and x[1] == ("module", "ast") for x in c[2]):
            return tuple(x[2] for x in c[2])
    return None


OPERATOR_FUNCS = {
    "add": ("Add", False), "sub": ("Sub", False), "mul": ("Mult", False), "truediv": ("Div", False), "floordiv": ("FloorDiv", False),
    "mod": ("Mod", False), "pow": ("Pow", False), "lshift": ("LShift", False), "rshift": ("RShift", False), "or_": ("BitOr", False),
    "xor": ("BitXor", False), "and_": ("BitAnd", False), "matmul": ("MatMult", False),
    "eq": ("cmp:Eq", False), "ne": ("cmp:NotEq", False), "lt": ("cmp:Lt", False), "le": ("cmp:LtE", False), "gt": ("cmp:Gt", False), "ge": ("cmp:GtE", False),
    "is_": ("cmp:Is", False), "is_not": ("cmp:IsNot", False), "contains": ("cmp:In", True),
    "pos": ("UAdd", False), "neg": ("USub", False), "not_": ("Not", False), "invert": ("Invert", False), "inv": ("Invert", False),
}


def _lambda_op(model, site):
    """('op name', param order) of a module-level ``lambda a, b: a <op> b`` found by its site."""
    modname, line, col = site
    mod = model.modules.get(modname.split(".")[0]) if modname in model.modules else None
    if mod is None:
        return None
    for sub in ast.walk(mod.tree):
        if isinstance(sub, ast.Lambda) and sub.lineno == line and sub.col_offset == col:
            return _expr_op([a.arg for a in sub.args.args], sub.body)
    return None


def _expr_op(params, b):
    if isinstance(b, ast.BinOp) and isinstance(b.left, ast.Name) and isinstance(b.right, ast.Name) and b.left.id in params and b.right.id in params:
        return type(b.op).__name__, [params.index(b.left.id), params.index(b.right.id)]
    if isinstance(b, ast.UnaryOp) and isinstance(b.operand, ast.Name) and b.operand.id in params:
        return type(b.op).__name__, [params.index(b.operand.id)]
    if isinstance(b, ast.Compare) and len(b.ops) == 1 and isinstance(b.left, ast.Name) and isinstance(b.comparators[0], ast.Name) and b.left.id in params and b.comparators[0].id in params:
        return "cmp:" + type(b.ops[0]).__name__, [params.index(b.left.id), params.index(b.comparators[0].id)]
    return None


def _func_op(model, v):
    """The same for a module-level ``def f(a, b): return a <op> b``."""
    fi = fi_of_term(model, v)
    if fi is None:
        return None
    body = [st for st in fi.node.body if not (isinstance(st, ast.Expr) and isinstance(st.value, ast.Constant))]
    if len(body) != 1 or not isinstance(body[0], ast.Return) or body[0].value is None:
        return None
    return _expr_op([a.arg for a in fi.node.args.args], body[0].value)


def _dispatch_lookup(t, op_subject):
    """(table display, True) when ``t`` is ``TABLE[type(op)]`` / ``TABLE.get(type(op)[, None])`` on a literal table."""
    table = key = None
    if t[0] == "idx":
        table, key = t[1], t[2]
    elif t[0] == "call" and t[1][0] == "attr" and t[1][2] == "get" and t[2] and (len(t[2]) == 1 or strip_sites(t[2][1]) == ("const", "None")):
        table, key = t[1][1], t[2][0]
    if table is None or table[0] != "display" or table[1] != "dict":
        return None
    ks = strip_sites(key)
    sub = strip_sites(op_subject)
    if (ks[0] == "call" and ks[1] == ("builtin", "type") and ks[2] == (sub,)) or ks == ("attr", sub, "__class__"):
        return table
    return None


def row_atom(t, name, op_subject):
    """Truth of ``TABLE.get(type(op)) is [not] None`` / ``type(op) [not] in TABLE`` for the operator ``name``; else None."""
    ts = strip_sites(t)
    if ts[0] != "op" or len(ts[2]) != 2:
        return None
    if ts[1] in ("cmp:Is", "cmp:IsNot") and ts[2][1] == ("const", "None"):
        table = _dispatch_lookup(ts[2][0], op_subject)
        if table is None:
            return None
        present = any(k_ == ("attr", ("module", "ast"), name) for k_, v_ in table[2])
        return (not present) if ts[1] == "cmp:Is" else present
    if ts[1] in ("cmp:In", "cmp:NotIn") and ts[2][1][0] == "display" and ts[2][1][1] == "dict":
        sub = strip_sites(op_subject)
        ks = ts[2][0]
        if (ks[0] == "call" and ks[1] == ("builtin", "type") and ks[2] == (sub,)) or ks == ("attr", sub, "__class__"):
            present = any(k_ == ("attr", ("module", "ast"), name) for k_, v_ in ts[2][1][2])
            return present if ts[1] == "cmp:In" else (not present)
    return None


def undispatch(model, t, opname, op_subject):
    """Rewrite ``TABLE[type(<op>)](a, b)`` / ``TABLE.get(type(<op>))(a, b)`` into ('op', ...) for the row ``opname``.

    ``op_subject``: the term of the operator node (``node.op`` or the loop variable over ``node.ops``).
    """
    if not isinstance(t, tuple) or not t:
        return t
    if t[0] == "call":
        table = _dispatch_lookup(t[1], op_subject)
        if table is not None:
            for k_, v_ in table[2]:
                if k_ == ("attr", ("module", "ast"), opname):
                    args = [undispatch(model, a, opname, op_subject) for a in t[2]]
                    if v_[0] == "attr" and v_[1] == ("module", "operator") and v_[2] in OPERATOR_FUNCS:
                        name, swapped = OPERATOR_FUNCS[v_[2]]
                        if swapped:
                            args = args[::-1]
                        return ("op", name, tuple(args))
                    lo = _lambda_op(model, v_[1]) if v_[0] == "lambda" else _func_op(model, v_)
                    if lo is not None and len(lo[1]) == len(args):
                        return ("op", lo[0], tuple(args[i] for i in lo[1]))
                    return ("unk", "dispatch:" + show(v_, 40))
            return ("unk", "no-row:" + opname)
    if t[0] == "op":
        return ("op", t[1], tuple(undispatch(model, x, opname, op_subject) for x in t[2]))
    if t[0] in ("phi",):
        return (t[0], tuple(undispatch(model, x, opname, op_subject) for x in t[1]))
    return t


def optable(run, model, rule="C06.optable"):
    """Every operator class of the running interpreter has a row applying that operator to the visited operands."""
    # ---- unary / binary
    for meth, base, operands in (("visit_UnaryOp", ast.unaryop, ("operand",)), ("visit_BinOp", ast.operator, ("left", "right"))):
        fi = model.method("_recompute", "Visitor", meth)
        flow = get_flow(model, fi)
        run.saw(flow)
        ps = tables.paths(flow)
        subject = ("attr", NODE, "op")
        for cls in base.__subclasses__():
            name = cls.__name__

            def ev(t, name=name):
                ts = strip_sites(t)
                ops = _isinstance_op(ts, subject)
                if ops is not None:
                    return name in ops
                ra = row_atom(t, name, subject)
                if ra is not None:
                    return ra
                return _placeholder_false(t)

            feas = [p for p in ps if tables.feasible(p, ev)]
            construct = "%s[%s]" % (fi.qual, name)
            bad = None
            if len(feas) != 1:
                bad = "%d feasible paths for the operator (expected one)" % len(feas)
            else:
                p = feas[0]
                if p.outcome is None or p.outcome[0] != "return":
                    bad = "the operator %s is not handled (%s)" % (name, tables.classify(p))
                else:
                    rt = undispatch(model, p.outcome[1], name, subject)
                    want_ops = tuple(("attr", NODE, o) for o in operands)
                    got = None
                    if rt[0] == "op" and rt[1] == name:
                        got = tuple(_visit_of(x) for x in rt[2])
                    if got != want_ops:
                        bad = "for ast.%s the method computes %s, expected the operator %s applied to the re-computed %s in that order" % (name, show(strip_sites(rt), 90), name, "/".join(operands))
                    else:
                        stored = [undispatch(model, vt, name, subject) for tt, vt, n in p.stores if tt == ("idx", ("attr", ("param", "self"), "recomputed_values"), NODE)]
                        if stored != [rt]:
                            bad = "the value stored for the node differs from the value returned"
            run.check(bad is None, rule, construct, "ast.%s -> %s(%s)" % (name, name, ", ".join(operands)), bad or "", fi.loc(), None, name)
    # ---- comparisons (loop body)
    fi = model.method("_recompute", "Visitor", "visit_Compare")
    flow = get_flow(model, fi)
    run.saw(flow)
    heads = [n for n in flow.cfg.nodes if n.kind == "next"]
    if len(heads) != 1:
        run.violation(rule, fi.qual, "expected one loop over the comparators/operators", fi.loc())
        return
    head = heads[0]
    it = None
    for k, p in head.pred:
        if p.kind == "iter":
            it = flow.term(p.ast, p)
    its = strip_sites(it)
    zipped = None
    for s in subterms(its):
        if s[0] == "call" and s[1] == ("builtin", "zip"):
            zipped = s
    if zipped is None or zipped[2] != (("attr", NODE, "comparators"), ("attr", NODE, "ops")):
        run.violation(rule, fi.qual, "the loop does not walk zip(node.comparators, node.ops) (walks %s): operators and comparators would be mis-paired" % show(its, 80), fi.loc(head), None, first_line(head.stmt))
        return
    start = [t for k, t in head.succ if k == "T"][0]
    after = set(t.id for k, t in head.succ if k == "F")
    ps = tables.paths(flow, start, {head.id} | after, stop_at_loops=True)
    # terms of the loop variables
    def var_term(name):
        for d in flow.node_defs.get(head.id, []):
            if d.name == name:
                return flow.def_term(d)
        return None
    OP = _compare_op_term(fi, flow, head)
    left_name = None
    for cls in ast.cmpop.__subclasses__():
        name = cls.__name__

        def ev(t, name=name):
            ts = strip_sites(t)
            ops = _isinstance_op(ts, strip_sites(OP))
            if ops is not None:
                return name in ops
            ra = row_atom(t, name, OP)
            if ra is not None:
                return ra
            v = _placeholder_false(t)
            if v is not None:
                return v
            return None

        feas = [p for p in ps if tables.feasible(p, ev) and not (p.outcome and p.outcome[0] == "raise")]
        construct = "%s[%s]" % (fi.qual, name)
        bad = None
        results = set()
        for p in feas:
            r = p.env.get("result") or p.env.get("comparison")
            cands = [undispatch(model, v, name, OP) for k, v in p.env.items()]
            cands = [v for v in cands if v[0] == "op" and v[1].startswith("cmp:") and len(v[2]) == 2 and _visit_of(v[2][1]) is not None]
            if not cands:
                bad = "ast.%s is not computed on some path" % name
                continue
            for v in cands:
                results.add(v)
        if not feas:
            bad = "the comparison operator ast.%s is not handled" % name
        for v in results:
            if v[1] != "cmp:" + name:
                bad = "for ast.%s the method computes `%s`" % (name, v[1][4:])
            else:
                l, r = v[2]
                comp_visit = _visit_of(r)
                if comp_visit is None or not show(strip_sites(comp_visit)).endswith("[0]") and "zip" not in show(strip_sites(comp_visit)):
                    bad = "the right operand of ast.%s is %s, not the re-computed comparator of this step" % (name, show(strip_sites(r), 60))
                lalts = l[1] if l[0] == "phi" else (l,)
                okl = all((_visit_of(a) == ("attr", NODE, "left")) or (_visit_of(a) is not None and "zip" in show(strip_sites(_visit_of(a)))) for a in lalts)
                if not okl:
                    bad = "the left operand of ast.%s is %s, not the running left value (node.left, then the previous comparator)" % (name, show(strip_sites(l), 60))
        run.check(bad is None, rule, construct, "ast.%s -> left %s comparator" % (name, name), bad or "", fi.loc(head), None, name)


def _compare_op_term(fi, flow, head):
    """The term of the loop variable that holds the operator node in ``for ... in zip(node.comparators, node.ops)``."""
    names = [d.name for d in flow.node_defs.get(head.id, [])]
    op_name = None
    for d in flow.node_defs.get(head.id, []):
        t = strip_sites(flow.def_term(d))
        # (comparator_node, op) = elem(zip)  possibly under enumerate
        s = show(t)
        if s.endswith("[1]") and "zip" in s and not s.endswith("[0][1]") or s.endswith("[1][1]"):
            op_name = d.name
    if op_name is None:
        raise AnalysisError("%s: the loop variables over zip(comparators, ops) were not recognised (%s)" % (fi.qual, names))
    return flow.def_term([d for d in flow.node_defs[head.id] if d.name == op_name][0])


def chain_and_lazy_compare(run, model, rule_chain="C06.chain", rule_lazy="C07.lazy"):
    fi = model.method("_recompute", "Visitor", "visit_Compare")
    flow = get_flow(model, fi)
    run.saw(flow)
    heads = [n for n in flow.cfg.nodes if n.kind == "next"]
    if len(heads) != 1:
        run.violation(rule_chain, fi.qual, "expected one loop over the comparators", fi.loc())
        return
    head = heads[0]
    start = [t for k, t in head.succ if k == "T"][0]
    after = set(t.id for k, t in head.succ if k == "F")
    ps = tables.paths(flow, start, {head.id} | after, stop_at_loops=True)
    try:
        OP = _compare_op_term(fi, flow, head)
    except AnalysisError:
        OP = None
    # the running left operand: the local first bound to visit(node.left)
    left_var = None
    for lst in flow.node_defs.values():
        for d in lst:
            if d.kind == "assign" and d.value is not None and _visit_of(flow.term(d.value, d.node)) == ("attr", NODE, "left") and left_var is None:
                left_var = d.name
    # identify the per-step comparator visit and the truth atom of the step's result
    rows = []
    for holds in (True, False):
        for last in (True, False):
            def ev(t, holds=holds, last=last):
                if OP is not None:
                    ra = row_atom(t, "Lt", OP)  # the Lt row stands for the operator dispatch
                    if ra is not None:
                        return ra
                    t = undispatch(model, t, "Lt", OP)
                ts = strip_sites(t)
                v = _placeholder_false(t)
                if v is not None:
                    return v
                if ts[0] == "call" and ts[1] == ("builtin", "isinstance"):
                    return None
                # "is last": i == len(node.ops) - 1
                s = show(ts)
                if ts[0] == "op" and ts[1] in ("cmp:Eq", "cmp:NotEq", "cmp:Lt", "cmp:GtE") and "len(" in s and ("node.ops" in s or "node.comparators" in s):
                    if ts[1] == "cmp:Eq":
                        return last
                    if ts[1] == "cmp:NotEq":
                        return not last
                    if ts[1] == "cmp:Lt":
                        return not last
                    if ts[1] == "cmp:GtE":
                        return last
                if ts[0] == "op" and ts[1].startswith("cmp:") and any(_visit_of(x) is not None for x in ts[2]):
                    return holds  # truthiness of the comparison just computed
                if ts[0] == "op" and ts[1] == "Not" and ts[2][0][0] == "op" and ts[2][0][1].startswith("cmp:"):
                    return not holds
                if ts[0] == "phi" and all(a[0] == "op" and a[1].startswith("cmp:") for a in ts[1]):
                    return holds
                if ts[0] == "op" and ts[1] == "Not" and ts[2][0][0] == "phi":
                    return not holds
                return None

            # take the Eq row as representative of the operator dispatch
            def ev2(t, ev=ev):
                ts = strip_sites(t)
                if ts[0] == "call" and ts[1] == ("builtin", "isinstance") and len(ts[2]) == 2 and ts[2][1] == ("attr", ("module", "ast"), "Lt"):
                    return True
                if ts[0] == "call" and ts[1] == ("builtin", "isinstance") and len(ts[2]) == 2 and ts[2][1][0] == "attr" and ts[2][1][1] == ("module", "ast"):
                    return False
                return ev(t)

            feas = [p for p in ps if tables.feasible(p, ev2) and not (p.outcome and p.outcome[0] == "raise")]
            exits = set()
            lefts = set()
            for p in feas:
                last_node = p.nodes[-1]
                exits.add("continue" if last_node.id == head.id else "exit")
                if last_node.id == head.id:
                    lv = p.env.get(left_var) if left_var else None
                    lefts.add(lv is not None and _visit_of(lv) is not None and "zip" in show(strip_sites(_visit_of(lv))))
            rows.append((holds, last, exits, lefts))
    for holds, last, exits, lefts in rows:
        construct = "%s[comparison %s, %s step]" % (fi.qual, "holds" if holds else "does not hold", "last" if last else "inner")
        want = "continue" if (holds and not last) else "exit"
        if exits != {want}:
            run.violation(rule_lazy, construct, "the loop must %s here, but can %s: Python stops a comparison chain at the first comparison that does not hold and never evaluates the later comparators (they may be undefined, e.g. `0 < n < 10 // n`)" % ("go on to the next comparator" if want == "continue" else "stop", sorted(exits)), fi.loc(head), None, construct.split("[", 1)[1])
        else:
            run.ok(rule_lazy, construct, want, fi.loc(head))
        if want == "continue":
            run.check(lefts == {True}, rule_chain, construct, "the comparator of this step becomes the left operand of the next", "the left operand is not advanced to this step's comparator: `a < b < c` is re-computed as `a < b` and `a < c`", fi.loc(head), None, "left advance")
    # exactly one visit of a comparator per step and none outside the loop
    inside = set(id(sub) for st in head.stmt.body for sub in ast.walk(st))
    n_in = n_out = 0
    for n in flow.cfg.nodes:
        for call, c, a in calls_in(n):
            v = _visit_of(flow.term(call, n))
            if v is not None and v != ("attr", NODE, "left"):
                if id(n.stmt) in inside:
                    n_in += 1
                else:
                    n_out += 1
    run.check(n_in == 1 and n_out == 0, rule_lazy, fi.qual + ":visits", "one comparator is visited per step, none outside the lazy loop", "%d comparator visits inside the loop, %d outside (all comparators evaluated eagerly?)" % (n_in, n_out), fi.loc())


def lazy_boolop(run, model, rule="C07.lazy", rule_value="C06.optable"):
    fi = model.method("_recompute", "Visitor", "visit_BoolOp")
    flow = get_flow(model, fi)
    run.saw(flow)
    heads = [n for n in flow.cfg.nodes if n.kind == "next"]
    vals = ("attr", NODE, "values")
    loops_over_values = []
    for h in heads:
        for k, p in h.pred:
            if p.kind == "iter":
                it = strip_sites(flow.term(p.ast, p))
                if any(s == vals for s in subterms(it)):
                    loops_over_values.append((h, it))
    # comprehensions over node.values (eager evaluation)
    comps = [sub for sub in ast.walk(fi.node) if isinstance(sub, (ast.ListComp, ast.GeneratorExp, ast.SetComp)) and any("node.values" in src_of(g.iter) for g in sub.generators) and any(isinstance(c, ast.Call) and src_of(c.func) == "self.visit" for c in ast.walk(sub.elt))]
    if comps:
        run.violation(rule, fi.qual, "all operands of and/or are re-computed eagerly (`%s`): Python skips the operands after the deciding one, which may be undefined there (`xs and xs[0] > 0`)" % first_line(comps[0], 80), fi.loc(comps[0]), None, first_line(comps[0], 80))
        return
    if len(loops_over_values) != 1:
        run.violation(rule, fi.qual, "expected exactly one loop visiting the operands one by one, found %d" % len(loops_over_values), fi.loc())
        return
    head, it = loops_over_values[0]
    start = [t for k, t in head.succ if k == "T"][0]
    after = set(t.id for k, t in head.succ if k == "F")
    ps = tables.paths(flow, start, {head.id} | after, stop_at_loops=True)
    subject = ("attr", NODE, "op")
    # the variable holding the operation's value: the name that is returned and stored for the node
    result_var = None
    for n in flow.cfg.nodes:
        if n.kind == "return" and isinstance(n.ast, ast.Name) and not _is_placeholder_flag(strip_sites(flow.term(n.ast, n))) and flow.term(n.ast, n) != ("global", "_recompute", "PLACEHOLDER"):
            result_var = n.ast.id
    for opname in ("And", "Or"):
        for truthy in (True, False):
            for last in (True, False):
                def ev(t, opname=opname, truthy=truthy, last=last):
                    ts = strip_sites(t)
                    ops = _isinstance_op(ts, subject)
                    if ops is not None:
                        return opname in ops
                    v = _placeholder_false(t)
                    if v is not None:
                        return v
                    if (ts[0] == "phi" and all(a in (("const", "True"), ("const", "False")) for a in ts[1])) or ts in (("const", "False"),):
                        return False
                    s = show(ts)
                    if ts[0] == "op" and ts[1] in ("cmp:Eq", "cmp:NotEq", "cmp:Lt", "cmp:GtE") and "len(" in s and "node.values" in s:
                        return {"cmp:Eq": last, "cmp:NotEq": not last, "cmp:Lt": not last, "cmp:GtE": last}[ts[1]]
                    if _visit_of(ts) is not None:
                        return truthy
                    if ts[0] == "op" and ts[1] == "Not" and _visit_of(ts[2][0]) is not None:
                        return not truthy
                    return None

                feas = [p for p in ps if tables.feasible(p, ev) and not (p.outcome and p.outcome[0] == "raise")]
                exits = set("continue" if p.nodes[-1].id == head.id else "exit" for p in feas)
                decides = (opname == "And" and not truthy) or (opname == "Or" and truthy)
                want = "exit" if (decides or last) else "continue"
                construct = "%s[%s, operand %s, %s]" % (fi.qual, opname.lower(), "truthy" if truthy else "falsy", "last" if last else "not last")
                if exits != {want}:
                    run.violation(rule, construct, "the loop over the operands must %s here but can %s: the operands after the deciding one must not be re-computed (Python skipped them), and evaluation must not stop earlier" % ("stop" if want == "exit" else "go on", sorted(exits)), fi.loc(head), None, construct.split("[", 1)[1])
                else:
                    run.ok(rule, construct, want, fi.loc(head))
                # the value of the operation is the deciding / last operand itself
                if want == "exit":
                    okv = result_var is not None and all(_visit_of(p.env.get(result_var, ("x",))) is not None for p in feas)
                    run.check(okv, rule_value, construct, "the value of the operation is the operand that decided it", "the value of `%s` is not the deciding operand itself (e.g. folded from a constant): calls and subscripts that use it are reported with a wrong value" % opname.lower(), fi.loc(head), None, "value:" + construct.split("[", 1)[1])
    # visits only inside the loop, one per iteration; no other evaluation of operands (e.g. in a try/except afterwards)
    inside = set(id(sub) for st in head.stmt.body for sub in ast.walk(st))
    n_in = n_out = 0
    for n in flow.cfg.nodes:
        for call, c, a in calls_in(n):
            if _visit_of(flow.term(call, n)) is not None:
                if id(n.stmt) in inside:
                    n_in += 1
                else:
                    n_out += 1
    for sub in ast.walk(fi.node):
        if isinstance(sub, (ast.For, ast.While)) and sub is not head.stmt and id(sub) not in inside:
            if any(isinstance(c, ast.Call) and src_of(c.func) == "self.visit" for c in ast.walk(sub)):
                n_out += 1
    run.check(n_in == 1 and n_out == 0, rule, fi.qual + ":visits", "one operand is visited per step, none outside the lazy loop", "%d operand visits inside the lazy loop and %d outside it: operands that Python's short-circuit skipped are evaluated while the message is built" % (n_in, n_out), fi.loc())
    # final store / return
    ret_ok = result_var is not None
    run.check(ret_ok, rule_value, fi.qual + ":return", "returns the value of the deciding operand", "the method does not return the deciding operand's value", fi.loc())


def lazy_ifexp(run, model, rule="C07.lazy"):
    fi = model.method("_recompute", "Visitor", "visit_IfExp")
    flow = get_flow(model, fi)
    run.saw(flow)
    ps = tables.paths(flow)
    for truthy in (True, False):
        def ev(t, truthy=truthy):
            ts = strip_sites(t)
            v = _placeholder_false(t)
            if v is not None:
                return v
            if _visit_of(ts) == ("attr", NODE, "test"):
                return truthy
            return None
        feas = [p for p in ps if tables.feasible(p, ev)]
        visited = set()

        def chosen(t, ev=ev):
            """a node picked by a conditional expression (``node.body if test else node.orelse``) under this case"""
            t = strip_sites(t)
            while t[0] == "op" and t[1] == "ifexp":
                v = tables.evaluate(t[2][0], ev)
                if v is None:
                    return t
                t = t[2][1] if v else t[2][2]
            return t

        for p in feas:
            vs = tuple(sorted(show(chosen(_visit_of(ct))) for ct, n in p.calls if _visit_of(ct) is not None))
            visited.add(vs)
        want = tuple(sorted(["node.test", "node.body" if truthy else "node.orelse"]))
        run.check(visited == {want}, rule, "%s[test %s]" % (fi.qual, "truthy" if truthy else "falsy"), "visits %s only" % (want,), "visits %s (expected %s): the arm Python did not take is evaluated" % (sorted(visited), want), fi.loc(), None, "test=%s" % truthy)


def node_value(run, model, rule="C06.node-value"):
    """Each visit_* stores under its own node exactly the value it returns; PLACEHOLDER is never stored."""
    whitelist = {"visit_GeneratorExp": "no store by design (a generator's repr is uninformative)", "visit_FormattedValue": "part of an f-string; only the joined string is shown", "visit_Lambda": "raises", "visit_Return": "raises"}
    rv = ("attr", ("param", "self"), "recomputed_values")
    for fi in model.methods("_recompute", "Visitor"):
        if not fi.name.startswith("visit_"):
            continue
        flow = get_flow(model, fi)
        run.saw(flow)
        stores = []
        for n in flow.cfg.nodes:
            if n.kind == "stmt" and isinstance(n.ast, ast.Assign):
                for tg in n.ast.targets:
                    if isinstance(tg, ast.Subscript) and flow.term(tg.value, n) == rv:
                        stores.append((n, flow.term(tg.slice, n), flow.term(n.ast.value, n), n.ast.value))
        rets = [(n, flow.term(n.ast, n)) for n in flow.cfg.nodes if n.kind == "return" and n.ast is not None]
        if fi.name in whitelist:
            run.ok(rule, fi.qual, "whitelisted: %s" % whitelist[fi.name], fi.loc(), nontrivial=False)
            continue
        if not stores:
            run.violation(rule, fi.qual, "the method never records the value of its node (it would be missing from every message)", fi.loc())
            continue
        bad = None
        for n, key, val, vexpr in stores:
            if key != NODE:
                bad = (n, "the value is recorded under %s, not under the node being visited" % show(strip_sites(key)))
            if val == ("global", "_recompute", "PLACEHOLDER"):
                bad = (n, "the internal placeholder is recorded as a value")
            # the stored value is what is returned: the same expression (name or term) is returned after the store
            after = flow.cfg.reachable_from(n, lambda k, a, b: k not in ("exc", "unmatched"))
            rs = [(rn, rt) for rn, rt in rets if rn.id in after]
            if not rs:
                bad = (n, "nothing is returned after the value was recorded")
            for rn, rt in rs:
                same = rt == val or (isinstance(rn.ast, ast.Name) and isinstance(vexpr, ast.Name) and rn.ast.id == vexpr.id) or strip_sites(rt) == strip_sites(val)
                if not same:
                    ralts = rt[1] if rt[0] == "phi" else (rt,)
                    if val not in ralts:
                        bad = (rn, "the value returned (%s) is not the value recorded for the node (%s)" % (show(strip_sites(rt), 60), show(strip_sites(val), 60)))
        run.check(bad is None, rule, fi.qual, "records recomputed_values[node] = <the value it returns>", bad[1] if bad else "", fi.loc(bad[0]) if bad else fi.loc(), None, first_line(bad[0].stmt) if bad else None)


def repr_coupling(run, model, rule="C06.repr-coupling"):
    rv = ("attr", ("param", "self"), "_recomputed_values")
    for fi in model.methods("_represent", "Visitor"):
        if not fi.name.startswith("visit_"):
            continue
        flow = get_flow(model, fi)
        run.saw(flow)
        bad = None
        stores = []
        for n in flow.cfg.nodes:
            if n.kind == "stmt" and isinstance(n.ast, ast.Assign):
                for tg in n.ast.targets:
                    if isinstance(tg, ast.Subscript) and flow.term(tg.value, n) == ("attr", ("param", "self"), "reprs"):
                        stores.append((n, strip_sites(flow.term(tg.slice, n)), strip_sites(flow.term(n.ast.value, n))))
        if not stores:
            bad = (fi.node, "the method never adds an entry to the shown values")
        for n, key, val in stores:
            want_val = ("idx", rv, NODE)
            if val != want_val:
                bad = (n, "the value shown is %s, not the value re-computed for this node" % show(val))
            if fi.name == "visit_NamedExpr":
                if key != ("attr", ("attr", NODE, "target"), "id"):
                    bad = (n, "an assignment expression is shown under %s, expected the target's name" % show(key))
            else:
                want_key = ("call", ("attr", ("attr", ("param", "self"), "_atok"), "get_text"), (NODE,), ())
                if key != want_key:
                    bad = (n, "the text shown is %s, not the source text of this node" % show(key))
            # guarded by `node in recomputed_values`
            gg = GuardGraph(flow)
            atom = ("op", "cmp:In", (NODE, rv))
            if not any(strip_sites(a) == atom and pol for (nid, k), (kn, atoms) in gg.edge_facts.items() for a, pol in kn):
                bad = (n, "the entry is not guarded by `node in recomputed_values`")
        # guards: calls, subscripts and comprehensions are shown whenever they were re-computed; names, attributes,
        # assignment expressions and f-strings additionally only when representable
        dom = flow.cfg.dominators()
        byid = {x.id: x for x in flow.cfg.nodes}
        rep_fi = model.func("_represent._representable")
        for n, key, val in stores:
            kinds = set()
            for did in dom[n.id]:
                dn = byid[did]
                if dn.kind != "test" or dn is n:
                    continue
                tt = strip_sites(flow.term(dn.ast, dn))
                if tables.evaluate(tt, lambda _t: None) is not None:
                    continue  # decided by constants alone (a flag of an inlined helper): not a guard
                found = False
                # a conjunct decided by a constant does not guard anything either
                live = [c_ for c_ in (tt[2] if tt[0] == "op" and tt[1] in ("And", "Or") else (tt,)) if tables.evaluate(c_, lambda _t: None) is None]
                for part in live:
                    subs = list(subterms(part))
                    if any(sx in (("op", "cmp:In", (NODE, rv)), ("op", "cmp:NotIn", (NODE, rv))) for sx in subs):
                        kinds.add("recomputed")
                        found = True
                    elif any(sx[0] == "call" and fi_of_term(model, sx[1]) is rep_fi for sx in subs):
                        kinds.add("representable")
                        found = True
                        # ... of the value that is shown, not of something else that happens to be at hand
                        for sx in subs:
                            if sx[0] == "call" and fi_of_term(model, sx[1]) is rep_fi:
                                tested = [strip_sites(a_) for a_ in sx[2]] + [strip_sites(kv[1]) for kv in (sx[3] if len(sx) > 3 else ())]
                                if tested and val not in tested and bad is None:
                                    bad = (dn, "the representability test looks at %s, but the value shown is %s: a class, function, method or module bound to this expression is not filtered out of the message" % (", ".join(show(t_, 40) for t_ in tested), show(val, 40)))
                    elif fi.name == "visit_Name":
                        kinds.add("non-builtin")
                        found = True
                if not found:
                    kinds.add("other:" + show(tt, 60))
            want = {"recomputed"}
            if fi.name in ("visit_Name", "visit_Attribute", "visit_NamedExpr", "visit_JoinedStr"):
                want = {"recomputed", "representable"}
            if fi.name == "visit_Name":
                kinds.discard("non-builtin")  # the shadowed-builtin test may be a test of its own or a conjunct
                # a name is shown only if one of the lookup tables binds it (otherwise it is a builtin): either a
                # flag loop over self._variable_lookup with `node.id in lookup`, or any(...) over the same
                vl = ("attr", ("param", "self"), "_variable_lookup")
                idiom = None
                for h in flow.cfg.nodes:
                    if h.kind == "next" and any(pp.kind == "iter" and strip_sites(flow.term(pp.ast, pp)) == vl for _, pp in h.pred):
                        inside = set(id(sub) for st_ in h.stmt.body for sub in ast.walk(st_))
                        for t2 in flow.cfg.nodes:
                            if t2.kind == "test" and id(t2.stmt) in inside:
                                tt2 = strip_sites(flow.term(t2.ast, t2))
                                if tt2[0] == "op" and tt2[1] == "cmp:In" and tt2[2][0] == ("attr", NODE, "id") and tt2[2][1] == ("elem", vl):
                                    idiom = "loop"
                for sub in ast.walk(fi.node):
                    if isinstance(sub, ast.Call) and isinstance(sub.func, ast.Name) and sub.func.id == "any" and sub.args and isinstance(sub.args[0], ast.GeneratorExp):
                        g = sub.args[0]
                        if len(g.generators) == 1 and src_of(g.generators[0].iter) == "self._variable_lookup" and isinstance(g.generators[0].target, ast.Name) and src_of(g.elt) == "node.id in %s" % g.generators[0].target.id and not g.generators[0].ifs:
                            idiom = "any"
                # ... or a helper method of the visitor doing the same walk: self.<helper>(node.id)
                for sub in ast.walk(fi.node):
                    if isinstance(sub, ast.Call) and isinstance(sub.func, ast.Attribute) and isinstance(sub.func.value, ast.Name) and sub.func.value.id == "self":
                        hm = model.method("_represent", "Visitor", sub.func.attr, required=False)
                        args_ = list(sub.args) + [kw.value for kw in sub.keywords]
                        if hm is not None and len(args_) == 1 and src_of(args_[0]) == "node.id" and len(hm.params) == 2:
                            hp = hm.params[1]
                            hfl = get_flow(model, hm)
                            for h2 in hfl.cfg.nodes:
                                if h2.kind == "next" and any(pp.kind == "iter" and strip_sites(hfl.term(pp.ast, pp)) == vl for _, pp in h2.pred):
                                    inside2 = set(id(x_) for st_ in h2.stmt.body for x_ in ast.walk(st_))
                                    tests2 = [t2 for t2 in hfl.cfg.nodes if t2.kind == "test" and id(t2.stmt) in inside2]
                                    rets = [strip_sites(hfl.term(r_.ast, r_)) for r_ in hfl.cfg.nodes if r_.kind == "return" and r_.ast is not None]
                                    inside_rets = [strip_sites(hfl.term(r_.ast, r_)) for r_ in hfl.cfg.nodes if r_.kind == "return" and r_.ast is not None and id(r_.stmt) in inside2]
                                    if len(tests2) == 1 and strip_sites(hfl.term(tests2[0].ast, tests2[0])) == ("op", "cmp:In", (("param", hp), ("elem", vl))) and inside_rets == [("const", "True")] and sorted(rets) == [("const", "False"), ("const", "True")]:
                                        idiom = "helper"
                if idiom is None and bad is None:
                    bad = (n, "whether a name is a builtin is not decided by looking it up in the tables of arguments, closure and globals: builtin constants (NotImplemented, Ellipsis, ...) would be listed, or shadowing arguments hidden")
            if kinds != want and bad is None:
                extra = sorted(kinds - want)
                missing = sorted(want - kinds)
                bad = (n, "the entry is shown under the guards %s, expected %s%s" % (sorted(kinds), sorted(want), ": re-computed %s whose value is a class, function, method, module or builtin would silently disappear from the message" % fi.name[6:].lower() if "representable" in extra else ""))
        # descent
        calls = [src_of(c) for c in ast.walk(fi.node) if isinstance(c, ast.Call)]
        descends = any(c.startswith("self.generic_visit(") for c in calls)
        if fi.name == "visit_JoinedStr":
            if descends:
                bad = bad or (fi.node, "f-strings are shown as a whole; descending into their parts is not expected")
        elif not descends and fi.name == "visit_Name":
            pass  # a Name is a leaf: its only child is the field-less context, there is nothing to descend into
        elif not descends:
            bad = bad or (fi.node, "the method does not descend into the children of the node (their values are never shown)")
        else:
            # the descent is unconditional: generic_visit dominates the normal exit
            dom = flow.cfg.dominators()
            gv = [n for n in flow.cfg.nodes for call, c, a in calls_in(n) if src_of(call.func) == "self.generic_visit"]
            if not gv or gv[0].id not in dom[flow.cfg.exit_return.id]:
                bad = bad or (gv[0] if gv else fi.node, "the descent into the children happens only on some paths")
        node = bad[0] if bad else None
        run.check(bad is None, rule, fi.qual, "reprs[text of node] = recomputed value of the same node; children visited", bad[1] if bad else "", fi.loc(node) if bad else fi.loc(), None, first_line(node.stmt) if bad and hasattr(node, "stmt") and node.stmt is not None else None)


def lookup(run, model, rule="C06.lookup"):
    # ---- order of the tables
    fi = model.func("_represent.collect_variable_lookup")
    flow = get_flow(model, fi)
    run.saw(flow)
    apps = []
    for n in flow.cfg.nodes:
        for call, c, a in calls_in(n):
            t = flow.term(call, n)
            if t[0] == "call" and t[1][0] == "attr" and t[1][2] == "append" and t[1][1][0] == "display":
                apps.append((n, strip_sites(t[2][0])))
    kinds = []
    apps.sort(key=lambda x: x[0].lineno)
    unrestricted = None

    def restricted_args(n):
        """the table appended at ``n`` is {k: v for k, v in resolved_kwargs.items() if k in signature(condition).parameters}"""
        cands = [arg for call, c_, a_ in calls_in(n) for arg in call.args] if n is not None else [x for x in ast.walk(fi.node) if isinstance(x, ast.DictComp)]
        # the table may be bound to a local first (and completed with the defaults of the condition's parameters)
        for arg in list(cands):
            if isinstance(arg, ast.Name):
                cands += [st.value for st in ast.walk(fi.node) if isinstance(st, (ast.Assign, ast.AnnAssign)) and getattr(st, "value", None) is not None and any(isinstance(tg, ast.Name) and tg.id == arg.id for tg in (st.targets if isinstance(st, ast.Assign) else [st.target]))]
        n = n if n is not None else [x for x in flow.cfg.nodes if x.kind in ("stmt", "return") and x.ast is not None][0]
        if True:
            for arg in cands:
                if isinstance(arg, ast.DictComp) and len(arg.generators) == 1 and len(arg.generators[0].ifs) == 1:
                    g = arg.generators[0]
                    it = strip_sites(flow.term(g.iter, n))
                    cond = g.ifs[0]
                    if it == ("call", ("attr", ("param", "resolved_kwargs"), "items"), (), ()) and isinstance(g.target, ast.Tuple) and len(g.target.elts) == 2 and all(isinstance(x, ast.Name) for x in g.target.elts) and isinstance(arg.key, ast.Name) and arg.key.id == g.target.elts[0].id and isinstance(arg.value, ast.Name) and arg.value.id == g.target.elts[1].id and isinstance(cond, ast.Compare) and len(cond.ops) == 1 and isinstance(cond.ops[0], ast.In) and isinstance(cond.left, ast.Name) and cond.left.id == g.target.elts[0].id:
                        ct = strip_sites(flow.term(cond.comparators[0], n))
                        if any(s_[0] == "attr" and s_[2] == "parameters" and s_[1][0] == "call" and s_[1][1] == ("attr", ("module", "inspect"), "signature") and ("param", "condition") in (list(s_[1][2]) + [v_ for _, v_ in s_[1][3]]) for s_ in subterms(ct)) and not any(s_[0] == "phi" for s_ in subterms(ct)):
                            return True
        return False

    for n, a in apps:
        s = show(a)
        if a == ("param", "resolved_kwargs"):
            kinds.append("arguments")
            unrestricted = n
        elif a[0] == "comp" and restricted_args(n):
            kinds.append("arguments")
        elif a[0] == "display" and a[1] == "dict" or "dict()" in s:
            kinds.append("closure")
        elif "__globals__" in s:
            kinds.append("globals")
        else:
            kinds.append(s)
    ordered = all(a[0].lineno < b[0].lineno for a, b in zip(apps, apps[1:]))
    if not apps:
        # the list is put together by concatenation: [args]-or-[] + [closure] + [globals]-or-[]
        def pieces(t):
            if t[0] == "op" and t[1] == "Add":
                return [p_ for x in t[2] for p_ in pieces(x)]
            return [t]

        def elems(t):
            if t[0] == "display" and t[1] == "list":
                return list(t[2])
            if t[0] == "op" and t[1] == "ifexp":
                return elems(t[2][1]) + elems(t[2][2])
            if t[0] == "phi":
                return [e_ for x in t[1] for e_ in elems(x)]
            return [t]

        rets = [strip_sites(flow.term(n.ast, n)) for n in flow.cfg.nodes if n.kind == "return" and n.ast is not None]
        if len(rets) == 1:
            seq = []
            for p_ in pieces(rets[0]):
                for e_ in elems(p_):
                    if e_ not in seq:
                        seq.append(e_)
            for a in seq:
                s = show(a)
                if a == ("param", "resolved_kwargs"):
                    kinds.append("arguments")
                    unrestricted = [n_ for n_ in flow.cfg.nodes if n_.kind == "return"][0]
                elif a[0] == "comp" and restricted_args(None):
                    kinds.append("arguments")
                elif a[0] == "display" and a[1] == "dict" or "dict()" in s:
                    kinds.append("closure")
                elif "__globals__" in s:
                    kinds.append("globals")
                else:
                    kinds.append(s)
    run.check(kinds == ["arguments", "closure", "globals"] and ordered, rule, fi.qual, "lookup tables are appended in the order arguments, closure, globals", "the lookup tables are appended as %s" % kinds, fi.loc())
    # the arguments of the call bind the *parameters of the condition* only: any other name of the condition is a
    # closure variable or a global, whatever the decorated function's other arguments are called
    run.check(unrestricted is None, rule, fi.qual + ":parameters-only", "only the condition's own parameters are looked up among the arguments of the call", "all arguments of the call are offered as bindings for the names of the condition: a closure variable or global of the condition that is named like another argument of the function is shown (and sub-expressions are re-computed) with the argument's value, not with the value the condition saw", fi.loc(unrestricted) if unrestricted is not None else fi.loc(), None, first_line(unrestricted.stmt) if unrestricted is not None else None)
    # a parameter of the condition that the call does not supply takes its *default*: the name must not fall through
    # to a closure variable or global of the same name (``lambda x, limit=10: x < limit`` next to a global ``limit``)
    from ..decomp import loops_view as _loops_view

    fi_v = _loops_view(model, fi)  # ``table.update({name: p.default for ... if ...})`` read as the loop it stands for
    flow_v = get_flow(model, fi_v)
    gg_ = GuardGraph(flow_v)
    # the table of arguments, by what it is bound to: the comprehension over ``resolved_kwargs.items()``
    first_tables = set()
    for st in ast.walk(fi.node):
        if isinstance(st, (ast.Assign, ast.AnnAssign)) and isinstance(getattr(st, "value", None), ast.DictComp) and len(st.value.generators) == 1:
            g_ = st.value.generators[0]
            if isinstance(g_.iter, ast.Call) and isinstance(g_.iter.func, ast.Attribute) and g_.iter.func.attr == "items" and isinstance(g_.iter.func.value, ast.Name) and g_.iter.func.value.id == "resolved_kwargs":
                for tg in (st.targets if isinstance(st, ast.Assign) else [st.target]):
                    if isinstance(tg, ast.Name):
                        first_tables.add(tg.id)
    dflt = None
    for n in flow_v.cfg.nodes:
        if n.kind == "stmt" and isinstance(n.ast, ast.Assign) and len(n.ast.targets) == 1 and isinstance(n.ast.targets[0], ast.Subscript) and isinstance(n.ast.targets[0].value, ast.Name) and n.ast.targets[0].value.id in first_tables and isinstance(n.ast.value, ast.Attribute) and n.ast.value.attr == "default":
            vt = strip_sites(flow_v.term(n.ast.value.value, n))
            from_params = any(s_[0] == "attr" and s_[2] == "parameters" and s_[1][0] == "call" and s_[1][1] == ("attr", ("module", "inspect"), "signature") for s_ in subterms(vt))
            if from_params:
                # ... only where the call has not supplied the value (the supplied value wins)
                tname = n.ast.targets[0].value.id
                guarded = False
                for (nid, k), (kn, atoms) in gg_.edge_facts.items():
                    for at, pol in kn:
                        ats = strip_sites(at)
                        if ats[0] == "op" and ats[1] in ("cmp:In", "cmp:NotIn") and (pol == (ats[1] == "cmp:NotIn")) and gg_.necessary([flow_v.cfg.entry], [n.id], (at, pol)):
                            cont = ats[2][1]
                            if cont == ("param", "resolved_kwargs") or "comp" in show(cont) or tname in show(cont) or cont[0] in ("comp", "display"):
                                guarded = True
                dflt = (n, guarded)
    if dflt is None:
        # one dictionary display / comprehension may do both: {**defaults, **supplied}
        pass
    run.check(dflt is not None and dflt[1], rule, fi.qual + ":defaults-of-condition", "a parameter of the condition that the call does not supply is looked up as its default value", ("the default of a condition parameter is entered into the table of arguments even when the call supplies the value: the message shows the default, not what the condition saw" if dflt is not None else "a parameter of the condition that has a default and is not supplied by the call is missing from the first lookup table: a closure variable or global of the same name is shown in the message instead of the default the condition compared with"), fi.loc(dflt[0]) if dflt else fi.loc(), None, first_line(dflt[0].stmt) if dflt else None)
    # closure cells are read at the time of the violation (no caching across calls)
    src = src_of(fi.node)
    run.check("cell_contents" in src and "co_freevars" in src, rule, fi.qual + ":closure", "closure values are read from the cells of the condition at the time of the violation", "closure values are not read from the condition's cells", fi.loc())
    # ---- first binding wins
    fi = model.method("_recompute", "Visitor", "__init__")
    flow = get_flow(model, fi)
    run.saw(flow)
    heads = [n for n in flow.cfg.nodes if n.kind == "next"]
    bad = None
    outer = [h for h in heads if any(p.kind == "iter" and flow.term(p.ast, p) == ("param", "variable_lookup") for _, p in h.pred)]
    if len(outer) != 1:
        bad = "the tables are not walked in the given order of precedence"
    else:
        muts = [(n, how, recv) for n, how, recv in __import__("sa.rules.meta", fromlist=["x"]).mutation_sites(model, fi)]
        upd = [m for m in muts if m[1] == "update"]
        if upd:
            bad = "tables are merged with dict.update: a later table (closure, globals) overrides an earlier one (arguments)"
        else:
            gg = GuardGraph(flow)
            store = [n for n in flow.cfg.nodes if n.kind == "stmt" and isinstance(n.ast, ast.Assign) and isinstance(n.ast.targets[0], ast.Subscript) and strip_sites(flow.term(n.ast.targets[0].value, n)) == ("attr", ("param", "self"), "_name_to_value")]
            if len(store) != 1:
                bad = "expected one store into the name table"
            else:
                st = store[0]
                key = flow.term(st.ast.targets[0].slice, st)
                ok = False
                for (nid, k), (kn, atoms) in gg.edge_facts.items():
                    for a, pol in kn:
                        a2 = strip_sites(a)
                        if a2[0] == "op" and a2[1] in ("cmp:NotIn", "cmp:In") and strip_sites(key) == a2[2][0] and a2[2][1] == ("attr", ("param", "self"), "_name_to_value"):
                            if (a2[1] == "cmp:NotIn") == pol and gg.necessary([t for k2, t in outer[0].succ if k2 == "T"], [st.id], (a, pol)):
                                ok = True
                if not ok:
                    bad = "a name is stored even when an earlier table already bound it (the first binding must win)"
    run.check(bad is None, rule, fi.qual, "the first table that binds a name wins", bad or "", fi.loc())
    # ---- builtins only for unbound names
    fi = model.method("_recompute", "Visitor", "visit_Name")
    flow = get_flow(model, fi)
    run.saw(flow)
    gg = GuardGraph(flow)
    b_nodes = [n for n in flow.cfg.nodes if n.kind == "stmt" and isinstance(n.ast, ast.Assign) and "builtins" in src_of(n.ast.value)]
    bad = None
    if len(b_nodes) != 1:
        bad = "expected one fallback to the builtins"
    else:
        bn = b_nodes[0]
        ok = False
        ntv = ("attr", ("param", "self"), "_name_to_value")
        for (nid, k), (kn, atoms) in gg.edge_facts.items():
            for a, pol in kn:
                a2 = strip_sites(a)
                if a2[0] == "op" and a2[1] in ("cmp:NotIn", "cmp:In") and a2[2] == (("attr", NODE, "id"), ntv) and (a2[1] == "cmp:NotIn") == pol:
                    if gg.necessary([flow.cfg.entry], [bn.id], (a, pol)):
                        ok = True
        if not ok:
            bad = "the builtins are consulted although the name is bound (e.g. an argument named `input` or `id` whose value is None): the message reports values computed on the builtin"
    run.check(bad is None, rule, fi.qual, "builtins are consulted only for names no table binds", bad or "", fi.loc(b_nodes[0]) if b_nodes else fi.loc())


def call_args(run, model, rule="C06.call-args"):
    fi = model.method("_recompute", "Visitor", "visit_Call")
    flow = get_flow(model, fi)
    run.saw(flow)
    src = src_of(fi.node)
    heads = [n for n in flow.cfg.nodes if n.kind == "next"]
    its = []
    for h in heads:
        for k, p in h.pred:
            if p.kind == "iter":
                its.append((h, strip_sites(flow.term(p.ast, p))))
    want_a = ("attr", NODE, "args")
    want_k = ("attr", NODE, "keywords")
    ha = [h for h, t in its if t == want_a]
    hk = [h for h, t in its if t == want_k]
    bad = None
    if len(ha) != 1 or len(hk) != 1:
        bad = "positional and keyword arguments are not re-computed in source order by loops over node.args / node.keywords"
    elif ha[0].lineno > hk[0].lineno:
        bad = "keyword arguments are re-computed before the positional ones"
    # the call: func(*args, **kwargs) with func = visit(node.func)
    callsite = None
    for n in flow.cfg.nodes:
        for call, c, a in calls_in(n):
            ft = flow.term(call.func, n)
            if _visit_of(ft) == ("attr", NODE, "func"):
                callsite = (n, call)
    if callsite is None:
        bad = bad or "the re-computed callee is never called"
    else:
        n, call = callsite
        ok = len(call.args) == 1 and isinstance(call.args[0], ast.Starred) and len(call.keywords) == 1 and call.keywords[0].arg is None
        if not ok:
            bad = bad or "the callee is not called with exactly the re-computed positional and keyword arguments: %s" % first_line(call)
    # starred arguments extend, plain ones append; ** merges
    if bad is None:
        from . import meta as _meta

        n, call = callsite
        A = flow.term(call.args[0].value, n)
        K = flow.term(call.keywords[0].value, n)
        hows = {}
        for mn, how, recv in _meta.mutation_sites(model, fi):
            if recv == A:
                for c2, cc, aa in calls_in(mn):
                    if isinstance(c2.func, ast.Attribute) and c2.func.attr == how and c2.args and _visit_of(flow.term(c2.args[0], mn)) is not None:
                        hows[how] = hows.get(how, 0) + 1
        if hows.get("extend", 0) != 1 or hows.get("append", 0) != 1:
            bad = "starred / plain positional arguments are not splatted (extend) / appended as Python does: %s" % hows
        kstores = [mn for mn, how, recv in _meta.mutation_sites(model, fi) if recv == K and how == "setitem"]
        if len(kstores) != 2 and bad is None:
            bad = "keyword arguments (named and ** splat) are not both collected into the keyword mapping"
    run.check(bad is None, rule, fi.qual, "callee(*positional in order with * splat, **keywords in order with ** splat)", bad or "", fi.loc())


def supported_forms(run, model, rule="C07.supported-forms"):
    """Every expression form named by the property has a visit_* method that does not unconditionally raise."""
    forms = ["Constant", "Name", "Attribute", "Subscript", "Slice", "Call", "UnaryOp", "BinOp", "BoolOp", "Compare", "IfExp", "NamedExpr", "JoinedStr", "FormattedValue", "List", "Tuple", "Set", "Dict", "ListComp", "SetComp", "DictComp", "GeneratorExp"]
    for f in forms:
        fi = model.method("_recompute", "Visitor", "visit_" + f, required=False)
        if fi is None:
            run.violation(rule, "_recompute.Visitor.visit_" + f, "no handler for ast.%s: a condition using this form cannot be re-computed, and the violation is replaced by an internal error" % f, "icontract/_recompute.py")
            continue
        flow = get_flow(model, fi)
        can_return = any(n.kind == "return" for n in flow.cfg.nodes) and flow.cfg.exit_return.pred
        # reachable return without passing an unconditional raise
        reach = flow.cfg.reachable_from(flow.cfg.entry, lambda k, a, b: k not in ("exc", "unmatched"))
        run.check(can_return and flow.cfg.exit_return.id in reach, rule, fi.qual, "handler present and can produce a value", "the handler of ast.%s always raises" % f, fi.loc())
    gv = model.method("_recompute", "Visitor", "generic_visit")
    run.check(gv is not None, rule, "_recompute.Visitor.generic_visit", "unknown node types are reported, not silently skipped", "no generic_visit", "icontract/_recompute.py")


def simple_nodes(run, model, rule="C06.node-semantics"):
    """The value computed for the simple node kinds is Python's own operation on the re-computed children."""
    V = lambda attr: ("call", ("attr", ("param", "self"), "visit"), (), (("node", ("attr", NODE, attr)),))
    specs = {
        "visit_Attribute": lambda rt: rt[0] == "attr" and False,
        "visit_Constant": None,
    }
    def ret_terms(name):
        fi = model.method("_recompute", "Visitor", name, required=False)
        if fi is None:
            return None, None, []
        flow = get_flow(model, fi)
        run.saw(flow)
        out = []
        for n in flow.cfg.nodes:
            if n.kind == "return" and n.ast is not None:
                t = strip_sites(flow.term(n.ast, n))
                if t != ("global", "_recompute", "PLACEHOLDER"):
                    out.append(t)
        return fi, flow, out

    def visit_arg(t):
        v = _visit_of(t)
        return v

    # Attribute: getattr(visit(node.value), node.attr)
    fi, flow, rts = ret_terms("visit_Attribute")
    if fi is not None:
        ok = len(rts) >= 1 and all(t[0] == "call" and t[1] == ("builtin", "getattr") and len(t[2]) == 2 and visit_arg(t[2][0]) == ("attr", NODE, "value") and t[2][1] == ("attr", NODE, "attr") and not t[3] for t in rts)
        run.check(ok, rule, fi.qual, "getattr(<re-computed value>, node.attr)", "the attribute is not looked up as Python does (`getattr(value, node.attr)` without default): %s" % [show(t, 80) for t in rts], fi.loc())
    # Subscript: visit(node.value)[visit(node.slice)]
    fi, flow, rts = ret_terms("visit_Subscript")
    if fi is not None:
        ok = len(rts) >= 1 and all(t[0] == "idx" and visit_arg(t[1]) == ("attr", NODE, "value") and visit_arg(t[2]) == ("attr", NODE, "slice") for t in rts)
        run.check(ok, rule, fi.qual, "<re-computed value>[<re-computed slice>]", "the subscript is not computed as value[slice]: %s" % [show(t, 80) for t in rts], fi.loc())
    # Constant: node.value
    fi, flow, rts = ret_terms("visit_Constant")
    if fi is not None:
        ok = rts == [("attr", NODE, "value")]
        run.check(ok, rule, fi.qual, "node.value", "a constant is not re-computed as its own value: %s" % [show(t, 80) for t in rts], fi.loc())
    # Slice: slice(lower, upper, step) of the re-computed parts (None when absent)
    fi, flow, rts = ret_terms("visit_Slice")
    if fi is not None:
        def part_ok(t, attr):
            if t[0] == "op" and t[1] == "ifexp":
                # ``visit(node.x) if node.x is not None else None`` (or the test the other way round)
                test, body, orelse = t[2]
                if test[0] == "op" and test[1] in ("cmp:IsNot", "cmp:Is") and set(test[2]) == set([("attr", NODE, attr), ("const", "None")]):
                    if test[1] == "cmp:Is":
                        body, orelse = orelse, body
                    return visit_arg(body) == ("attr", NODE, attr) and orelse == ("const", "None")
                return False
            alts = t[1] if t[0] == "phi" else (t,)
            return all(a == ("const", "None") or visit_arg(a) == ("attr", NODE, attr) for a in alts) and any(visit_arg(a) == ("attr", NODE, attr) for a in alts)
        ok = len(rts) >= 1 and all(t[0] == "call" and t[1] == ("builtin", "slice") and len(t[2]) == 3 and part_ok(t[2][0], "lower") and part_ok(t[2][1], "upper") and part_ok(t[2][2], "step") for t in rts)
        if not ok and any(t[0] == "call" and t[1] == ("builtin", "slice") and any(a[0] == "star" for a in t[2]) for t in rts):
            run.undecided(rule, fi.qual, "the parts of the slice are collected in a list and splatted (`slice(*parts)`); the rule reads `slice(lower, upper, step)` only")
            ok = None
        if ok is not None:
            run.check(ok, rule, fi.qual, "slice(lower, upper, step)", "the slice is not built from lower, upper, step in that order: %s" % [show(t, 100) for t in rts], fi.loc())
        if ok:
            # a part is visited exactly when it is present: ``self.visit(node.upper)`` under ``node.upper is not None``
            # (visiting None ends in the generic visitor's failure and replaces the violation error)
            badg = None
            for p_ in tables.paths(flow):
                for ct, cn in p_.calls:
                    va = visit_arg(ct)
                    if va is None or va[0] != "attr" or va[1] != NODE or va[2] not in ("lower", "upper", "step"):
                        continue
                    if any(isinstance(x, ast.IfExp) for x in ast.walk(cn.stmt)):
                        continue  # the conditional expression carries its own test (checked above)
                    want = ("attr", NODE, va[2])
                    guarded = False
                    for t, v, n in p_.decisions:
                        for sub in subterms(strip_sites(t)):
                            if sub[0] == "op" and sub[1] in ("cmp:IsNot", "cmp:Is") and set(sub[2]) == set([want, ("const", "None")]):
                                # a conjunction / plain test taken as a whole: polarity of the path decides
                                if (sub[1] == "cmp:IsNot") == bool(v) and strip_sites(t) == sub:
                                    guarded = True
                    if not guarded:
                        badg = badg or (cn, "`%s` runs on a path where `node.%s is not None` has not been established (the guard in front of it tests something else): for a slice without that part the visitor is handed None and the violation ends in the re-computation failure instead of the contract's error" % (first_line(cn.stmt), va[2]))
            run.check(badg is None, rule, fi.qual + ":guards", "each part of the slice is visited under the test that it is present", badg[1] if badg else "", fi.loc(badg[0]) if badg else fi.loc(), None, first_line(badg[0].stmt) if badg else None)
    # NamedExpr: value of node.value, bound to the target's name for later lookups
    fi, flow, rts = ret_terms("visit_NamedExpr")
    if fi is not None:
        okv = len(rts) >= 1 and all(visit_arg(t) == ("attr", NODE, "value") for t in rts)
        bound = False
        for n in flow.cfg.nodes:
            if n.kind == "stmt" and isinstance(n.ast, ast.Assign) and isinstance(n.ast.targets[0], ast.Subscript):
                tg = n.ast.targets[0]
                if strip_sites(flow.term(tg.value, n)) == ("attr", ("param", "self"), "_name_to_value") and strip_sites(flow.term(tg.slice, n)) == ("attr", ("attr", NODE, "target"), "id") and visit_arg(strip_sites(flow.term(n.ast.value, n))) == ("attr", NODE, "value"):
                    bound = True
        run.check(okv and bound, rule, fi.qual, "value of the right-hand side, bound to the target name for the rest of the condition", "an assignment expression is not re-computed as `name := value` (value returned: %s, name bound: %s)" % ([show(t, 60) for t in rts], bound), fi.loc())
    # the collection displays: elements in source order
    for name, kind in (("visit_List", "list"), ("visit_Tuple", "tuple"), ("visit_Set", "set")):
        fi = model.method("_recompute", "Visitor", name, required=False)
        if fi is None:
            continue
        comps = [sub for sub in ast.walk(fi.node) if isinstance(sub, (ast.ListComp, ast.GeneratorExp, ast.SetComp)) and any(isinstance(c, ast.Call) and src_of(c.func) == "self.visit" for c in ast.walk(sub.elt))]
        ok = len(comps) == 1 and len(comps[0].generators) == 1 and src_of(comps[0].generators[0].iter) == "node.elts" and not comps[0].generators[0].ifs
        run.check(ok, rule, fi.qual, "every element of node.elts re-computed, in order", "the elements of the display are not re-computed one for one from node.elts", fi.loc())
    fi = model.method("_recompute", "Visitor", "visit_Dict", required=False)
    if fi is not None:
        flow = get_flow(model, fi)
        run.saw(flow)
        ZIP = ("call", ("builtin", "zip"), (("attr", NODE, "keys"), ("attr", NODE, "values")), ())
        ok = False
        for h in flow.cfg.nodes:
            if h.kind != "next":
                continue
            its = [strip_sites(flow.term(p.ast, p)) for k, p in h.pred if p.kind == "iter" and p.stmt is h.stmt]
            if its != [ZIP]:
                continue
            el = ("elem", ZIP)
            start = [t for k, t in h.succ if k == "T"][0]
            ps = tables.paths(flow, start, {h.id}, stop_at_loops=True)
            done = [p for p in ps if not (p.outcome and p.outcome[0] in ("raise", "assert"))]
            ok = bool(done) and all(
                any(tt[0] == "idx" and visit_arg(strip_sites(tt[2])) == ("idx", el, ("const", "0")) and visit_arg(strip_sites(vt)) == ("idx", el, ("const", "1")) for tt, vt, n in p.stores)
                for p in done
            )
        run.check(ok, rule, fi.qual, "keys paired with values in order", "the dictionary display is not re-computed as {visit(key): visit(value)} over zip(node.keys, node.values)", fi.loc())


def formatted_value(run, model, rule="C06.fstring-format"):
    """A field of an f-string is re-computed the way Python evaluates it: the value, then the conversion
    (``!s`` -> str, ``!r`` -> repr, ``!a`` -> ascii, none -> the value itself), then ``format(converted, spec)`` with
    the re-computed specification (the empty string if there is none) -- not ``str(value)`` (a value may define
    ``__format__``), and not through a ``str.format`` template assembled from the specification (braces in the value of
    a nested field would be parsed as fields)."""
    fi = model.method("_recompute", "Visitor", "visit_FormattedValue")
    flow = get_flow(model, fi)
    run.saw(flow)
    ps = tables.paths(flow)
    NODE = ("param", fi.params[1])
    VAL = ("call", ("attr", ("param", "self"), "visit"), (("attr", NODE, "value"),), ())
    SPEC = ("call", ("attr", ("param", "self"), "visit"), (("attr", NODE, "format_spec"),), ())
    convs = {-1: None, 115: "str", 114: "repr", 97: "ascii"}

    def table_lookup(t, c):
        """``TABLE.get(node.conversion)`` / ``TABLE[node.conversion]`` over a module-level literal dict, under conversion c:
        ('hit', term of the value) / ('miss',) / None when the term is no such look-up"""
        key = cont = None
        if t[0] == "call" and t[1][0] == "attr" and t[1][2] == "get" and len(t[2]) in (1, 2) and t[2][0] == ("attr", NODE, "conversion"):
            key, cont = t[2][0], t[1][1]
        elif t[0] == "idx" and t[2] == ("attr", NODE, "conversion"):
            key, cont = t[2], t[1]
        if cont is None or cont[0] != "global":
            return None
        vals = model.modules[cont[1]].assigns.get(cont[2], []) if cont[1] in model.modules else []
        if len(vals) != 1 or not isinstance(vals[0], ast.Dict):
            return None
        # never mutated: the name is only read
        for k_, v_ in zip(vals[0].keys, vals[0].values):
            kk = const_int(strip_sites(flow.term(k_, flow.cfg.entry))) if k_ is not None else None
            if kk is None:
                return None
            if kk == c:
                return ("hit", ("builtin", v_.id) if isinstance(v_, ast.Name) else strip_sites(flow.term(v_, flow.cfg.entry)))
        return ("miss",)

    def const_int(t):
        if t[0] == "global" and t[1] in model.modules:
            # a module-level constant holding the conversion code
            vals = model.modules[t[1]].assigns.get(t[2], [])
            if len(vals) == 1:
                try:
                    v_ = ast.literal_eval(vals[0])
                except (ValueError, SyntaxError):
                    return None
                return v_ if isinstance(v_, int) and not isinstance(v_, bool) else None
            return None
        if t[0] == "const":
            try:
                return int(t[1])
            except ValueError:
                return None
        if t[0] == "op" and t[1] == "USub" and t[2][0][0] == "const":
            try:
                return -int(t[2][0][1])
            except ValueError:
                return None
        return None

    for has_spec in (True, False):
        for c, fn in sorted(convs.items()):
            def ev(t, has_spec=has_spec, c=c):
                ts = strip_sites(t)
                if ts[0] == "op" and ts[1] in ("cmp:IsNot", "cmp:Is") and ts[2][1] == ("const", "None"):
                    l = ts[2][0]
                    tl = table_lookup(l, c)
                    if tl is not None:
                        isnone = tl[0] == "miss" or tl[1] == ("const", "None")
                        return isnone if ts[1] == "cmp:Is" else not isnone
                    if l == ("attr", NODE, "format_spec"):
                        isnone = not has_spec
                    elif l == ("const", "None"):
                        isnone = True
                    elif l == SPEC:
                        isnone = False
                    else:
                        return None
                    return isnone if ts[1] == "cmp:Is" else not isnone
                if ts[0] == "op" and ts[1] == "cmp:Is" and "PLACEHOLDER" in show(ts[2][1]):
                    return False
                if ts[0] == "op" and ts[1] in ("cmp:In", "cmp:NotIn") and ts[2][0] == ("attr", NODE, "conversion"):
                    # membership of the conversion code in a module-level literal table
                    tl = table_lookup(("idx", ts[2][1], ts[2][0]), c)
                    if tl is not None:
                        return (tl[0] == "hit") == (ts[1] == "cmp:In")
                if ts[0] == "call" and ts[1] == ("builtin", "isinstance"):
                    return True
                if ts[0] == "op" and ts[1] in ("cmp:Eq", "cmp:NotEq") and ts[2][0] == ("attr", NODE, "conversion"):
                    k = const_int(ts[2][1])
                    if k is None:
                        return None
                    return (k == c) if ts[1] == "cmp:Eq" else (k != c)
                return None

            def norm(t):
                t = strip_sites(t)
                while t[0] == "op" and t[1] == "ifexp":
                    v = tables.evaluate(t[2][0], ev)
                    if v is None:
                        break
                    t = t[2][1] if v else t[2][2]
                tl = table_lookup(t, c)
                if tl is not None and tl[0] == "hit":
                    return tl[1]
                if t[0] == "call":
                    return (t[0], norm(t[1]) if t[1][0] in ("call", "idx") else t[1], tuple(norm(x) for x in t[2]), tuple((k_, norm(v_)) for k_, v_ in t[3]))
                return t

            # the paths that answer "unknown" (the marker) are the business of the placeholder rules
            feas = [p for p in ps if tables.feasible(p, ev) and not (p.outcome is not None and p.outcome[0] == "return" and "PLACEHOLDER" in show(strip_sites(p.outcome[1]), 60) and strip_sites(p.outcome[1])[0] in ("global", "attr"))]
            conv_v = VAL if fn is None else ("call", ("builtin", fn), (VAL,), ())
            want = ("call", ("builtin", "format"), (conv_v, SPEC if has_spec else ("const", "''")), ())
            construct = "%s[conversion %s, format specification %s]" % (fi.qual, {None: "none"}.get(fn, "!" + (fn or "")[:1]), "given" if has_spec else "none")
            bad = None
            rets = [p for p in feas if p.outcome is not None and p.outcome[0] == "return"]
            if not rets or len(rets) != len(feas):
                bad = "outcomes %s (expected the formatted value to be returned)" % sorted(set(tables.classify(p) for p in feas))
            for p in rets:
                got = norm(p.outcome[1])
                if got != want and bad is None:
                    bad = "the field is re-computed as %s, but Python evaluates %s" % (show(got, 90), show(want, 90))
            run.check(bad is None, rule, construct, "re-computed as %s" % show(want, 80), bad or "", fi.loc(), None, construct.split("[", 1)[1])


def lambda_location(run, model, rule="C07.text"):
    """find_lambda_condition takes the first positional argument of the decorator call, else the keyword `condition`."""
    fi = model.func("_represent.find_lambda_condition")
    flow = get_flow(model, fi)
    run.saw(flow)
    CALL = ("attr", ("param", fi.params[0]), "node")
    sources = []
    filtered_generator = False
    for lst in flow.node_defs.values():
        for d in lst:
            if d.kind == "assign" and d.value is not None:
                t = strip_sites(flow.term(d.value, d.node))
                if t == ("idx", ("attr", CALL, "args"), ("const", "0")):
                    sources.append(("positional", d))
                elif t[0] == "attr" and t[2] == "value" and t[1][0] == "elem" and t[1][1] == ("attr", CALL, "keywords"):
                    sources.append(("keyword", d))
                else:
                    # ``next((kw.value for kw in call.keywords if kw.arg == "condition"), None)``
                    e = d.value
                    if isinstance(e, ast.Call) and isinstance(e.func, ast.Name) and e.func.id == "next" and e.args and isinstance(e.args[0], ast.GeneratorExp) and len(e.args[0].generators) == 1:
                        g = e.args[0]
                        gen = g.generators[0]
                        if isinstance(gen.target, ast.Name) and strip_sites(flow.term(gen.iter, d.node)) == ("attr", CALL, "keywords") and isinstance(g.elt, ast.Attribute) and g.elt.attr == "value" and isinstance(g.elt.value, ast.Name) and g.elt.value.id == gen.target.id:
                            v = gen.target.id
                            named = len(gen.ifs) == 1 and isinstance(gen.ifs[0], ast.Compare) and len(gen.ifs[0].ops) == 1 and isinstance(gen.ifs[0].ops[0], ast.Eq) and src_of(gen.ifs[0].left) == v + ".arg" and isinstance(gen.ifs[0].comparators[0], ast.Constant) and gen.ifs[0].comparators[0].value == "condition"
                            sources.append(("keyword" if named else "keyword-unfiltered", d))
                            if named:
                                filtered_generator = True
    # ... or handed straight to the inspection object that is returned (``return Inspection(atok=..., node=call.args[0])``)
    class _Src:
        def __init__(self, node):
            self.node = node

    for n in flow.cfg.nodes:
        if n.kind != "return" or not isinstance(n.ast, ast.Call):
            continue
        for e in list(n.ast.args) + [kw.value for kw in n.ast.keywords]:
            t = strip_sites(flow.term(e, n))
            if t == ("idx", ("attr", CALL, "args"), ("const", "0")) and not isinstance(e, ast.Name):
                sources.append(("positional", _Src(n)))
            elif t[0] == "attr" and t[2] == "value" and t[1][0] == "elem" and t[1][1] == ("attr", CALL, "keywords") and not isinstance(e, ast.Name):
                sources.append(("keyword", _Src(n)))
    kinds = sorted(k for k, _ in sources)
    bad = None
    if kinds != ["keyword", "positional"]:
        bad = "the lambda of the condition is located from %s (expected: the first positional argument of the decorator call, else the keyword argument named `condition`)" % (kinds or "nowhere")
    else:
        gg = GuardGraph(flow)
        kw = [d for k, d in sources if k == "keyword"][0]
        # the keyword branch is guarded by `keyword.arg == "condition"`
        want = ("op", "cmp:Eq", (("attr", ("elem", ("attr", CALL, "keywords")), "arg"), ("const", "'condition'")))
        ok = filtered_generator or any(strip_sites(a) == want and pol and gg.necessary([flow.cfg.entry], [kw.node.id], (a, True)) for (nid, k), (kn, atoms) in gg.edge_facts.items() for a, pol in kn)
        if not ok:
            bad = "a keyword argument other than `condition` (e.g. a lambda given as `error=`) can be taken for the condition"
        pos = [d for k, d in sources if k == "positional"][0]
        okp = any(strip_sites(a) == ("attr", CALL, "args") and pol and gg.necessary([flow.cfg.entry], [pos.node.id], (a, True)) for (nid, k), (kn, atoms) in gg.edge_facts.items() for a, pol in kn)
        if not okp and bad is None:
            bad = "the first positional argument is used without testing that the call has positional arguments"
    rets = [strip_sites(flow.term(n.ast, n)) for n in flow.cfg.nodes if n.kind == "return" and n.ast is not None]
    run.check(bad is None, rule, fi.qual, "condition lambda = first positional argument, else the `condition` keyword", bad or "", fi.loc())
    # the inspection handed on carries the lambda found and the tokens of the same decorator text
    fi2 = model.func("_represent.inspect_lambda_condition")
    fl2 = get_flow(model, fi2)
    src = src_of(fi2.node)
    ok = "inspect.findsource(condition)" in src and "inspect_decorator(" in src and "find_lambda_condition(" in src
    run.check(ok, rule, fi2.qual, "source found for the condition itself; decorator located around its line; lambda picked from that decorator", "the lambda inspection does not go from the condition's own source line to its decorator", fi2.loc())


def all_trace(run, model, rule="C06.all-trace"):
    """The tracing function generated for a failed ``all(<generator>)`` nests the clauses as the generator does.

    The translation wraps the block built so far (inside-out), so the ``if`` filters of a clause must be walked in
    *reverse* and are wrapped before the clause's ``for``; the ``for`` clauses themselves are either walked in reverse
    (iterative form) or handled head-first by a function that first recurses on the tail (recursive form).  Otherwise
    a later filter runs on items an earlier filter excluded (and may fail), or the loops nest the wrong way round.
    """
    root = model.func("_recompute._translate_all_expression_to_a_module")
    # the root and the module-level helpers it reaches (a recursive helper is not inlined)
    todo, funcs = [root], []
    while todo:
        fi = todo.pop()
        if fi in funcs:
            continue
        funcs.append(fi)
        fl = get_flow(model, fi)
        for n in fl.cfg.nodes:
            for call, c, a in calls_in(n):
                cf = fi_of_term(model, fl.term(call.func, n))
                if cf is not None and cf.module.name == "_recompute" and cf.cls is None and cf not in funcs:
                    todo.append(cf)

    def flat(t):
        if t[0] == "phi":
            return [y for x in t[1] for y in flat(x)]
        if t[0] == "op" and t[1] == "ifexp":
            return flat(t[2][1]) + flat(t[2][2])
        return [t]

    found_if = found_for = 0
    for fi in funcs:
        flow = get_flow(model, fi)
        run.saw(flow)
        loops = [(h, strip_sites(flow.term(p.ast, p))) for h in flow.cfg.nodes if h.kind == "next" for k, p in h.pred if p.kind == "iter" and p.stmt is h.stmt]
        wraps = []
        for n in flow.cfg.nodes:
            if n.kind in ("stmt", "return") and n.ast is not None:
                val = n.ast.value if isinstance(n.ast, (ast.Assign, ast.Return)) else (n.ast if n.kind == "return" else None)
                if val is None:
                    continue
                for call in ast.walk(val):
                    if isinstance(call, ast.Call) and any(kw.arg == "body" and isinstance(kw.value, ast.Name) for kw in call.keywords):
                        kinds = set(a[2] if a[0] == "attr" and a[1] == ("module", "ast") else "?" for a in flat(strip_sites(flow.term(call.func, n))))
                        if kinds == {"If"} or (kinds and kinds <= {"For", "AsyncFor"}):
                            wraps.append((n, call, kinds))
        if_wraps = [w for w in wraps if w[2] == {"If"} and any(kw.arg == "test" and isinstance(kw.value, ast.Name) for kw in w[1].keywords)]
        for_wraps = [w for w in wraps if w[2] <= {"For", "AsyncFor"}]
        if not if_wraps and not for_wraps:
            continue
        dom = flow.cfg.dominators()
        # ---- filters
        bad = None
        comp_of_ifs = None
        if_loops = [(h, it) for h, it in loops if any(s_[0] == "attr" and s_[2] == "ifs" for s_ in subterms(it))]
        if len(if_loops) != 1 or not if_wraps:
            bad = (fi.node, "no single loop wraps the `if` filters of a clause around the block")
        else:
            ih, iit = if_loops[0]
            ifs = [s_ for s_ in subterms(iit) if s_[0] == "attr" and s_[2] == "ifs"][0]
            comp_of_ifs = ifs[1]
            body_ids = set(id(sub) for st in ih.stmt.body for sub in ast.walk(st))
            if not any(s_ == ("call", ("builtin", "reversed"), (ifs,), ()) for s_ in subterms(iit)):
                bad = (ih.stmt, "the filters of one `for` clause are wrapped front to back (%s): the block is built inside-out, so the LAST filter becomes the outermost test of the tracing function and is evaluated on items an earlier filter excludes" % show(iit, 60))
            for n, call, kinds in if_wraps:
                found_if += 1
                if id(n.ast) not in body_ids:
                    bad = bad or (n.stmt, "an ast.If wrapper is built outside the loop over the filters")
                else:
                    test = [kw.value for kw in call.keywords if kw.arg == "test"][0]
                    if strip_sites(flow.term(test, n)) != ("elem", iit):
                        bad = bad or (n.stmt, "the test of the generated `if` is not the filter of this step")
        run.check(bad is None, rule, fi.qual + ":filters", "per clause the filters are wrapped innermost-last (reversed(ifs))", bad[1] if bad else "", fi.loc(bad[0]) if bad else fi.loc(), None, "filters")
        # ---- for clauses
        bad = None
        if not for_wraps:
            bad = (fi.node, "the `for` of a clause is not generated next to its filters")
        for n, call, kinds in for_wraps:
            found_for += 1
            kws = dict((kw.arg, strip_sites(flow.term(kw.value, n))) for kw in call.keywords if kw.arg in ("target", "iter"))
            if comp_of_ifs is None:
                break
            if kws.get("target") != ("attr", comp_of_ifs, "target") or kws.get("iter") != ("attr", comp_of_ifs, "iter"):
                bad = (n.stmt, "the generated loop does not take target and iterable from the clause whose filters were just wrapped")
            elif if_loops and (if_loops[0][0].id not in dom[n.id] or id(n.ast) in set(id(sub) for st in if_loops[0][0].stmt.body for sub in ast.walk(st))):
                bad = (n.stmt, "the `for` of a clause is wrapped before its filters: the filters would run outside the loop that binds their variables")
        if bad is None and comp_of_ifs is not None:
            # where does the clause come from?
            c = comp_of_ifs
            if c[0] == "idx" and c[1][0] == "elem":
                c = c[1]  # enumerate(...)[1]
            if c[0] == "elem":
                # iterative form: reversed(<generator>.generators)
                its = c[1]
                gens = [s_ for s_ in subterms(its) if s_[0] == "attr" and s_[2] == "generators"]
                if not gens or not any(s_ == ("call", ("builtin", "reversed"), (gens[0],), ()) for s_ in subterms(its)):
                    bad = (fi.node, "the block is built inside-out but the `for` clauses are walked front to back (%s): the loops of the tracing function nest the wrong way round" % show(its, 60))
            elif c[0] == "idx" and c[2] == ("const", "0") and c[1][0] == "param":
                # recursive form: the head clause is wrapped around the translation of the tail
                p_ = c[1][1]
                rec_ok = False
                for n in flow.cfg.nodes:
                    for call, cc, aa in calls_in(n):
                        if fi_of_term(model, flow.term(call.func, n)) is fi:
                            b = bind_call(fi, call) or {}
                            if p_ in b and isinstance(b[p_], ast.Subscript) and isinstance(b[p_].slice, ast.Slice) and src_of(b[p_].slice) == "1:" and strip_sites(flow.term(b[p_].value, n)) == ("param", p_):
                                # the recursion happens before the filters are wrapped
                                if if_loops and n.id in dom[if_loops[0][0].id]:
                                    rec_ok = True
                if not rec_ok:
                    bad = (fi.node, "the head clause is not wrapped around the translation of the remaining clauses (`%s[1:]`)" % p_)
            else:
                raise AnalysisError("%s: where the translated clause comes from was not recognised (%s)" % (fi.qual, show(c, 60)))
        run.check(bad is None, rule, fi.qual + ":for-clauses", "the `for` of each clause encloses its filters and the inner clauses", bad[1] if bad else "", fi.loc(bad[0]) if bad else fi.loc(), None, "for-clauses")
    if not found_if or not found_for:
        raise AnalysisError("%s: the inside-out construction (block = [ast.If/For(..., body=block)]) was not recognised" % root.qual)


def dispatch_closed(run, model, rule="C07.dispatch-closed"):
    """A node handed to ``self.visit`` under the knowledge ``isinstance(<node>, ast.K)`` needs a ``visit_K`` handler.

    ``ast.NodeVisitor.visit`` dispatches on the class name; this visitor's ``generic_visit`` raises
    NotImplementedError, which turns the violation into an internal error.  The rule also covers the star arguments
    of calls, which the property names among the supported forms: ``f(*xs)`` must be re-computable, and a starred
    value that is not known (PLACEHOLDER) must not be unpacked.
    """
    from ..guards import GuardGraph

    count = 0
    for fi in model.methods("_recompute", "Visitor"):
        if not fi.name.startswith("visit_"):
            continue
        flow = get_flow(model, fi)
        gg = None
        for n in flow.cfg.nodes:
            for call, c, a in calls_in(n):
                if not (isinstance(call.func, ast.Attribute) and call.func.attr == "visit" and strip_sites(flow.term(call.func.value, n)) == ("param", "self")):
                    continue
                arg = call.args[0] if call.args else ([kw.value for kw in call.keywords if kw.arg == "node"] or [None])[0]
                if arg is None:
                    continue
                at = strip_sites(flow.term(arg, n))
                gg = gg or GuardGraph(flow)
                for (nid, k), (kn, atoms) in gg.edge_facts.items():
                    for atom, pol in kn:
                        ts = strip_sites(atom)
                        if pol and ts[0] == "call" and ts[1] == ("builtin", "isinstance") and len(ts[2]) == 2 and ts[2][0] == at and ts[2][1][0] == "attr" and ts[2][1][1] == ("module", "ast"):
                            if gg.necessary([flow.cfg.entry], [n.id], (atom, pol)):
                                cls = ts[2][1][2]
                                pycls = getattr(ast, cls, None)
                                if pycls is None or pycls is ast.AST or (pycls in ast.AST.__subclasses__() and pycls.__subclasses__()):
                                    continue  # an abstract category (ast.AST, ast.expr, ...): nothing is dispatched on it
                                count += 1
                                h = model.method("_recompute", "Visitor", "visit_" + cls, required=False)
                                run.check(h is not None, rule, "%s:visit(%s) as ast.%s" % (fi.qual, src_of(arg, 30), cls), "a handler for ast.%s exists" % cls, "a node known to be an ast.%s is handed to self.visit, but there is no visit_%s: generic_visit raises NotImplementedError and the violation is replaced by `RuntimeError: Failed to recompute ...` (e.g. a condition calling f(*xs))" % (cls, cls), fi.loc(n), None, first_line(n.stmt))
    # star arguments of a call: some path under isinstance(arg, ast.Starred) extends the positional list with the
    # re-computed iterable, and only when that value is known
    fi = model.method("_recompute", "Visitor", "visit_Call")
    flow = get_flow(model, fi)
    run.saw(flow)
    heads = [h for h in flow.cfg.nodes if h.kind == "next" and any(p.kind == "iter" and strip_sites(flow.term(p.ast, p)) == ("attr", NODE, "args") for k, p in h.pred)]
    if len(heads) != 1:
        raise AnalysisError("%s: the loop over node.args was not found" % fi.qual)
    h = heads[0]
    EL = ("elem", ("attr", NODE, "args"))
    start = [t for k, t in h.succ if k == "T"][0]
    ps = tables.paths(flow, start, {h.id}, stop_at_loops=True)
    for known in (True, False):
        def ev(t, known=known):
            ts = strip_sites(t)
            if ts[0] == "call" and ts[1] == ("builtin", "isinstance") and len(ts[2]) == 2 and ts[2][0] == EL:
                return ts[2][1] == ("attr", ("module", "ast"), "Starred")
            v = _placeholder_false(t)
            if v is not None:
                return v if known else (not v)
            return None

        feas = [p for p in ps if tables.feasible(p, ev) and not (p.outcome and p.outcome[0] == "raise")]
        ext = []
        for p in feas:
            for ct, n in p.calls:
                cs = strip_sites(ct)
                if cs[0] == "call" and cs[1][0] == "attr" and cs[1][2] == "extend" and cs[2]:
                    ext.append(cs[2][0])
        construct = "%s[star argument, value %s]" % (fi.qual, "known" if known else "not known (placeholder)")
        count += 1
        if known:
            ok = bool(feas) and all(any(_visit_of(x) in (("attr", EL, "value"), EL) for x in ext) for _ in [0]) and bool(ext)
            run.check(ok, rule, construct, "the positional list is extended with the re-computed iterable", "a star argument is not unpacked into the positional arguments of the re-computed call", fi.loc(h), None, "star-known")
        else:
            run.check(not ext, rule, construct, "a starred value that is not known is not unpacked (the call is left out)", "the placeholder standing for an unknown value is unpacked like an iterable (TypeError inside message generation)", fi.loc(h), None, "star-unknown")
    return count


def truth_protocol(run, model, rule="C07.truth-protocol"):
    """The library's own stand-in values obey the truth protocol: a ``__bool__`` returns a real ``bool``.

    The re-computed value of a failed ``all(<generator>)`` is a stand-in object; it is truth-tested whenever the
    quantifier is an operand of ``and`` / ``or`` / ``not`` or a conditional.  ``__bool__`` returning the element
    itself (``0``, ``''``, ``None`` ...) makes that test raise ``TypeError: __bool__ should return bool`` and the
    violation is replaced by an internal error.
    """
    count = 0
    for fi in model.functions.values():
        if fi.cls is None or fi.parent is not None or fi.name != "__bool__" or not fi.live:
            continue
        count += 1
        flow = get_flow(model, fi)
        run.saw(flow)
        bad = None
        rets = [n for n in flow.cfg.nodes if n.kind == "return"]
        if not rets:
            bad = (fi.node, "no value is returned")
        for r in rets:
            if r.ast is None:
                bad = (r.stmt, "returns None")
                continue
            t = strip_sites(flow.term(r.ast, r))
            alts = t[1] if t[0] == "phi" else (t,)
            for a in alts:
                is_bool = (
                    a in (("const", "True"), ("const", "False"))
                    or (a[0] == "call" and a[1] == ("builtin", "bool"))
                    or (a[0] == "op" and (a[1] == "Not" or (a[1].startswith("cmp:") and all(p in ("Is", "IsNot", "In", "NotIn") for p in a[1][4:].split("/")))))
                )
                if not is_bool:
                    bad = (r.stmt, "`%s` is returned as the truth value without bool(...): for a falsy value that is not False (0, '', None, an empty container) the truth test of the stand-in raises TypeError, e.g. `all(x for x in xs) and len(xs) > 0` with xs=[0]" % show(a, 50))
        run.check(bad is None, rule, "%s.%s.__bool__" % (fi.module.name, fi.cls.name), "returns a bool by construction", bad[1] if bad else "", fi.loc(bad[0]) if bad else fi.loc(), None, first_line(bad[0]) if bad else None)
    return count


def none_is_a_value(run, model, rule="C07.none-is-a-value"):
    """``visit_Name`` answers "unknown" (PLACEHOLDER) only for a name that is not bound at all.

    A variable whose value is ``None`` is a known value.  Taking it for the internal "unknown" marker makes ``and`` /
    ``or`` / comparison chains lose their laziness (after an unknown operand the remaining operands are visited
    regardless): ``lambda x, ys: x is not None and ys[0] > 0`` with ``x=None, ys=[]`` then fails inside message
    generation, and the enclosing expressions of the name are silently left out of the message."""
    fi = model.method("_recompute", "Visitor", "visit_Name")
    flow = get_flow(model, fi)
    run.saw(flow)
    gg = GuardGraph(flow)
    PH = ("global", "_recompute", "PLACEHOLDER")
    bound = ("op", "cmp:In", (("attr", NODE, "id"), ("attr", ("param", "self"), "_name_to_value")))
    rets = [n for n in flow.cfg.nodes if n.kind == "return" and n.ast is not None and strip_sites(flow.term(n.ast, n)) == PH]
    if not rets:
        raise AnalysisError("%s: no `return PLACEHOLDER` found" % fi.qual)
    for n in rets:
        atoms = [a for (nid, k), (kn, ats) in gg.edge_facts.items() for a, pol in kn if strip_sites(a) == bound]
        ok = any(gg.necessary([flow.cfg.entry], [n.id], (a, False)) for a in atoms)
        # ... or the value read IS the stored PLACEHOLDER (a comprehension target bound to it): handing it on is right
        is_ph = [a for (nid, k), (kn, ats) in gg.edge_facts.items() for a, pol in kn if strip_sites(a)[0] == "op" and strip_sites(a)[1] == "cmp:Is" and strip_sites(a)[2][1] == PH]
        ok = ok or any(gg.necessary([flow.cfg.entry], [n.id], (a, True)) for a in is_ph)
        run.check(ok, rule, "%s:return@%d" % (fi.qual, rets.index(n)), "the unknown marker is returned only for a name that no table binds", "`return PLACEHOLDER` is reachable for a name that IS bound (to None): a None-valued argument is taken for an unknown value, so `x is not None and ys[0] > 0` evaluates `ys[0]` while the message is built, and `x was None` never appears", fi.loc(n), None, first_line(n.stmt))


def _placeholder_true(t):
    """The mirror of _placeholder_false: atoms about PLACEHOLDER on the path where the value just visited is unknown."""
    v = _placeholder_false(t)
    if v is None:
        return None
    ts = strip_sites(t)
    if ts == ("const", "False"):
        return False
    return not v


def unknown_stops(run, model, rule="C07.unknown-stops"):
    """Once an operand of ``and`` / ``or`` or of a comparison chain is unknown (PLACEHOLDER), nothing further of that
    operation is visited -- except the first comparator of a comparison, which Python always evaluates.

    Whether Python evaluates the remaining operands depends on the unknown value; they may be defined only when it
    holds (``all(x > 0 and ys[0] > x for x in xs)``: inside the quantifier ``x`` is unknown to the re-evaluator).
    Visiting them "to collect more values" runs sub-expressions Python skipped."""
    # ---- and / or
    fi = model.method("_recompute", "Visitor", "visit_BoolOp")
    flow = get_flow(model, fi)
    run.saw(flow)
    heads = [h for h in flow.cfg.nodes if h.kind == "next" and any(p.kind == "iter" and any(s_ == ("attr", NODE, "values") for s_ in subterms(strip_sites(flow.term(p.ast, p)))) for k, p in h.pred)]
    if len(heads) != 1:
        raise AnalysisError("%s: the loop over the operands was not found" % fi.qual)
    head = heads[0]
    start = [t for k, t in head.succ if k == "T"][0]
    after = set(t.id for k, t in head.succ if k == "F")
    ps = tables.paths(flow, start, {head.id} | after, stop_at_loops=True)

    def ev(t):
        ts = strip_sites(t)
        if _isinstance_op(ts, ("attr", NODE, "op")) is not None:
            return None
        return _placeholder_true(t)

    feas = [p for p in ps if tables.feasible(p, ev) and not (p.outcome and p.outcome[0] == "raise")]
    goes_on = [p for p in feas if p.nodes and p.nodes[-1].id == head.id]
    run.check(bool(feas) and not goes_on, rule, fi.qual, "an unknown operand ends the visit of the operands", "after an operand that is unknown (PLACEHOLDER) the loop goes on to visit the remaining operands: Python may never evaluate them (they may be defined only if the unknown operand holds), so message generation can fail where the condition itself did not", fi.loc(goes_on[0].nodes[-2] if goes_on and len(goes_on[0].nodes) > 1 else head), None, first_line(head.stmt))
    # ---- comparison chains
    fi = model.method("_recompute", "Visitor", "visit_Compare")
    flow = get_flow(model, fi)
    run.saw(flow)
    heads = [n for n in flow.cfg.nodes if n.kind == "next"]
    if len(heads) != 1:
        raise AnalysisError("%s: the loop over the comparators was not found" % fi.qual)
    head = heads[0]
    start = [t for k, t in head.succ if k == "T"][0]
    after = set(t.id for k, t in head.succ if k == "F")
    ps = tables.paths(flow, start, {head.id} | after, stop_at_loops=True)
    idx_terms = set()
    for d in flow.node_defs.get(head.id, []):
        t = strip_sites(flow.def_term(d))
        if show(t).endswith("[0]") and "enumerate" in show(t):
            idx_terms.add(t)

    def ev2(t):
        ts = strip_sites(t)
        # a later step of the chain (i > 0) in which an operand is already unknown
        if ts[0] == "op" and ts[1].startswith("cmp:") and len(ts[2]) == 2 and ts[2][0] in idx_terms and ts[2][1] == ("const", "0"):
            return {"cmp:Gt": True, "cmp:NotEq": True, "cmp:GtE": True, "cmp:Eq": False, "cmp:LtE": False, "cmp:Lt": False}.get(ts[1])
        if ts[0] == "phi" and _is_placeholder_flag(ts):
            return True
        if ts[0] == "call" and ts[1] == ("builtin", "isinstance"):
            return None
        return None

    feas = [p for p in ps if tables.feasible(p, ev2) and not (p.outcome and p.outcome[0] == "raise")]
    visiting = [p for p in feas if any(_visit_of(ct) is not None for ct, n in p.calls)]
    if not idx_terms:
        run.undecided(rule, fi.qual, "the position of the step in the chain (enumerate index) was not recognised")
    else:
        run.check(bool(feas) and not visiting, rule, fi.qual, "with an operand unknown, no comparator after the first one is visited", "in a later step of a comparison chain the comparator is visited although an operand is already unknown (PLACEHOLDER): Python evaluates it only if the preceding comparisons hold, which is not known -- `all(lo < x < ys[0] for x in xs)` then fails inside message generation", fi.loc(head), None, first_line(head.stmt))


def placeholder_not_a_value(run, model, rule="C06.placeholder-not-shown"):
    """The internal "unknown" marker never becomes a value of the message: ``visit_Name`` records what it read from the
    name table only when that is not PLACEHOLDER (comprehension targets are bound to it in the table).  Otherwise a
    target that shadows an argument is reported as ``n was <Placeholder>``."""
    fi = model.method("_recompute", "Visitor", "visit_Name")
    flow = get_flow(model, fi)
    run.saw(flow)
    gg = GuardGraph(flow)
    PH = ("global", "_recompute", "PLACEHOLDER")
    rv = ("attr", ("param", "self"), "recomputed_values")
    stores = [n for n in flow.cfg.nodes if n.kind == "stmt" and isinstance(n.ast, ast.Assign) and isinstance(n.ast.targets[0], ast.Subscript) and strip_sites(flow.term(n.ast.targets[0].value, n)) == rv]
    if not stores:
        raise AnalysisError("%s: no store into recomputed_values found" % fi.qual)
    for st in stores:
        val = strip_sites(flow.term(st.ast.value, st))
        reads_table = any(s_[0] == "idx" and s_[1] == ("attr", ("param", "self"), "_name_to_value") for s_ in subterms(val))
        if not reads_table:
            run.ok(rule, "%s:store@%d" % (fi.qual, stores.index(st)), "the value recorded does not come from the name table", fi.loc(st))
            continue
        atoms = [a for (nid, k), (kn, ats) in gg.edge_facts.items() for a, pol in kn if strip_sites(a)[0] == "op" and strip_sites(a)[1] == "cmp:Is" and strip_sites(a)[2][1] == PH and strip_sites(a)[2][0] == val]
        ok = any(gg.necessary([flow.cfg.entry], [st.id], (a, False)) for a in atoms)
        run.check(ok, rule, "%s:store@%d" % (fi.qual, stores.index(st)), "a name is recorded only when the table does not hold the unknown marker for it", "the value read from the name table is recorded without testing it for PLACEHOLDER: a comprehension target that shadows an argument is shown as `<name> was <Placeholder>`", fi.loc(st), None, first_line(st.stmt))


def scope_restore(run, model, rule="C06.scope-restore"):
    """After a comprehension the name table is exactly the table before it: a copy of the whole table is taken before
    the targets are bound to the unknown marker and that copy is put back before the comprehension is executed.

    Saving and restoring entry by entry has to tell "was unbound" from "was bound to None" (``dict.get`` cannot): a
    None-valued variable re-used as a comprehension target would drop out of the table, and a later use of the name
    would fall through to the built-in of that name."""
    NT = ("attr", ("param", "self"), "_name_to_value")
    PH = ("global", "_recompute", "PLACEHOLDER")
    count = 0
    for name in ("visit_GeneratorExp", "visit_ListComp", "visit_SetComp", "visit_DictComp"):
        fi = model.method("_recompute", "Visitor", name, required=False)
        if fi is None:
            continue
        count += 1
        flow = get_flow(model, fi)
        run.saw(flow)
        dom = flow.cfg.dominators()
        bad = None
        restores, binds, others = [], [], []
        for n in flow.cfg.nodes:
            if n.kind == "stmt" and isinstance(n.ast, ast.Assign):
                for tg in n.ast.targets:
                    if isinstance(tg, ast.Attribute) and strip_sites(flow.term(tg, n)) == NT:
                        restores.append(n)
                    if isinstance(tg, ast.Subscript) and strip_sites(flow.term(tg.value, n)) == NT:
                        (binds if strip_sites(flow.term(n.ast.value, n)) == PH else others).append(n)
            if n.kind == "stmt" and isinstance(n.ast, ast.Delete):
                for tg in n.ast.targets:
                    if isinstance(tg, ast.Subscript) and strip_sites(flow.term(tg.value, n)) == NT:
                        others.append(n)
            for call, c, a in calls_in(n):
                if isinstance(call.func, ast.Attribute) and call.func.attr in ("pop", "update", "clear", "setdefault", "popitem") and strip_sites(flow.term(call.func.value, n)) == NT:
                    others.append(n)
        # calls of visitor methods that were not inlined and touch the table entry-wise
        for n in flow.cfg.nodes:
            for call, c, a in calls_in(n):
                if isinstance(call.func, ast.Attribute) and isinstance(call.func.value, ast.Name) and call.func.value.id == "self" and call.func.attr not in ("visit", "generic_visit", "_execute_comprehension"):
                    hm = model.method("_recompute", "Visitor", call.func.attr, required=False)
                    if hm is not None and any(isinstance(x, (ast.Delete, ast.Assign)) and "_name_to_value[" in src_of(x).split("=")[0] for x in ast.walk(hm.node)):
                        others.append(n)
        if others:
            bad = (others[0], "the name table is changed entry by entry around the comprehension (`%s`): whether a target's name was unbound or bound to None before cannot be told apart, so a None-valued variable re-used as a target is dropped from the table" % first_line(others[0].stmt))
        elif not binds:
            bad = (fi.node, "the targets of the comprehension are not bound to the unknown marker while it is visited")
        elif len(restores) != 1:
            bad = (fi.node, "the name table is not put back by one assignment of the saved table (%d found)" % len(restores))
        else:
            r = restores[0]
            v = strip_sites(flow.term(r.ast.value, r))
            is_copy = v[0] == "call" and ((v[1] == ("attr", ("module", "copy"), "copy") and v[2] == (NT,)) or (v[1] == ("builtin", "dict") and v[2] == (NT,)) or (v[1] == ("attr", NT, "copy") and not v[2]))
            if not is_copy:
                bad = (r, "what is put back (%s) is not a copy of the table taken before the targets were bound" % show(v, 60))
            else:
                execs = [n for n in flow.cfg.nodes for call, c, a in calls_in(n) if isinstance(call.func, ast.Attribute) and call.func.attr == "_execute_comprehension"]
                if any(r.id not in dom[e.id] for e in execs):
                    bad = (execs[0], "the comprehension can be executed before the name table is put back")
                # the copy is taken before any target is bound
                def is_copy_term(t_):
                    return t_[0] == "call" and ((t_[1] == ("attr", ("module", "copy"), "copy") and t_[2] == (NT,)) or (t_[1] == ("builtin", "dict") and t_[2] == (NT,)) or (t_[1] == ("attr", NT, "copy") and not t_[2]))

                saves = [n for n in flow.cfg.nodes if n.kind == "stmt" and isinstance(n.ast, ast.Assign) and n is not r and is_copy_term(strip_sites(flow.term(n.ast.value, n)))]
                if not saves or not all(any(sv.id in dom[b.id] for sv in saves) for b in binds):
                    bad = bad or (r, "the copy of the table is not taken before the targets are bound")
        where = bad[0] if bad else None
        run.check(bad is None, rule, fi.qual, "whole-table copy before binding the targets; the copy put back before executing the comprehension", bad[1] if bad else "", fi.loc(where) if where is not None else fi.loc(), None, first_line(where.stmt) if where is not None and hasattr(where, "stmt") and where.stmt is not None else None)
    return count


def comprehension_env(run, model, rule="C06.comprehension-env"):
    """The code compiled for a comprehension (and for the trace of ``all(<generator>)``) runs in the whole name table:
    it is called with ``**self._name_to_value``.  A selected subset has to decide which names "count" -- selecting by
    value (``is not None``, truthiness) drops None-valued variables, and the compiled code then silently reads the
    built-in of the same name or fails with NameError, so the message shows values Python never computed."""
    NT = ("attr", ("param", "self"), "_name_to_value")
    count = 0
    from .effects import _dynamic_callee

    # the methods of the visitor that call code looked up at run time (found by that role, not by name)
    for fi in sorted(model.methods("_recompute", "Visitor"), key=lambda f_: f_.qual):
        flow = get_flow(model, fi)
        sites = []
        for n in flow.cfg.nodes:
            for call, c, a in calls_in(n):
                ct = flow.term(call.func, n)
                # compiled code is fetched from the namespace it was exec'ed into: a subscript look-up
                alts_ = ct[1] if ct[0] == "phi" else (ct,)
                if _dynamic_callee(ct) and all(a_[0] == "idx" and strip_sites(a_[1])[0] != "global" for a_ in alts_):
                    sites.append((n, call))
        if not sites:
            continue
        run.saw(flow)
        for n, call in sites:
            count += 1
            stars = [strip_sites(flow.term(kw.value, n)) for kw in call.keywords if kw.arg is None]
            ok = stars == [NT] and not call.args and all(kw.arg is None for kw in call.keywords)
            run.check(ok, rule, "%s:compiled-call@%d" % (fi.qual, count), "the compiled code is called with **self._name_to_value (the whole table)", "the compiled code is called with %s instead of the whole name table: a name left out (e.g. one bound to None) is read from the builtins or is undefined inside the compiled code" % ([show(x, 50) for x in stars] or "no keyword table"), fi.loc(n), None, first_line(n.stmt))
    return count


def speculative_visit(run, model, rule="C07.speculative-visit"):
    """The element and filter expressions of a comprehension are evaluated by Python once per item -- not at all when
    the iterable is empty.  A handler that visits them unconditionally (with the targets unknown, to collect the values
    that do not depend on the targets) evaluates sub-expressions Python may have skipped:
    ``all(1 // d > x for x in xs) and flag`` with ``d=0, xs=[], flag=False`` fails inside message generation."""
    count = 0
    for name, fields in (("visit_GeneratorExp", ("elt",)), ("visit_ListComp", ("elt",)), ("visit_SetComp", ("elt",)), ("visit_DictComp", ("key", "value"))):
        fi = model.method("_recompute", "Visitor", name, required=False)
        if fi is None:
            continue
        flow = get_flow(model, fi)
        run.saw(flow)
        count += 1
        spec = []
        for n in flow.cfg.nodes:
            for call, c, a in calls_in(n):
                v = _visit_of(strip_sites(flow.term(call, n)))
                if v is None:
                    continue
                if v[0] == "attr" and v[1] == NODE and v[2] in fields:
                    spec.append((n, "the %s expression" % v[2]))
                elif v[0] == "elem" and any(s_[0] == "attr" and s_[2] == "ifs" for s_ in subterms(v)):
                    spec.append((n, "a filter"))
        if spec:
            n, what = spec[0]
            # one finding per handler, keyed without statement text (refactorings move the statements around)
            run.violation(rule, fi.qual, "%s of the comprehension is visited unconditionally (%d such visit(s) in this handler): Python evaluates it once per item and not at all for an empty iterable, so a sub-expression that is undefined there (`1 // d` with d == 0) fails inside message generation" % (what, len(spec)), fi.loc(n), None, "speculative visit of element / filter expressions")
        else:
            run.ok(rule, fi.qual, "element and filter expressions are not visited speculatively", fi.loc())
    return count


def placeholder_identity(run, model, rule="C06.placeholder-identity"):
    """The unknown marker is recognised by identity (``x is PLACEHOLDER``, ``any(x is PLACEHOLDER for ...)``).

    ``PLACEHOLDER in values`` / ``x == PLACEHOLDER`` call the ``__eq__`` of the user's values: an element-wise or
    permissive ``__eq__`` (a vector class, ``mock.ANY``) makes a known value pass for unknown -- the expression
    silently disappears from the message -- and a strict ``__eq__`` raises inside message generation."""
    PH = "PLACEHOLDER"
    # containers whose elements are strings the library formatted itself: ``in`` cannot reach user code there
    STRINGS_ONLY = {"visit_JoinedStr": "the parts of an f-string are str objects produced by format() or the marker itself"}
    count = 0
    for fi in sorted(model.methods("_recompute", "Visitor"), key=lambda f_: f_.qual):
        bad = None
        n_tests = 0
        for sub in ast.walk(fi.node):
            if isinstance(sub, ast.Compare):
                sides = [sub.left] + list(sub.comparators)
                if any(isinstance(x, ast.Name) and x.id == PH for x in sides):
                    n_tests += 1
                    if not all(isinstance(o, (ast.Is, ast.IsNot)) for o in sub.ops) and fi.name not in STRINGS_ONLY:
                        bad = sub
        if n_tests == 0:
            continue
        count += 1
        run.check(bad is None, rule, fi.qual, "%d test(s) of the unknown marker, all by identity%s" % (n_tests, (" (exempt: %s)" % STRINGS_ONLY[fi.name]) if fi.name in STRINGS_ONLY else ""), "the unknown marker is tested with `%s`: that calls __eq__ of the user's values -- a permissive __eq__ makes a known value count as unknown (its expression vanishes from the message), a strict one raises while the message is built" % (src_of(bad, 60) if bad is not None else ""), fi.loc(bad) if bad is not None else fi.loc(), None, src_of(bad, 60) if bad is not None else None)
    return count


def trace_only_unhappy(run, model, rule="C07.trace-only-unhappy"):
    """The tracing function generated for ``all(<generator>)`` is built and run only after the real ``all`` gave a
    falsy result.  Its 'happy' return reads a variable that is bound inside the loops: for an empty iteration (a
    vacuously true quantifier next to another, violated operand) it is unbound, and the UnboundLocalError replaces
    the violation."""
    translate = model.func("_recompute._translate_all_expression_to_a_module")
    # the method is found by its role: the one of the re-computing visitor that has the tracing function built
    fi = flow = None
    targets, real = [], []
    for cand in sorted(model.methods("_recompute", "Visitor"), key=lambda f_: f_.qual):
        cfl = get_flow(model, cand)
        tg = [n for n in cfl.cfg.nodes for call, c, a in calls_in(n) if fi_of_term(model, strip_sites(cfl.term(call.func, n))) is translate]
        if tg:
            fi, flow, targets = cand, cfl, tg
            break
    if fi is None:
        raise AnalysisError("_recompute.Visitor: no method calls %s (where is the tracing function built?)" % translate.qual)
    run.saw(flow)
    gg = GuardGraph(flow)
    for n in flow.cfg.nodes:
        for call, c, a in calls_in(n):
            t = strip_sites(flow.term(call.func, n))
            if t[0] == "param" and t[1] != fi.params[0]:
                real.append((n, flow.term(call, n)))
    ok = False
    for n, rt in real:
        atoms = [a for (nid, k), (kn, _at) in gg.edge_facts.items() for a, pol in kn if strip_sites(a) == strip_sites(rt)]
        if any(gg.necessary([flow.cfg.entry], [x.id for x in targets], (a, False)) for a in atoms):
            ok = True
    # ... and always then: once the quantifier was found falsy, nothing returns before the tracing function was built
    # (the first falsifying assignment is part of every message about a failed quantifier)
    if ok:
        tgt_ids = set(x.id for x in targets)
        for n, rt in real:
            atoms = [a for (nid, k), (kn, _at) in gg.edge_facts.items() for a, pol in kn if strip_sites(a) == strip_sites(rt)]
            for a in atoms:
                for nid, k in gg.edges_where((a, False)):
                    tn = [x for x in flow.cfg.nodes if x.id == nid][0]
                    starts = [t for kk, t in tn.succ if kk == k]
                    seen = gg.reach(starts, lambda n_, k_, t_: t_.id in tgt_ids, None, False)
                    if flow.cfg.exit_return.id in seen and not (set(s_.id for s_ in starts) & tgt_ids):
                        rets = [x for x in flow.cfg.nodes if x.kind == "return" and x.id in seen]
                        w = rets[0] if rets else tn
                        run.violation(rule, fi.qual + ":always", "after the quantifier was found falsy a path returns without tracing it (`%s`): the message then lacks the first falsifying assignment of the loop variables" % first_line(w.stmt), fi.loc(w), None, first_line(w.stmt))
                        return
        run.ok(rule, fi.qual + ":always", "a falsy quantifier is always traced", fi.loc(targets[0]))
    run.check(ok, rule, fi.qual, "the tracing function is generated and run only when the quantifier itself was falsy", "the tracing function is generated and run without the quantifier having been found falsy first: for an empty iteration its result variable is never bound, and an UnboundLocalError (wrapped as 'Failed to recompute') replaces the violation of the contract", fi.loc(targets[0]), None, first_line(targets[0].stmt))
