"""C04 -- inherited contracts combine per Liskov (DESIGN.md 5/C04, table A.3)."""
import ast

from .. import tables
from ..events import calls_in, fi_of_term, bind_call, DUNDERS_INV
from ..flow import get_flow, show, strip_sites, subterms, uncopied
from ..guards import GuardGraph, normal_succ
from ..model import AnalysisError, first_line, src_of
from . import meta

META = {
    "explanation": "sequence provenance of the lists stored on the new function's checker (base parts in order of `bases`, then own; concatenated into fresh lists); decision table of one iteration of the loop over the bases; decision table of the weaken rule; provenance of the invariant lists; who-may-write for the checker attributes",
    "trusted_base": ["attribute lookup through the MRO (getattr(base, key))"],
    "not_decided": ["verdicts for concrete truth assignments (they follow from C01/C02 applied to the merged lists)", "MRO subtleties beyond the order of `bases`"],
    "assumptions": [],
}


def base_loop_table(run, model, rule="C04.accept-all"):
    for kind, nf in meta.namespace_fns(model).items():
        flow = nf.flow
        run.saw(flow)
        if len(nf.base_loops) != 1:
            run.violation(rule, nf.fi.qual, "no single loop over `%s` collects the bases' contracts" % nf.bases_p, nf.fi.loc())
            continue
        head = nf.base_loops[0]
        start = [t for k, t in head.succ if k == "T"][0]
        try:
            ps = tables.paths(flow, start, {head.id}, stop_at_loops=True)
        except AnalysisError as err:
            raise AnalysisError("%s: body of the loop over the bases is not loop-free: %s" % (nf.fi.qual, err))
        inner = [p for p in ps if p.outcome is not None and p.outcome[0] == "stop" and p.outcome[2] is not head]
        if inner:
            raise AnalysisError("%s: the body of the loop over the bases runs a loop of its own (line %s); the decision table of one iteration reads loop-free bodies only" % (nf.fi.qual, getattr(inner[0].outcome[2], "lineno", "?")))
        base_el = ("elem", ("param", nf.bases_p))
        finder = nf.finder

        def is_base_checker(t):
            t = strip_sites(t)
            return t[0] == "call" and fi_of_term(model, t[1]) is finder and any(s == base_el for s in subterms(t))

        def is_base_member(t):
            """getattr(base, key) possibly followed by .fget/.fset/.fdel"""
            t = strip_sites(t)
            return any(s == base_el for s in subterms(t)) and not is_base_checker(t) and t[0] in ("call", "attr", "phi")

        rows = [("absent", None), ("present", "none"), ("present", "no-pre"), ("present", "with-pre")]
        if nf.is_property:
            rows.append(("present-without-accessor", None))
        # which local is handed to the collapse helper as "some base has the member"
        collapse = model.func("_metaclass._collapse_preconditions")
        have_var = None
        for n in flow.cfg.nodes:
            for call, cond, aw in calls_in(n):
                if fi_of_term(model, flow.term(call.func, n)) is collapse:
                    b = bind_call(collapse, call)
                    if b and "bases_have_func" in b and isinstance(b["bases_have_func"], ast.Name):
                        have_var = b["bases_have_func"].id
                        # look through plain copies (``x__i3 = x`` made by inlining a helper)
                        for _ in range(4):
                            srcs = [st.value.id for st in ast.walk(nf.fi.node) if isinstance(st, ast.Assign) and len(st.targets) == 1 and isinstance(st.targets[0], ast.Name) and st.targets[0].id == have_var and isinstance(st.value, ast.Name)]
                            others = [st for st in ast.walk(nf.fi.node) if isinstance(st, ast.Assign) and len(st.targets) == 1 and isinstance(st.targets[0], ast.Name) and st.targets[0].id == have_var and not isinstance(st.value, ast.Name)]
                            if len(srcs) == 1 and not others:
                                have_var = srcs[0]
                            else:
                                break
        # the accept-all flag: the local whose truth, after the loop, empties the inherited groups
        emptier_vars = set()
        for n in flow.cfg.nodes:
            if n.kind == "test" and isinstance(n.ast, ast.Name):
                for k, tgt in n.succ:
                    if k == "T" and tgt.kind == "stmt" and isinstance(tgt.ast, ast.Assign) and src_of(tgt.ast.value) == "[]":
                        emptier_vars.add(n.ast.id)
        for member, ck in rows:
            def ev(t, member=member, ck=ck):
                ts = strip_sites(t)
                if ts[0] == "call" and ts[1] == ("builtin", "hasattr") and len(ts[2]) == 2 and ts[2][0] == base_el and ts[2][1] == ("param", nf.key_p):
                    return member != "absent"
                if ts[0] == "call" and ts[1] == ("builtin", "isinstance") and ts[2][1] == ("builtin", "property"):
                    return True
                if ts[0] == "op" and ts[1] in ("cmp:Is", "cmp:IsNot", "cmp:Eq", "cmp:NotEq") and ts[2][1] == ("const", "None"):
                    l = ts[2][0]
                    isnone = None
                    if is_base_checker(l):
                        isnone = ck == "none"
                    elif is_base_member(l):
                        isnone = member == "present-without-accessor"
                    if isnone is None:
                        return None
                    return isnone if ts[1] in ("cmp:Is", "cmp:Eq") else (not isnone)
                if is_base_checker(ts):
                    return ck != "none"
                if ts[0] == "attr" and ts[2] == "__preconditions__" and is_base_checker(ts[1]):
                    return None if ck in (None, "none") else ck == "with-pre"
                if ts[0] == "call" and ts[1] == ("builtin", "len") and ts[2] and ts[2][0][0] == "attr" and ts[2][0][2] == "__preconditions__":
                    return None
                # accessor matching of the property pass: func == value.fget ... (any one of them holds)
                return None

            # only iterations that complete (the `raise NotImplementedError` arms are defensive dead ends)
            feas = [p for p in ps if tables.feasible(p, ev) and p.outcome is not None and p.outcome[0] == "stop"]
            construct = "%s[base member %s%s]" % (nf.fi.qual, member, (", its checker: %s" % ck) if ck else "")
            effects = set()
            for p in feas:
                ext = sorted(set(ct[2][0][2] for ct, n in p.calls if ct[1][0] == "attr" and ct[1][2] == "extend" and ct[2] and ct[2][0][0] == "attr" and is_base_checker(ct[2][0][1])))
                flags = sorted(nm for nm, v in p.env.items() if v == ("const", "True") and any(isinstance(nn.ast, ast.Assign) and any(isinstance(tg, ast.Name) and tg.id == nm for tg in nn.ast.targets) for nn in p.nodes if nn.kind == "stmt"))
                others = [nm for nm in flags if nm != have_var and (nm in emptier_vars or not emptier_vars)]
                effects.add((tuple(ext), have_var in flags, tuple(others)))
            if member in ("absent", "present-without-accessor"):
                want_ext, want_have, want_acc = (), False, False
            elif ck == "none":
                want_ext, want_have, want_acc = (), True, True
            elif ck == "no-pre":
                want_ext, want_have, want_acc = ("__postcondition_snapshots__", "__postconditions__", "__preconditions__"), True, True
            else:
                want_ext, want_have, want_acc = ("__postcondition_snapshots__", "__postconditions__", "__preconditions__"), True, False
            bad = None
            if len(effects) != 1:
                bad = "the effect of one iteration is not determined by (member present, base checker, its preconditions): %s" % sorted(effects)
            else:
                ext, have, others = list(effects)[0]
                if tuple(ext) != want_ext:
                    bad = "collects %s from this base, expected %s" % (list(ext) or "nothing", list(want_ext) or "nothing")
                elif have != want_have:
                    bad = "records 'some base has the member' = %s, expected %s" % (have, want_have)
                elif bool(others) != want_acc:
                    bad = ("a base that provides the member without preconditions must make the inherited precondition 'accept everything' (the base part of the disjunction becomes empty); this base is ignored instead" if want_acc else "this base is treated as accepting every call although it declares preconditions")
            run.check(bad is None, rule, construct, "effect of the iteration as in table A.3", bad or "", nf.fi.loc(head), None, construct.split("[", 1)[1])
        # after the loop: the accept-all flag empties the base part of the preconditions
        acc_vars = set()
        for p in ps:
            for nm, v in p.env.items():
                if v == ("const", "True") and nm != have_var and (nm in emptier_vars or not emptier_vars):
                    acc_vars.add(nm)
        ok = False
        for n in flow.cfg.nodes:
            if n.kind == "test" and isinstance(n.ast, ast.Name) and n.ast.id in acc_vars:
                for k, tgt in n.succ:
                    if k == "T" and tgt.kind == "stmt" and isinstance(tgt.ast, ast.Assign) and src_of(tgt.ast.value) == "[]":
                        # the emptied variable is the one handed to the collapse helper as base_preconditions
                        ok = True
        run.check(ok, rule, nf.fi.qual + ":empty-base-part", "with the accept-all flag set the inherited groups are dropped before the collapse", "the accept-all flag does not empty the inherited precondition groups", nf.fi.loc())


def groups_kept(run, model, rule="C04.groups-kept"):
    """Every inherited group and the own group end up in the collapsed preconditions: the disjunction is over *all* of
    them.  A loop or comprehension that leaves groups out under a condition (de-duplication by content, by identity of
    the contracts, by "already covered") drops an alternative -- and with it calls the class must accept."""
    fi = model.func("_metaclass._collapse_preconditions")
    returned = set()
    for sub in ast.walk(fi.node):
        if isinstance(sub, ast.Return) and sub.value is not None:
            for x in ast.walk(sub.value):
                if isinstance(x, ast.Name):
                    returned.add(x.id)
    # close over plain copies / concatenations feeding the returned names
    for _ in range(3):
        for st in ast.walk(fi.node):
            if isinstance(st, ast.Assign) and any(isinstance(tg, ast.Name) and tg.id in returned for tg in st.targets):
                for x in ast.walk(st.value):
                    if isinstance(x, ast.Name):
                        returned.add(x.id)
    bad = None
    n = 0
    for lp in ast.walk(fi.node):
        if isinstance(lp, (ast.For, ast.While)):
            appends = [c for c in ast.walk(lp) if isinstance(c, ast.Call) and isinstance(c.func, ast.Attribute) and c.func.attr in ("append", "extend", "insert") and isinstance(c.func.value, ast.Name) and c.func.value.id in returned]
            if not appends:
                continue
            n += 1
            jumps = [j for j in ast.walk(lp) if isinstance(j, (ast.Continue, ast.Break))]
            nested = [c for c in appends if any(isinstance(i_, ast.If) and any(x is c for x in ast.walk(i_)) for i_ in ast.walk(lp))]
            if jumps or nested:
                bad = bad or (lp, "the loop at line %d adds a group to the collapsed preconditions only under a condition (`%s`): a group that is left out is an alternative the class no longer accepts" % (lp.lineno, first_line(jumps[0] if jumps else nested[0])))
        if isinstance(lp, (ast.ListComp, ast.GeneratorExp)) and any(g.ifs for g in lp.generators):
            # a filtered comprehension over the groups (not over the contracts of one group, which is a copy)
            parents_ret = any(isinstance(r, ast.Return) and r.value is not None and any(x is lp for x in ast.walk(r.value)) for r in ast.walk(fi.node)) or any(isinstance(st, ast.Assign) and any(isinstance(tg, ast.Name) and tg.id in returned for tg in st.targets) and any(x is lp for x in ast.walk(st.value)) for st in ast.walk(fi.node))
            if parents_ret:
                n += 1
                bad = bad or (lp, "a filtered comprehension (`%s`) decides which groups reach the collapsed preconditions: a group that is left out is an alternative the class no longer accepts" % first_line(lp))
    run.check(bad is None, rule, fi.qual, "no group is left out of the collapsed preconditions under a condition (%d loop(s) / filter(s) looked at)" % n, bad[1] if bad else "", fi.loc(bad[0]) if bad else fi.loc(), None, first_line(bad[0]) if bad else None)


def weaken_table(run, model, rule="C04.weaken"):
    fi = model.func("_metaclass._collapse_preconditions")
    flow = get_flow(model, fi)
    run.saw(flow)
    ps = tables.paths(flow)
    bp, hp, op = ("param", "base_preconditions"), ("param", "bases_have_func"), ("param", "preconditions")
    for b in (False, True):
        for h in (False, True):
            for o in (False, True):
                def ev(t, b=b, h=h, o=o):
                    if t == bp:
                        return b
                    if t == hp:
                        return h
                    if t == op:
                        return o
                    return None

                feas = [p for p in ps if tables.feasible(p, ev)]
                outs = sorted(set(tables.classify(p) for p in feas))
                want = "raise TypeError" if (not b and h and o) else "return"
                construct = "%s[inherited groups %s, some base has the member: %s, own preconditions %s]" % (fi.qual, "present" if b else "none", h, "present" if o else "none")
                bad = None
                if outs != [want]:
                    bad = "expected `%s`, possible outcomes %s" % (want, outs)
                elif want == "return":
                    for p in feas:
                        if uncopied(p.outcome[1]) != ("op", "Add", (bp, op)):
                            bad = "the collapsed preconditions are %s, expected inherited groups + own group (groups stay separate: OR between classes)" % show(strip_sites(p.outcome[1]))
                run.check(bad is None, rule, construct, "outcome `%s`" % want, bad or "", fi.loc(), None, construct.split("[", 1)[1])
    post_collapse(run, model, "C04.post-prov")


def post_collapse(run, model, rule="C04.post-prov"):
    """The collapsed postconditions are all the inherited ones followed by all the own ones -- none is dropped."""
    fi2 = model.func("_metaclass._collapse_postconditions", required=False)
    if fi2 is None:
        # the trivial helper was inlined at its call sites: the provenance rule sees `inherited + own` there
        return
    rt = meta.Summaries(model).return_term(fi2)
    run.check(rt == ("op", "Add", (("param", fi2.params[0]), ("param", fi2.params[1]))), rule, fi2.qual, "returns inherited + own (conjunction, inherited first)", "returns %s, expected inherited + own" % show(strip_sites(rt)), fi2.loc())


def invariant_provenance(run, model, rule="C04.inv-prov", rule_own="C17.own-lists"):
    fi = model.func("_metaclass._collapse_invariants")
    flow = get_flow(model, fi)
    run.saw(flow)
    bases_p, ns_p, d_p = fi.params
    sites = meta.mutation_sites(model, fi)
    ext = [(n, recv) for n, how, recv in sites if how == "extend"]
    bad = None
    r1 = r2 = None
    heads = [n for n in flow.cfg.nodes if n.kind == "next" and any(p.kind == "iter" and flow.term(p.ast, p) == ("param", bases_p) for _, p in n.pred)]
    if len(heads) != 1:
        bad = "no loop iterates the parameter `%s` itself" % bases_p
    elif len(ext) != 2:
        bad = "expected two extend sites (bases, then own), found %d" % len(ext)
    else:
        (n1, r1), (n2, r2) = sorted(ext, key=lambda x: x[0].lineno)
        def arg(n):
            for call, c, a in calls_in(n):
                if isinstance(call.func, ast.Attribute) and call.func.attr == "extend":
                    return flow.term(call.args[0], n)
        a1, a2 = strip_sites(arg(n1)), strip_sites(arg(n2))
        base_el = ("elem", ("param", bases_p))
        want1 = ("call", ("builtin", "getattr"), (base_el, ("param", d_p)), ())
        want2 = ("idx", ("param", ns_p), ("param", d_p))
        inside = set(id(sub) for st in heads[0].stmt.body for sub in ast.walk(st))
        if r1 != r2 or meta.ownership(model, r1, meta.Summaries(model)) != "fresh":
            bad = "the merged invariants are not collected into one fresh list"
        elif a1 != want1 or id(n1.stmt) not in inside:
            bad = "the first part is %s, expected the list of each base in order of `bases`" % show(a1)
        elif a2 != want2 or id(n2.stmt) in inside or n2.lineno < n1.lineno:
            bad = "the second part is %s, expected the class's own list from the namespace, after the bases'" % show(a2)
        for x in flow.cfg.nodes:
            if x.kind in ("break", "return") and id(x.stmt) in inside:
                bad = "`%s` inside the loop over the bases" % x.kind
    run.check(bad is None, rule, fi.qual, "namespace[dunder] = (for base in bases: base's list) + own list, in a fresh list", bad or "", fi.loc())
    # ---- the store into the namespace happens whenever some base defines the dunder (table)
    stores = [n for n in flow.cfg.nodes if n.kind == "stmt" and isinstance(n.ast, ast.Assign) and isinstance(n.ast.targets[0], ast.Subscript) and flow.term(n.ast.targets[0].value, n) == ("param", ns_p)]
    if len(stores) != 1:
        run.violation(rule_own, fi.qual, "expected one store of the merged list into the namespace, found %d" % len(stores), fi.loc())
        return
    st = stores[0]
    if len(ext) == 2 and bad is None:
        # what is stored is the merged list itself: every invariant collected, none filtered out or re-ordered on the way
        stored = strip_sites(flow.term(st.ast.value, st))
        others = [(n, how) for n, how, recv in sites if strip_sites(recv) == strip_sites(r1) and how != "extend"]
        bad2 = None
        if stored != strip_sites(r1):
            bad2 = "the list stored in the namespace is %s, not the list the invariants of the bases and of the class were collected into: invariants can get lost (or re-ordered) between collection and store" % show(stored, 80)
        elif others:
            bad2 = "the merged list is changed in place after collection (`%s`)" % others[0][1]
        run.check(bad2 is None, rule, fi.qual + ":stored", "the list stored in the namespace is the merged list itself", bad2 or "", fi.loc(st), None, first_line(st.stmt))
    gg = GuardGraph(flow)
    # decisions guarding the store, evaluated for: merged list empty / non-empty x some base has the dunder
    # region after the loops is loop-free from the last extend to the exit
    merged = r1 if (len(ext) == 2 and r1 is not None) else None
    start = None
    # the outermost ``if`` (not inside a loop) that lexically contains the store
    def find(stmts, in_loop):
        for s_ in stmts:
            if isinstance(s_, (ast.For, ast.While, ast.AsyncFor)):
                r = find(s_.body, True)
                if r:
                    return r
            elif isinstance(s_, ast.If):
                if not in_loop and any(sub is st.ast for sub in ast.walk(s_)):
                    return s_
                r = find(s_.body, in_loop) or find(s_.orelse, in_loop)
                if r:
                    return r
        return None

    host = find(fi.node.body, False)
    if host is not None:
        for n in flow.cfg.nodes:
            if n.kind == "test" and n.stmt is host:
                start = n
    if start is None:
        run.ok(rule_own, fi.qual, "the merged list is stored into the namespace unconditionally", fi.loc(st))
        return
    ps = tables.paths(flow, start, {st.id})
    for nonempty in (True, False):
        for base_has in (True, False):
            if nonempty and not base_has:
                pass
            def ev(t, nonempty=nonempty, base_has=base_has):
                ts = strip_sites(t)
                if merged is not None and ts == strip_sites(merged):
                    return nonempty
                if ts[0] == "call" and ts[1] == ("builtin", "any") and ts[2] and ts[2][0][0] == "comp":
                    return base_has
                if ts[0] == "call" and ts[1] == ("builtin", "len") and merged is not None and ts[2] and ts[2][0] == strip_sites(merged):
                    return None
                return None

            feas = [p for p in ps if tables.feasible(p, ev)]
            outs = sorted(set(tables.classify(p) for p in feas))
            want = "reaches" if (nonempty or base_has) else None
            construct = "%s[merged list %s, some base defines the dunder: %s]" % (fi.qual, "non-empty" if nonempty else "empty", base_has)
            if want is None:
                run.ok(rule_own, construct, "nothing to own (outcomes %s)" % outs, fi.loc(st), nontrivial=False)
            else:
                run.check(outs == ["reaches"], rule_own, construct, "the class gets its own list in the namespace", "the (possibly empty) merged list is not stored in the new class's namespace although a base defines it: the class decorator then appends to the base's list and the invariant leaks to the base and its other descendants (outcomes: %s)" % outs, fi.loc(st), None, first_line(start.stmt))
    # the any(...) must range over hasattr(base, dunder) for base in bases
    for n in flow.cfg.nodes:
        if n.ast is None or n.kind != "test":
            continue
        for sub in ast.walk(n.ast):
            if isinstance(sub, ast.Call) and src_of(sub.func) == "any" and sub.args and isinstance(sub.args[0], ast.GeneratorExp):
                g = sub.args[0]
                okg = len(g.generators) == 1 and src_of(g.generators[0].iter) == bases_p and not g.generators[0].ifs and isinstance(g.generators[0].target, ast.Name) and src_of(g.elt) == "hasattr(%s, %s)" % (g.generators[0].target.id, d_p)
                run.check(okg, rule_own, fi.qual + ":any-base", "`any(hasattr(base, dunder) for base in bases)`", "the test whether a base defines the dunder is `%s`" % src_of(sub), fi.loc(n), None, first_line(n.stmt))


def structure_rules(run, model):
    # ---- ctor-excluded
    nf = meta.namespace_fns(model)["function"]
    flow = nf.flow
    gg = GuardGraph(flow)
    head = nf.base_loops[0] if nf.base_loops else None
    ok = False
    if head is not None:
        for (nid, k), (kn, atoms) in gg.edge_facts.items():
            for a, pol in kn:
                a = strip_sites(a)
                if a[0] == "op" and a[1] in ("cmp:NotIn", "cmp:In") and a[2][0] == ("param", nf.key_p) and a[2][1][0] == "display":
                    lits = sorted(x[1] for x in a[2][1][2])
                    if lits == ["'__init__'", "'__new__'"]:
                        fact = (a, pol)
                        want_pol = a[1] == "cmp:NotIn"
                        orig = [x for x, pp in kn if strip_sites(x) == a][0]
                        it_nodes = [p for _, p in head.pred if p.kind == "iter"]
                        if pol == want_pol and gg.necessary([flow.cfg.entry], [head.id], (orig, pol)):
                            ok = True
    run.check(ok, "C04.ctor-excluded", nf.fi.qual, "the bases' contracts are collected only for keys other than __init__ / __new__", "constructor contracts (__init__, __new__) are not excluded from inheritance", nf.fi.loc())
    # ---- namespace-only
    fi = model.func("_metaclass._dbc_decorate_namespace")
    fl = get_flow(model, fi)
    run.saw(fl)
    heads = [n for n in fl.cfg.nodes if n.kind == "next"]
    its = []
    for h in heads:
        for k, p in h.pred:
            if p.kind == "iter" and p.stmt is h.stmt:
                its.append(strip_sites(fl.term(p.ast, p)))
    want = ("call", ("attr", ("param", fi.params[1]), "items"), (), ())
    run.check(want in its, "C04.namespace-only", fi.qual, "decorates exactly the members defined in the new class's namespace", "the decoration pass does not iterate namespace.items() (iterates %s)" % [show(x) for x in its], fi.loc())
    # all three invariant dunders are collapsed
    lits = set()
    for n in fl.cfg.nodes:
        if n.kind == "iter":
            t = fl.term(n.ast, n)
            if t[0] == "display":
                lits |= set(x[1].strip("'") for x in t[2] if x[0] == "const")
    run.check(set(DUNDERS_INV) <= lits, "C04.inv-prov", fi.qual + ":dunders", "all three invariant lists are merged", "not all invariant lists are merged: %s" % sorted(lits), fi.loc())
    # dispatch: functions / static / class methods -> function pass; properties -> property pass
    fn_f = model.func("_metaclass._decorate_namespace_function")
    fn_p = model.func("_metaclass._decorate_namespace_property")
    called = set()
    for n in fl.cfg.nodes:
        for call, c, a in calls_in(n):
            cf = fi_of_term(model, fl.term(call.func, n))
            if cf in (fn_f, fn_p):
                called.add(cf.name)
    run.check(len(called) == 2, "C04.namespace-only", fi.qual + ":dispatch", "functions (incl. static/class methods) and properties are both passed to their decoration pass", "only %s called" % sorted(called), fi.loc())
    override_target(run, model)
    # ---- property accessor matching (3 rows): func == value.X  =>  base accessor X / replaced accessor X
    _accessor_rows(run, model)


def override_target(run, model, rule="C04.override-target", only=None):
    """The merged lists are stored on the checker of the namespace's own function (the object the wrapper reads)."""
    for kind, nf in meta.namespace_fns(model).items():
        factory = model.func("_checkers.decorate_with_checker")
        for dunder, lst in sorted(nf.stores.items()):
            if only is not None and dunder not in only:
                continue
            for n, target, val in lst:
                alts = target[1] if target[0] == "phi" else (target,)
                ok = True
                for a in alts:
                    if a == ("const", "None"):
                        continue
                    cf = fi_of_term(model, a[1]) if a[0] == "call" else None
                    own = a[0] == "call" and cf in (nf.finder, factory) and not any(s == ("elem", ("param", nf.bases_p)) for s in subterms(a))
                    if not own:
                        ok = False
                run.check(ok, rule, "%s:%s" % (nf.fi.qual, dunder), "stored on the checker found on / created for the namespace's own function", "the merged list is stored on %s, not on the checker of the function being defined (a base's checker would be rewritten, or the real checker never sees the inherited contracts)" % show(strip_sites(target), 100), nf.fi.loc(n), None, first_line(n.stmt))


def _accessor_rows(run, model):
    nfp = meta.namespace_fns(model)["property"]
    n_rows = 0
    role_of_local = {}
    for sub in ast.walk(nfp.fi.node):
        if isinstance(sub, ast.Call) and isinstance(sub.func, ast.Name) and sub.func.id == "property":
            for kw in sub.keywords:
                if kw.arg in ("fget", "fset", "fdel") and isinstance(kw.value, ast.Name):
                    role_of_local[kw.value.id] = kw.arg
    # a local bound once to ``value.<accessor>`` stands for that accessor (the read-only attributes read once)
    stores = {}
    for sub in ast.walk(nfp.fi.node):
        if isinstance(sub, ast.Name) and isinstance(sub.ctx, ast.Store):
            stores[sub.id] = stores.get(sub.id, 0) + 1
    alias = {}
    for sub in ast.walk(nfp.fi.node):
        if isinstance(sub, (ast.Assign, ast.AnnAssign)) and isinstance(getattr(sub, "value", None), ast.Attribute) and sub.value.attr in ("fget", "fset", "fdel"):
            for tg in (sub.targets if isinstance(sub, ast.Assign) else [sub.target]):
                if isinstance(tg, ast.Name) and stores.get(tg.id) == 1:
                    alias[tg.id] = sub.value
    for st in ast.walk(nfp.fi.node):
        if isinstance(st, ast.If) and isinstance(st.test, ast.Compare) and len(st.test.ops) == 1 and isinstance(st.test.ops[0], ast.Eq):
            r = st.test.comparators[0]
            if isinstance(r, ast.Name) and r.id in alias:
                r = alias[r.id]
            if isinstance(r, ast.Attribute) and r.attr in ("fget", "fset", "fdel") and isinstance(st.body[0], ast.Assign):
                acc = r.attr
                a = st.body[0]
                tgt = a.targets[0]
                val = a.value
                n_rows += 1
                if isinstance(val, ast.Attribute):
                    okr = val.attr == acc
                    what = "the base's `%s` is looked up for the accessor `%s`" % (val.attr, acc)
                else:
                    okr = isinstance(tgt, ast.Name) and role_of_local.get(tgt.id) == acc
                    what = "the new checker replaces `%s` for the accessor `%s`" % (src_of(tgt), acc)
                run.check(okr, "C04.accessor", "%s:%s@%d" % (nfp.fi.qual, acc, n_rows), "role-preserving accessor matching", what + ": getter, setter and deleter contracts would be mixed up", nfp.fi.loc(st), None, first_line(st))
    if n_rows == 0:
        # the matching is not written as tests of `func == value.<accessor>`: nothing this rule can read
        raise AnalysisError("C04.accessor: %s matches the accessors in a form this rule cannot read (no `func == value.fget / .fset / .fdel` tests)" % nfp.fi.qual)
    if n_rows < 6:
        run.violation("C04.accessor", nfp.fi.qual, "only %d accessor-matching rows found (expected 6: 3 for the base lookup, 3 for the replacement)" % n_rows, nfp.fi.loc())


def run(run, model):
    run.do(meta.provenance_rule, model, "C04.pre-prov", "__preconditions__", "precondition groups")
    run.do(meta.provenance_rule, model, "C04.post-prov", "__postconditions__", "postconditions")
    run.do(meta.snapshot_provenance, model, "C04.snap-prov")
    run.do(base_loop_table, model)
    run.do(meta.per_member_state, model)
    run.do(groups_kept, model)
    run.do(weaken_table, model)
    run.do(invariant_provenance, model, "C04.inv-prov", "C04.inv-own")
    run.do(structure_rules, model)
    from . import inv
    run.do(inv.selection, model, "C04.inv-wrap", "C04.inv-wrap-source")
    # an instance must satisfy the invariants of all its ancestors: the metaclass wraps the members of every class
    # that has invariants, whatever its body declares (members of an invariant-free base come in through the MRO)
    run.do(inv.meta_reapply, model, "C04.meta-reapply", None)
    from . import c18, gates, loops
    run.do(c18.find_rule, model, "C04.single-checker")
    for _role, _ck in gates.checkers(model).items():
        for _kind, _depth, _rn in (("PRE", 2, "C04.groups-evaluated"), ("POST", 1, "C04.conjunction-evaluated")):
            _h = loops.helper_of(model, _ck, _kind)
            if _h is not None:
                run.do(loops.verdict_rule, model, _rn, _h[0], _h[1], _h[2], _depth)
    run.do(meta.shared_member_rule, model, "C04.shared-member")
    run.do(meta.decorate_always, model, "C04.always-merged")
    run.do(meta.namespace_rebind_rule, model, "C04.namespace-rebind")
    run.minimum("C04.pre-prov", 2)
    run.minimum("C04.post-prov", 2)
    run.minimum("C04.snap-prov", 3)
    run.minimum("C04.accept-all", 10)
    run.minimum("C04.weaken", 8)
    run.minimum("C04.inv-prov", 2)
    run.minimum("C04.override-target", 6)
    run.minimum("C04.accessor", 6)
