"""Effect / alias rules over the library's call-time code (C11.handlers, C12.*)."""
import ast

from ..events import bind_call, Summaries, calls_in, fi_of_term, context_vars, module_level_mutables, find_wrappers, WrapperRoles
from ..flow import get_flow, show, strip_sites, subterms
from ..model import AnalysisError, first_line, src_of
from . import meta

USER_ATTRS = ("condition", "capture", "error", "repr")


def reachable_functions(model, roots):
    """Package functions reachable from ``roots`` through resolved calls (call graph closure)."""
    seen = {}
    stack = list(roots)
    while stack:
        fi = stack.pop()
        if fi.qual in seen:
            continue
        seen[fi.qual] = fi
        flow = get_flow(model, fi)
        for n in flow.cfg.nodes:
            for call, cond, aw in calls_in(n):
                t = flow.term(call.func, n)
                cf = fi_of_term(model, t)
                if cf is None and t[0] == "class":
                    cf = model.method(t[1], t[2], "__init__", required=False)
                if cf is None and t[0] == "attr" and t[1][0] == "call" and t[1][1][0] == "class":
                    cf = model.method(t[1][1][1], t[1][1][2], t[2], required=False)
                if cf is None and isinstance(call.func, ast.Attribute) and isinstance(call.func.value, ast.Name) and call.func.value.id == "self" and fi.cls is not None:
                    cf = model.method(fi.module.name, fi.cls.name, call.func.attr, required=False)
                if cf is not None and cf.live:
                    stack.append(cf)
        # the visitors dispatch through ``self.visit`` to every visit_* method
        if fi.cls is not None and any(src_of(b).endswith("NodeVisitor") for b in fi.cls.bases):
            for m in model.methods(fi.module.name, fi.cls.name):
                stack.append(m)
    return seen


def _dynamic_callee(t):
    """The callee is a value looked up at run time (an item of a mapping, the result of a call, compiled code):
    what it runs is not known from the source, so it may be the user's code (e.g. the generated tracing function)."""
    def literal_table(x):
        # a module-level literal dispatch table of the package (folded constant) is not dynamic
        return x[0] == "display" and isinstance(x[-1], tuple) and x[-1][:1] == ("<const>",)

    if t[0] == "phi":
        return any(_dynamic_callee(a) for a in t[1])
    if t[0] in ("idx", "elem"):
        return not literal_table(t[1])
    if t[0] == "call":
        return not (t[1][0] == "attr" and t[1][2] == "get" and literal_table(t[1][1]))
    return False


class UserCode:
    """May a function (transitively) call into user code?"""

    def __init__(self, model):
        self.model = model
        self._memo = {}

    def direct(self, fi):
        flow = get_flow(self.model, fi)
        for n in flow.cfg.nodes:
            for call, cond, aw in calls_in(n):
                f = call.func
                if isinstance(f, ast.Attribute) and f.attr in USER_ATTRS:
                    return True
                t = flow.term(f, n)
                if t[0] == "closure" or (t[0] == "param" and fi.parent is None and t[1] in ("func", "new_func")):
                    return True
                if _dynamic_callee(t):
                    return True
            if n.ast is not None and n.kind in ("stmt", "return", "test"):
                for sub in ast.walk(n.ast) if not isinstance(n.ast, (ast.FunctionDef, ast.AsyncFunctionDef)) else []:
                    if isinstance(sub, ast.UnaryOp) and isinstance(sub.op, ast.Not) and isinstance(sub.operand, ast.Name) and sub.operand.id in fi.params:
                        return True
        return False

    def may(self, fi, _stack=None):
        if fi.qual in self._memo:
            return self._memo[fi.qual]
        _stack = _stack or set()
        if fi.qual in _stack:
            return False
        _stack = _stack | {fi.qual}
        res = self.direct(fi)
        if not res:
            flow = get_flow(self.model, fi)
            for n in flow.cfg.nodes:
                for call, cond, aw in calls_in(n):
                    cf = fi_of_term(self.model, flow.term(call.func, n))
                    if cf is not None and cf is not fi and self.may(cf, _stack):
                        res = True
        self._memo[fi.qual] = res
        return res

    def stmts_may(self, fi, stmts):
        flow = get_flow(self.model, fi)
        for st in stmts:
            for sub in ast.walk(st):
                if isinstance(sub, ast.Call):
                    f = sub.func
                    if isinstance(f, ast.Attribute) and f.attr in USER_ATTRS:
                        return True
                    if isinstance(f, ast.Name) and f.id in fi.params and fi.parent is None and f.id in ("func", "new_func"):
                        return True
                    # resolve through any CFG node of this statement
                    for n in flow.cfg.nodes:
                        if n.stmt is st or (n.ast is not None and sub in list(ast.walk(n.ast)) if n.kind in ("stmt", "return", "test", "raise") and not isinstance(n.ast, (ast.FunctionDef, ast.AsyncFunctionDef, ast.ClassDef)) else False):
                            t = flow.term(f, n)
                            if t[0] == "closure" or _dynamic_callee(t):
                                return True
                            cf = fi_of_term(self.model, t)
                            if cf is not None and self.may(cf):
                                return True
                            break
                if isinstance(sub, ast.UnaryOp) and isinstance(sub.op, ast.Not) and isinstance(sub.operand, ast.Name) and sub.operand.id in fi.params:
                    return True
                if isinstance(sub, ast.Await):
                    return True
        return False


def handlers_rule(run, model, rule="C11.handlers"):
    uc = UserCode(model)
    count = 0
    for fi in model.functions.values():
        if not fi.live:
            continue
        for st in ast.walk(fi.node):
            if not isinstance(st, ast.Try) or not st.handlers:
                continue
            # only the Try statements of this function itself, not of nested defs
            if _owner(fi, st) is not fi:
                continue
            reaches_user = uc.stmts_may(fi, st.body)
            for h in st.handlers:
                count += 1
                construct = "%s:except %s@%d" % (fi.qual, src_of(h.type) if h.type else "<bare>", _handler_ordinal(fi, h))
                ty = src_of(h.type) if h.type is not None else None
                if ty is None or "BaseException" in ty:
                    run.violation(rule, construct, "the handler catches %s: KeyboardInterrupt / SystemExit / task cancellation would be intercepted" % (ty or "everything (bare except)"), fi.loc(h), None, "except %s" % (ty or ""))
                    continue
                ends = _handler_ends(h)
                if reaches_user:
                    if ends == "raise-from" or ends == "reraise":
                        run.ok(rule, construct, "try body reaches user code; the handler ends in `%s` on every path (the original exception stays visible)" % ("raise ... from <caught>" if ends == "raise-from" else "raise"), fi.loc(h))
                    else:
                        run.violation(rule, construct, "the try body can reach user code (condition, capture, error factory, repr, truth test or the decorated function) but the handler %s: the user's exception is dropped" % ("ends in a raise without chaining the caught exception" if ends == "raise-nochain" else "can complete without re-raising"), fi.loc(h), None, first_line(h.body[-1]))
                else:
                    run.ok(rule, construct, "try body reaches no user code (handler: %s)" % ends, fi.loc(h))
    return count


def _owner(fi, node):
    """The innermost function of the model that lexically contains ``node``."""
    best = fi
    for ch in fi.children:
        for sub in ast.walk(ch.node):
            if sub is node:
                return _owner(ch, node)
    return best


def _handler_ordinal(fi, h):
    hs = [x for x in ast.walk(fi.node) if isinstance(x, ast.ExceptHandler)]
    return hs.index(h)


def _handler_ends(h):
    """'raise-from' | 'reraise' | 'raise-nochain' | 'swallow' -- conservative over the handler body's paths."""

    def ends(stmts):
        if not stmts:
            return "swallow"
        last = stmts[-1]
        if isinstance(last, ast.Raise):
            if last.exc is None:
                return "reraise"
            if last.cause is not None and isinstance(last.cause, ast.Name) and last.cause.id == h.name:
                return "raise-from"
            if isinstance(last.exc, ast.Name) and last.exc.id == h.name:
                return "reraise"
            return "raise-nochain"
        if isinstance(last, ast.If):
            a, b = ends(last.body), ends(last.orelse)
            order = ["swallow", "raise-nochain", "raise-from", "reraise"]
            return min(a, b, key=order.index)
        return "swallow"

    # any return/continue/break inside swallows
    for s in h.body:
        for sub in ast.walk(s):
            if isinstance(sub, (ast.Return, ast.Continue, ast.Break)):
                return "swallow"
    return ends(h.body)


# ---------------------------------------------------------------------- C12
def _ctx_value_aliases(model, fi, ctxvars, summ):
    """Terms in ``fi`` that may denote a value held by a context variable: results of get(), arguments of set()."""
    flow = get_flow(model, fi)
    gets, sets = [], []
    for n in flow.cfg.nodes:
        for call, cond, aw in calls_in(n):
            t = flow.term(call.func, n)
            if t[0] == "attr" and t[1] in ctxvars:
                if t[2] == "get":
                    gets.append((n, flow.term(call, n)))
                elif t[2] == "set" and (call.args or call.keywords):
                    a = call.args[0] if call.args else call.keywords[0].value
                    sets.append((n, flow.term(a, n)))
    return gets, sets


def _may_alias(model, t, set_args, ctxvars, summ, depth=0):
    if depth > 4:
        return False
    if t[0] == "call" and t[1][0] == "attr" and t[1][1] in ctxvars and t[1][2] == "get":
        return True
    if t in set_args:
        return True
    if t[0] == "phi":
        return any(_may_alias(model, a, set_args, ctxvars, summ, depth + 1) for a in t[1])
    if t[0] == "call":
        cf = fi_of_term(model, t[1])
        if cf is not None:
            rt = summ.return_term(cf)
            g2, s2 = _ctx_value_aliases(model, cf, ctxvars, summ)
            return _may_alias(model, rt, [x for _, x in s2], ctxvars, summ, depth + 1)
    return False


def immutable_values(run, model, rule="C12.immutable-values"):
    ctxvars = context_vars(model)
    summ = Summaries(model)
    if not ctxvars:
        run.violation(rule, "_checkers", "no contextvars.ContextVar holds the suspension state", "icontract/_checkers.py")
        return
    for cv, default in sorted(ctxvars.items()):
        txt = src_of(default) if default is not None else "<no default>"
        ok = default is None or isinstance(default, ast.Constant) or txt in ("frozenset()", "()", "tuple()")
        run.check(ok, rule, "%s.%s:default" % (cv[1], cv[2]), "default %s is immutable" % txt, "the default `%s` is a mutable object shared by every context" % txt, "icontract/%s.py" % cv[1], None, "default=%s" % txt)
    n_sites = 0
    for fi in model.functions.values():
        if not fi.live:
            continue
        flow = get_flow(model, fi)
        gets, sets = _ctx_value_aliases(model, fi, ctxvars, summ)
        set_args = [x for _, x in sets]
        sites = meta.mutation_sites(model, fi)
        # an attribute assigned on an object held by the variable mutates that object just the same
        for n in flow.cfg.nodes:
            if n.kind == "stmt" and isinstance(n.ast, (ast.Assign, ast.AugAssign, ast.AnnAssign)):
                for tg in (n.ast.targets if isinstance(n.ast, ast.Assign) else [n.ast.target]):
                    if isinstance(tg, ast.Attribute):
                        sites.append((n, "attribute store `.%s =`" % tg.attr, flow.term(tg.value, n)))
        uses_ctx = bool(gets or sets) or any(_may_alias(model, recv, set_args, ctxvars, summ) for _, _, recv in sites)
        if not uses_ctx:
            continue
        run.saw(flow)
        bad = []
        for n, how, recv in sites:
            if _may_alias(model, recv, set_args, ctxvars, summ):
                bad.append((n, how, recv))
        # values handed to set(): no fresh *mutable* object that is also kept and mutated -- covered by `bad`;
        # additionally a mutable container stored in the variable is flagged when it is aliased by a local that is mutated
        n_sites += len(gets) + len(sets)
        if bad:
            for n, how, recv in bad:
                run.violation(rule, "%s:%s" % (fi.qual, how), "in-place `%s` on a value held by the context variable (%s): contexts copied from this one (asyncio tasks, copy_context) share the object, so concurrent callers switch each other's checks off" % (how, show(strip_sites(recv), 80)), fi.loc(n), None, first_line(n.stmt))
        else:
            run.ok(rule, fi.qual, "%d get / %d set of the context variable; no in-place mutation of any value aliasing them" % (len(gets), len(sets)), fi.loc())
        for n, at in sets:
            if at[0] == "call" and at[1] in (("builtin", "set"), ("builtin", "dict"), ("builtin", "list")) and not at[2]:
                # lazily created mutable container stored into the variable
                mutated = any(recv == at or (recv[0] == "phi" and at in recv[1]) for _, _, recv in sites)
                if mutated:
                    continue
    return n_sites


def _free_in_closure(fi, name):
    """``name`` is a free variable of the nested function ``fi`` bound by an enclosing function (not a parameter, not
    assigned in ``fi`` itself)."""
    if fi.parent is None:
        return False
    a = fi.node.args
    own = set(x.arg for x in a.posonlyargs + a.args + a.kwonlyargs) | ({a.vararg.arg} if a.vararg else set()) | ({a.kwarg.arg} if a.kwarg else set())
    for sub in ast.walk(fi.node):
        if _owner(fi, sub) is fi and isinstance(sub, ast.Name) and isinstance(sub.ctx, (ast.Store, ast.Del)):
            own.add(sub.id)
    if name in own:
        return False
    p = fi.parent
    while p is not None:
        pa = p.node.args
        bound = set(x.arg for x in pa.posonlyargs + pa.args + pa.kwonlyargs)
        for sub in ast.walk(p.node):
            if _owner(p, sub) is p and isinstance(sub, ast.Name) and isinstance(sub.ctx, ast.Store):
                bound.add(sub.id)
        if name in bound:
            return True
        p = p.parent
    return False


def no_other_state(run, model, rule="C12.no-other-state"):
    """No store to state that outlives the call, in anything reachable from the six wrappers at call time."""
    wrappers = find_wrappers(model)
    reach = reachable_functions(model, list(wrappers.values()))
    mutables = module_level_mutables(model)
    summ = Summaries(model)
    for qual, fi in sorted(reach.items()):
        flow = get_flow(model, fi)
        run.saw(flow)
        bad = []
        for st in ast.walk(fi.node):
            if _owner(fi, st) is not fi:
                continue
            if isinstance(st, (ast.Global, ast.Nonlocal)):
                assigned = set()
                for sub in ast.walk(fi.node):
                    if isinstance(sub, ast.Name) and isinstance(sub.ctx, (ast.Store, ast.Del)) and sub.id in st.names:
                        assigned.add(sub.id)
                if assigned:
                    bad.append((st, "assigns the %s variable(s) %s at call time: state shared by all threads and tasks" % ("global" if isinstance(st, ast.Global) else "closure (nonlocal)", sorted(assigned))))
        for n in flow.cfg.nodes:
            if n.kind != "stmt":
                continue
            st = n.ast
            targets = []
            if isinstance(st, ast.Assign):
                targets = st.targets
            elif isinstance(st, (ast.AugAssign, ast.AnnAssign)):
                targets = [st.target]
            for tg in targets:
                if isinstance(tg, ast.Attribute):
                    bt = flow.term(tg.value, n)
                    if bt == ("param", "self") and fi.cls is not None:
                        continue  # attributes of the object under construction / the per-violation visitor
                    if strip_sites(bt)[0] == "closure" or (isinstance(tg.value, ast.Name) and _free_in_closure(fi, tg.value.id)):
                        bad.append((st, "stores attribute `%s` on the closure variable %s at call time (one object per decorated function, shared by all calls, threads and tasks)" % (tg.attr, show(strip_sites(bt), 60))))
                        continue
                    if meta.ownership(model, bt, summ) == "fresh":
                        continue
                    bad.append((st, "stores attribute `%s` on %s at call time (an object that outlives the call)" % (tg.attr, show(strip_sites(bt), 60))))
                elif isinstance(tg, ast.Subscript):
                    bt = flow.term(tg.value, n)
                    if strip_sites(bt)[0] == "closure" or (isinstance(tg.value, ast.Name) and _free_in_closure(fi, tg.value.id)):
                        # a container of the enclosing factory: created once per decorated function, shared by all its calls
                        bad.append((st, "stores an item into the closure variable %s at call time (one object per decorated function, shared by all calls, threads and tasks)" % show(strip_sites(bt), 60)))
                        continue
                    own = meta.ownership(model, bt, summ)
                    if own == "fresh" or (bt[0] == "call" and fi_of_term(model, bt[1]) is not None and meta.ownership(model, bt, summ) == "fresh"):
                        continue
                    if bt[0] == "param" or (bt[0] == "attr" and bt[1] == ("param", "self")):
                        continue  # the caller's per-call mapping / the visitor's own table
                    if bt[0] == "call":
                        continue  # result of a call: per-call object (checked fresh by C05.identity for the resolver)
                    bad.append((st, "stores an item into %s at call time" % show(strip_sites(bt), 60)))
        # ``setattr(obj, name, value)`` / ``object.__setattr__(obj, ...)`` at call time: an attribute store in disguise
        for n in flow.cfg.nodes:
            for call, cond, aw in calls_in(n):
                fsrc = src_of(call.func)
                if fsrc in ("setattr", "object.__setattr__", "delattr") and len(call.args) >= 2:
                    bt = flow.term(call.args[0], n)
                    if bt == ("param", "self") and fi.cls is not None:
                        continue
                    if meta.ownership(model, bt, summ) == "fresh":
                        continue
                    bad.append((n.stmt, "`%s` stores an attribute on %s at call time (an object that outlives the call): what one call leaves there decides for the next" % (src_of(call, 60), show(strip_sites(bt), 50))))
        for n, how, recv in meta.mutation_sites(model, fi):
            alts = recv[1] if recv[0] == "phi" else (recv,)
            for a in alts:
                if a in mutables or (a[0] == "global") or a[0] == "closure" or (a[0] == "attr" and a[1][0] in ("closure", "func", "global")):
                    bad.append((n.stmt, "mutates %s in place at call time (shared by all threads and tasks)" % show(strip_sites(a), 60)))
        # a long-lived object handed to a package function that mutates that parameter in place
        for n in flow.cfg.nodes:
            for call, cond, aw in calls_in(n):
                g = fi_of_term(model, flow.term(call.func, n))
                if g is None:
                    continue
                mp = meta.mutated_params(model, g, summ)
                if not mp:
                    continue
                b = bind_call(g, call) or {}
                for p_ in sorted(mp):
                    if p_ not in b:
                        continue
                    at = flow.term(b[p_], n)
                    if at[0] == "param" or (at[0] == "attr" and at[1] == ("param", "self")):
                        continue  # summarised into this function's own mutated parameters / the visitor's own table
                    alts = at[1] if at[0] == "phi" else (at,)
                    if all(meta.ownership(model, a_, summ) == "fresh" or a_ == ("const", "None") for a_ in alts):
                        continue
                    bad.append((n.stmt, "hands %s to `%s`, which mutates its parameter `%s` in place: the object outlives the call and is shared by all threads and tasks" % (show(strip_sites(at), 60), g.name, p_)))
        if bad:
            for st, why in bad[:3]:
                run.violation(rule, fi.qual, why, fi.loc(st), None, first_line(st))
        else:
            run.ok(rule, fi.qual, "no store to globals, closure variables, module-level containers or long-lived objects", fi.loc(), nontrivial=len(flow.cfg.nodes) > 6)
    return len(reach)


def ctxvar_only(run, model, rule="C12.ctxvar-only"):
    wrappers = find_wrappers(model)
    reach = reachable_functions(model, list(wrappers.values()))
    mutables = module_level_mutables(model)
    bad = []
    for cv, (kind, text) in mutables.items():
        users = []
        for qual, fi in reach.items():
            flow = get_flow(model, fi)
            for n in flow.cfg.nodes:
                if n.ast is None or n.kind == "def":
                    continue
                for sub in ast.walk(n.ast) if not isinstance(n.ast, (ast.FunctionDef, ast.AsyncFunctionDef, ast.ClassDef)) else []:
                    if isinstance(sub, ast.Name) and sub.id == cv[2] and fi.module.name == cv[1]:
                        users.append((fi, n))
        if users:
            bad.append((cv, kind, text, users[0]))
    for cv, kind, text, (fi, n) in bad:
        run.violation(rule, "%s.%s" % (cv[1], cv[2]), "module-level %s `%s = %s` is used by %s at call time: suspension/checking state outside the context variable is shared by all threads and tasks" % (kind, cv[2], text, fi.qual), fi.loc(n), None, first_line(n.stmt))
    # the marker operations of every region go through a context variable
    from . import marker
    regs = marker.regions(model)
    for role, res in regs.items():
        if role == "inv[new]":
            continue
        kinds = set(k for k, _, _ in res.event_states)
        has = "ACQUIRE" in kinds and ("RESTORE" in kinds or "REMOVE" in kinds)
        run.check(has, rule, res.fi.qual, "suspension state is acquired and given back through the context variable", "the wrapper does not keep its suspension state in the context variable (no acquire/give-back recognised)", res.fi.loc())
    if not bad:
        run.ok(rule, "module-level state", "%d module-level mutable object(s); none is used by code reachable from the wrappers at call time" % len(mutables))


def ctxvar_readable(run, model, rule="C12.readable-everywhere"):
    """A thread or a fresh context starts with *no* binding of a context variable: ``cv.get()`` raises LookupError
    there unless the variable was created with ``default=`` (a ``cv.set(...)`` at import time binds it in the importing
    context only), the call passes a fallback, or the LookupError is handled on the spot (lazy creation)."""
    ctxvars = context_vars(model)
    seen = 0
    for cv, default in sorted(ctxvars.items()):
        for qual, fi in sorted(model.functions.items()):
            if fi.module.name != cv[1]:
                continue
            parents = {}
            for p in ast.walk(fi.node):
                for c in ast.iter_child_nodes(p):
                    parents[id(c)] = p
            # ``read = cv.get`` bound to a local and called as ``read()``: the binding is the read (without a fallback)
            bound_alias = [a for a in ast.walk(fi.node) if isinstance(a, ast.Attribute) and a.attr == "get" and isinstance(a.value, ast.Name) and a.value.id == cv[2] and isinstance(a.ctx, ast.Load) and not isinstance(parents.get(id(a)), ast.Call)]
            for a in bound_alias:
                p, own = parents.get(id(a)), True
                while p is not None and p is not fi.node:
                    if isinstance(p, (ast.FunctionDef, ast.AsyncFunctionDef, ast.Lambda)):
                        own = False
                        break
                    p = parents.get(id(p))
                if not own:
                    continue
                seen += 1
                run.check(default is not None, rule, fi.qual, "`%s` bound to a local: the variable has a default, the read cannot fail" % src_of(a), "`%s.get` is bound to a local and called without a fallback, and `%s` is created without `default=`" % (cv[2], cv[2]), fi.loc(a), None, first_line(a))
            for call in ast.walk(fi.node):
                if not (isinstance(call, ast.Call) and isinstance(call.func, ast.Attribute) and call.func.attr == "get" and isinstance(call.func.value, ast.Name) and call.func.value.id == cv[2]):
                    continue
                # the call belongs to the innermost function only
                p, own = parents.get(id(call)), True
                handled = False
                prev = call
                while p is not None and p is not fi.node:
                    if isinstance(p, (ast.FunctionDef, ast.AsyncFunctionDef, ast.Lambda)):
                        own = False
                        break
                    if isinstance(p, ast.Try) and any(prev is b for b in p.body):
                        for h in p.handlers:
                            names = [] if h.type is None else [src_of(x) for x in (h.type.elts if isinstance(h.type, ast.Tuple) else [h.type])]
                            if h.type is None or any(x in ("LookupError", "Exception", "BaseException") for x in names):
                                handled = True
                    prev, p = p, parents.get(id(p))
                if not own:
                    continue
                seen += 1
                ok = default is not None or bool(call.args) or bool(call.keywords) or handled
                run.check(ok, rule, fi.qual, "`%s` can be read in a context that never set it (default given / fallback passed / LookupError handled)" % src_of(call), "`%s.get()` without a fallback, and `%s` is created without `default=`: in a thread or context that did not inherit a binding the read raises LookupError instead of the call being checked" % (cv[2], cv[2]), fi.loc(call), None, first_line(call))
    run.extra["ctxvar_reads_seen"] = seen


MEMOISERS = ("lru_cache", "cache", "cached_property", "singledispatch")


_VALUE_TYPES = ("str", "int", "bool", "bytes", "float")


def pure_value_memo(fn, mod):
    """A memoised function for which an equal key is as good as the identical one: every parameter and the result are
    annotated with an immutable built-in value type (``str -> str``), and the body looks at nothing but its
    parameters, literals and functions of imported standard-library modules (no global of the package, no attribute
    of a user object).  ``text -> textwrap.dedent(text)`` qualifies; a helper keyed by a signature, a function, a
    code object or a contract does not."""
    a = fn.args
    if a.vararg or a.kwarg or not (a.args or a.kwonlyargs):
        return False
    params = a.posonlyargs + a.args + a.kwonlyargs
    if not all(isinstance(p.annotation, ast.Name) and p.annotation.id in _VALUE_TYPES for p in params):
        return False
    if not (isinstance(fn.returns, ast.Name) and fn.returns.id in _VALUE_TYPES):
        return False
    names = set(p.arg for p in params)
    local = set(n.id for n in ast.walk(fn) if isinstance(n, ast.Name) and isinstance(n.ctx, ast.Store))
    for st in fn.body:
        for sub in ast.walk(st):
            if isinstance(sub, (ast.FunctionDef, ast.AsyncFunctionDef, ast.Lambda, ast.ClassDef, ast.Global, ast.Nonlocal, ast.Yield, ast.YieldFrom, ast.Await)):
                return False
            if isinstance(sub, ast.Name) and isinstance(sub.ctx, ast.Load):
                if sub.id in names or sub.id in local:
                    continue
                imported = mod.imports.get(sub.id, "")
                if imported and not imported.startswith("icontract") and "." not in imported:
                    continue  # ``import textwrap``: a standard-library module
                if hasattr(__import__("builtins"), sub.id):
                    continue
                return False
    return True


def _slot_wrapper_type_names(mod):
    """module-level names bound to ``type(<C>.__init__)`` for ``object`` or a module-level class without bases and
    without an ``__init__`` of its own: the type of the interpreter's slot wrappers"""
    bare = set(["object"])
    for st in mod.tree.body:
        if isinstance(st, ast.ClassDef) and not st.bases and not st.keywords and not st.decorator_list and not any(isinstance(x, (ast.FunctionDef, ast.AsyncFunctionDef)) and x.name in ("__init__", "__getattr__", "__getattribute__") for x in st.body) and not any(isinstance(x, ast.Assign) for x in st.body):
            bare.add(st.name)
    out, seen = set(), {}
    for st in ast.walk(mod.tree):
        if isinstance(st, ast.Assign):
            for t in st.targets:
                if isinstance(t, ast.Name):
                    seen.setdefault(t.id, []).append(st)
    for name, sts in seen.items():
        if len(sts) == 1 and sts[0] in mod.tree.body:
            v = sts[0].value
            if isinstance(v, ast.Call) and src_of(v.func) == "type" and len(v.args) == 1 and not v.keywords and isinstance(v.args[0], ast.Attribute) and v.args[0].attr == "__init__" and isinstance(v.args[0].value, ast.Name) and v.args[0].value.id in bare:
                out.add(name)
    return out


def slot_wrapper_memo(fn, mod):
    """A memo keyed by one of the interpreter's slot wrappers (``object.__setattr__`` ...): they are immutable, hash
    and compare by identity, the cache keeps its key alive (no recycled ``id``), and their signature is wired into
    the interpreter.  Accepted when every use of the function is a call ``f(x)`` under ``if type(x) is K`` /
    ``isinstance(x, K)`` with ``K`` the slot-wrapper type, the body looks at nothing but the parameter, builtins and
    standard-library modules, and every ``return`` hands out a fresh ``tuple(...)`` / ``frozenset(...)``."""
    a = fn.args
    params = a.posonlyargs + a.args + a.kwonlyargs
    if a.vararg or a.kwarg or len(params) != 1 or fn not in mod.tree.body:
        return False
    kinds = _slot_wrapper_type_names(mod)
    if not kinds:
        return False
    pname = params[0].arg
    rets = [x for x in ast.walk(fn) if isinstance(x, ast.Return)]
    if not rets or not all(isinstance(r.value, ast.Call) and src_of(r.value.func) in ("tuple", "frozenset") for r in rets):
        return False
    local = set(n.id for n in ast.walk(fn) if isinstance(n, ast.Name) and isinstance(n.ctx, ast.Store))
    for st in fn.body:
        for sub in ast.walk(st):
            if isinstance(sub, (ast.FunctionDef, ast.AsyncFunctionDef, ast.Lambda, ast.ClassDef, ast.Global, ast.Nonlocal, ast.Yield, ast.YieldFrom, ast.Await)):
                return False
            if isinstance(sub, ast.Name) and isinstance(sub.ctx, ast.Load):
                if sub.id == pname or sub.id in local or hasattr(__import__("builtins"), sub.id):
                    continue
                imported = mod.imports.get(sub.id, "")
                if imported and not imported.startswith("icontract") and "." not in imported:
                    continue
                return False
    # every reference is a guarded call
    guarded = set()
    for node in ast.walk(mod.tree):
        if isinstance(node, ast.If):
            t = node.test
            x = None
            if isinstance(t, ast.Compare) and len(t.ops) == 1 and isinstance(t.ops[0], ast.Is) and isinstance(t.left, ast.Call) and src_of(t.left.func) == "type" and len(t.left.args) == 1 and isinstance(t.comparators[0], ast.Name) and t.comparators[0].id in kinds:
                x = t.left.args[0]
            elif isinstance(t, ast.Call) and src_of(t.func) == "isinstance" and len(t.args) == 2 and isinstance(t.args[1], ast.Name) and t.args[1].id in kinds:
                x = t.args[0]
            if isinstance(x, ast.Name):
                stores = any(isinstance(y, ast.Name) and y.id == x.id and isinstance(y.ctx, (ast.Store, ast.Del)) for b in node.body for y in ast.walk(b))
                if not stores:
                    for b in node.body:
                        for c in ast.walk(b):
                            if isinstance(c, ast.Call) and isinstance(c.func, ast.Name) and c.func.id == fn.name and len(c.args) == 1 and not c.keywords and isinstance(c.args[0], ast.Name) and c.args[0].id == x.id:
                                guarded.add(id(c.func))
    refs = [n for n in ast.walk(mod.tree) if isinstance(n, ast.Name) and n.id == fn.name]
    return bool(refs) and all(id(r) in guarded for r in refs)


def _memo_exempt(mod, node, model=None):
    """the decorator ``node`` (or a part of it) sits on a function of ``mod`` that is a pure value memo"""
    for fn in ast.walk(mod.tree):
        if isinstance(fn, ast.FunctionDef) and any(node is x for d in fn.decorator_list for x in ast.walk(d)):
            if pure_value_memo(fn, mod):
                return True
            elsewhere = model is None or any((isinstance(x, ast.Attribute) and x.attr == fn.name) or (isinstance(x, ast.alias) and x.name == fn.name) or (isinstance(x, ast.Constant) and x.value == fn.name) for m in model.modules.values() for x in ast.walk(m.tree))
            return not elsewhere and slot_wrapper_memo(fn, mod)
    return False


def no_memo(run, model, rule="C12.no-memo"):
    """Nothing in the package remembers results across calls (functools.lru_cache and friends).

    A memoised helper hands the object computed for one call to a later call with an *equal* key: equal is not
    identical (``1 == True``, equal tuples), and the first caller's object is shared by everybody afterwards.
    """
    for name, mod in sorted(model.modules.items()):
        bad = []
        for sub in ast.walk(mod.tree):
            f = None
            if isinstance(sub, ast.Attribute) and sub.attr in MEMOISERS and src_of(sub.value) in ("functools",):
                f = sub
            elif isinstance(sub, ast.Name) and sub.id in MEMOISERS and mod.imports.get(sub.id, "").startswith("functools."):
                f = sub
            if f is not None and not _memo_exempt(mod, f, model):
                bad.append(f)
        if bad:
            for f in bad[:3]:
                run.violation(rule, "%s:%s" % (name, src_of(f)), "`%s` remembers results across calls: a later call with an equal (not identical) key receives the object computed for an earlier call, and every caller shares it" % src_of(f), "%s/%s.py:%s" % ("icontract", name, f.lineno), None, src_of(f))
        else:
            run.ok(rule, name, "no memoisation (functools.lru_cache / cache / cached_property) anywhere in the module", "icontract/%s.py:1" % name)


def lazy_user_code(run, model, rule="C11.no-lazy-user-code"):
    """User code is never run from inside ``map`` / ``filter`` (or an iterator protocol the library consumes with
    ``next``): a ``StopIteration`` raised by the user's condition, capture, error factory or ``__bool__`` would be
    taken for the end of the iteration -- the exception vanishes and the remaining contracts are skipped."""
    uc = UserCode(model)
    scanned = 0
    for fi in sorted(model.functions.values(), key=lambda f: f.qual):
        if not fi.live:
            continue
        flow = get_flow(model, fi)
        scanned += 1
        bad = []
        for n in flow.cfg.nodes:
            for call, cond, aw in calls_in(n):
                ct = strip_sites(flow.term(call.func, n))
                if ct in (("builtin", "map"), ("builtin", "filter"), ("attr", ("module", "itertools"), "starmap"), ("attr", ("module", "itertools"), "takewhile"), ("attr", ("module", "itertools"), "dropwhile"), ("attr", ("module", "itertools"), "filterfalse")) and call.args:
                    f_arg = call.args[0]
                    # functools.partial(f, ...) -> f
                    while isinstance(f_arg, ast.Call) and src_of(f_arg.func) in ("functools.partial", "partial") and f_arg.args:
                        f_arg = f_arg.args[0]
                    reaches = False
                    if isinstance(f_arg, ast.Lambda):
                        for sub in ast.walk(f_arg.body):
                            if isinstance(sub, ast.Call):
                                cf = fi_of_term(model, flow.term(sub.func, n))
                                if (cf is not None and uc.may(cf)) or (isinstance(sub.func, ast.Attribute) and sub.func.attr in USER_ATTRS):
                                    reaches = True
                    else:
                        cf = fi_of_term(model, flow.term(f_arg, n))
                        if cf is not None and uc.may(cf):
                            reaches = True
                        if isinstance(f_arg, ast.Attribute) and f_arg.attr in USER_ATTRS:
                            reaches = True
                    if reaches:
                        bad.append((n, call))
        for n, call in bad[:2]:
            run.violation(rule, "%s:%s" % (fi.qual, src_of(call.func)), "`%s(...)` runs user code (a condition, capture, error factory or truth test) from inside the iterator protocol: a StopIteration raised there ends the iteration silently instead of reaching the caller, and the contracts after it are skipped" % src_of(call.func), fi.loc(n), None, first_line(n.stmt))
        if not bad and uc.may(fi):
            run.ok(rule, fi.qual, "user code is called directly, not through map/filter", fi.loc())
    return scanned


def frozen_after_init(run, model, rule="C12.frozen-after-init"):
    """The library's long-lived objects (contracts, snapshots, decorators) do not change after construction.

    A method other than ``__init__`` that assigns an attribute of ``self`` keeps state between calls: what one
    violation computed (a resolved closure, a parsed lambda, an await decision) is reused by the next one, and is
    shared by every thread and task that uses the contract.  The per-violation AST visitors are exempt: a fresh one
    is made for every message."""
    count = 0
    for name, mod in sorted(model.modules.items()):
        for cname, cd in sorted(mod.classes.items()):
            per_message = any((isinstance(b, ast.Attribute) and b.attr == "NodeVisitor") or (isinstance(b, ast.Name) and b.id == "NodeVisitor") for b in cd.bases)
            methods = [f for f in model.methods(name, cname)]
            if not methods:
                continue
            count += 1
            bad = None
            for fi in methods:
                if fi.name in ("__init__", "__new__", "__post_init__") or per_message:
                    continue
                a = fi.node.args
                params = [x.arg for x in a.posonlyargs + a.args]
                if not params:
                    continue
                selfname = params[0]
                for sub in ast.walk(fi.node):
                    targets = []
                    if isinstance(sub, ast.Assign):
                        targets = sub.targets
                    elif isinstance(sub, (ast.AugAssign, ast.AnnAssign)):
                        targets = [sub.target]
                    for tg in targets:
                        if isinstance(tg, ast.Attribute) and isinstance(tg.value, ast.Name) and tg.value.id == selfname:
                            bad = (fi, sub, tg.attr)
                    if isinstance(sub, ast.Call) and isinstance(sub.func, ast.Name) and sub.func.id == "setattr" and sub.args and isinstance(sub.args[0], ast.Name) and sub.args[0].id == selfname:
                        bad = (fi, sub, "setattr")
            if bad:
                fi, st, attr = bad
                run.violation(rule, "%s.%s.%s" % (name, cname, fi.name), "`%s` assigns `self.%s` after construction: the object keeps what an earlier call computed, so a later call (or another thread or task using the same contract) sees the earlier result" % (fi.name, attr), fi.loc(st), None, first_line(st))
            else:
                run.ok(rule, "%s.%s" % (name, cname), "no method other than __init__ assigns attributes of self" + (" (per-message visitor: exempt)" if per_message else ""), "icontract/%s.py:%d" % (name, cd.lineno))
    return count
