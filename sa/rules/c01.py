"""C01 -- preconditions gate every call (DESIGN.md section 5/C01)."""
from ..events import Summaries, fi_of_term, calls_in
from ..flow import get_flow, show
from ..model import first_line
from . import gates, loops, common

META = {
    "explanation": "must-pass-through gate (dominance + guard necessity) over both checker wrappers; T-iter-all and a N/T/E verdict typestate over both precondition helpers; provenance of the lists; who-may-construct for checkers",
    "trusted_base": ["CPython evaluation of the analysed control flow as written", "bool() of user values"],
    "not_decided": ["verdicts for concrete truth assignments and argument tuples (they follow from the decided loop/gate structure)", "that user conditions are called with the right values (C05)"],
    "assumptions": ["conditions are evaluated only through the helpers identified by role (summary: calls `.condition` of list elements)"],
}


def run(run, model):
    run.do(gates.c01_gate, model)
    run.do(gates.c01_read_live, model, "C01.read-live", ("PRE",))
    for role, ck in gates.checkers(model).items():
        h = loops.helper_of(model, ck, "PRE")
        if h is None:
            continue
        fi, lp, mp = h
        run.do(loops.verdict_rule, model, "C01.verdict", fi, lp, mp, 2)
    run.do(common.truth_rule, model, "C01.truth")
    # the verdict is taken on the values the body would receive (a positional-only parameter is not overridden by a
    # keyword of the same name that only lands in **kwargs) and surfaces as the contract's error
    from . import c05, c09
    run.do(c05.pos_table, model, "C01.args-table", "C01.posonly")
    run.do(c09.dispatch_table, model, "C01.error-dispatch")
    run.do(c05.order_identity, model, "C01.args-order", "C01.args-identity")
    run.do(c05.defaults_rule, model, "C01.defaults")
    from . import effects
    run.do(effects.no_memo, model, "C01.no-memo")
    from . import twins
    run.do(twins.helper_dispatch, model, "C01.await-dispatch", "C01.sync-reject")
    run.do(common.kind_uniform, model, "C01.kind-uniform")
    run.do(common.append_rules, model, "C01.append", which=("pre",))
    from . import c18, marker, meta
    run.do(c18.find_rule, model, "C01.single-checker")
    run.do(marker.body_rules, model, "C01.body-unheld", None)
    run.do(meta.provenance_rule, model, "C01.inherited-groups", "__preconditions__", "precondition groups")
    # which inherited groups count as alternatives: a base without preconditions accepts every call (table A.3)
    from . import c04, rec
    run.do(c04.base_loop_table, model, "C01.inherited-accept-all")
    run.do(meta.per_member_state, model, "C01.per-member-state")
    run.do(c04.override_target, model, "C01.inherited-groups-target", ("__preconditions__",))
    # a member re-used from an ancestor is left as it is: merging once more stores the groups of the other bases on the
    # ancestor's own checker, which then accepts calls its precondition forbids
    run.do(meta.shared_member_rule, model, "C01.shared-member")
    # the body is entered whenever the precondition holds: the reserved names `result` / `OLD` are refused only for
    # callables that have postconditions
    from . import c19
    run.do(c19.validators, model, "C01.no-spurious-rejection", "C01.no-spurious-rejection")
    # the error raised is the contract's: building its message must not fail where Python's own evaluation succeeded
    run.do(rec.lookup, model, "C01.message-lookup")
    run.minimum("C01.gate", 2, "sync and async checker wrapper")
    run.minimum("C01.iter-all", 2)
    run.minimum("C01.verdict", 2)
    run.minimum("C01.truth", 1)
