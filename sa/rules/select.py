"""C05.select / C05.introspect / C09.factory-args: the per-contract selection of call values.

Each ``select_*_kwargs(obj, mapping)`` must (a) raise TypeError when a name the callable needs is missing from
the mapping, before anything is returned, and (b) return exactly the entries of the mapping whose key the
callable names -- same key, same value object.  The name lists/sets on the contract objects must be derived from
``inspect.signature`` of the callable they store.
"""
import ast

from ..events import calls_in, fi_of_term
from ..flow import get_flow, show, strip_sites, subterms
from ..guards import GuardGraph, normal_succ
from ..model import AnalysisError, first_line, src_of

SELECTORS = {
    "condition": ("_checkers.select_condition_kwargs", "mandatory_args", ("condition_arg_set", "condition_args")),
    "capture": ("_checkers.select_capture_kwargs", "args", ("arg_set", "args")),
    "error": ("_checkers.select_error_kwargs", "error_args", ("error_arg_set", "error_args")),
}


def _comp_parts(comp):
    if len(comp.generators) != 1:
        return None
    g = comp.generators[0]
    return g.iter, g.target, g.ifs


def selector_rules(run, model, rule, which=("condition", "capture", "error")):
    for w in which:
        qual, mandatory_attr, set_attrs = SELECTORS[w]
        fi = model.func(qual)
        flow = get_flow(model, fi)
        run.saw(flow)
        obj_p, map_p = fi.params[0], fi.params[1]
        gg = GuardGraph(flow)
        # ---- (a) missing names -> TypeError before any return
        missing_defs = []
        for n in flow.cfg.nodes:
            if n.kind == "stmt" and isinstance(n.ast, ast.Assign) and isinstance(n.ast.value, ast.ListComp):
                comp = n.ast.value
                parts = _comp_parts(comp)
                if parts is None:
                    continue
                it, tg, ifs = parts
                it_t = flow.term(it, n)
                if it_t[0] == "attr" and it_t[1] == ("param", obj_p) and isinstance(tg, ast.Name) and isinstance(comp.elt, ast.Name) and comp.elt.id == tg.id:
                    if len(ifs) == 1 and isinstance(ifs[0], ast.Compare) and len(ifs[0].ops) == 1 and isinstance(ifs[0].ops[0], ast.NotIn) and isinstance(ifs[0].left, ast.Name) and ifs[0].left.id == tg.id and flow.term(ifs[0].comparators[0], n) == ("param", map_p):
                        missing_defs.append((n, it_t[2]))
        if len(missing_defs) != 1:
            run.violation(rule, fi.qual + ":missing", "no list of the names that the callable needs and the call's mapping lacks is computed (a missing argument would be passed over silently)", fi.loc())
        else:
            n, attr = missing_defs[0]
            if attr != mandatory_attr:
                run.violation(rule, fi.qual + ":missing", "the missing-names test ranges over `%s.%s`, expected `%s.%s`" % (obj_p, attr, obj_p, mandatory_attr), fi.loc(n), None, first_line(n.stmt))
            else:
                name = n.ast.targets[0].id if isinstance(n.ast.targets[0], ast.Name) else None
                mt = flow.name_term_after(name, n)
                # every return needs 'missing is empty'; the non-empty edge raises TypeError
                rets = [x.id for x in flow.cfg.nodes if x.kind == "return"]
                nec = gg.necessary(normal_succ(n), rets, (mt, False))
                raises = []
                for nid, k in gg.edges_where((mt, True)):
                    tn = [x for x in flow.cfg.nodes if x.id == nid][0]
                    for kk, tgt in tn.succ:
                        if kk == k:
                            seen = gg.reach([tgt], None, None, follow_exc=False)
                            raises += [x for x in flow.cfg.nodes if x.id in seen and x.kind == "raise"]
                            if flow.cfg.exit_return.id in seen:
                                nec = False
                from .. import tables
                is_te = any(x.ast.exc is not None and tables.exc_name(flow.term(x.ast.exc, x)) == "TypeError" for x in raises)
                run.check(nec and is_te, rule, fi.qual + ":missing", "names in `%s.%s` absent from the mapping raise TypeError before anything is returned" % (obj_p, mandatory_attr), "a call lacking a needed name does not end in TypeError on every path", fi.loc(n), None, first_line(n.stmt))
        # ---- (b) selection: {k: v for k, v in mapping.items() if k in obj.<set>}
        comps = []
        for n in flow.cfg.nodes:
            if n.ast is None or n.kind not in ("stmt", "return"):
                continue
            for sub in ast.walk(n.ast):
                if isinstance(sub, ast.DictComp):
                    comps.append((n, sub))
        ret_ok = False
        if len(comps) != 1:
            raise AnalysisError("%s: expected one dict comprehension selecting the keywords, found %d (idiom not recognised)" % (fi.qual, len(comps)))
        n, comp = comps[0]
        parts = _comp_parts(comp)
        bad = None
        if parts is None:
            bad = "the selection has several generators"
        else:
            it, tg, ifs = parts
            it_t = flow.term(it, n)
            if not (it_t[0] == "call" and it_t[1] == ("attr", ("param", map_p), "items")):
                bad = "the selection does not iterate the items of the call's mapping (iterates %s)" % show(strip_sites(it_t))
            elif not (isinstance(tg, ast.Tuple) and len(tg.elts) == 2 and all(isinstance(e, ast.Name) for e in tg.elts)):
                bad = "unexpected target of the selection"
            else:
                k, v = tg.elts[0].id, tg.elts[1].id
                if not (isinstance(comp.key, ast.Name) and comp.key.id == k):
                    bad = "the selected key is `%s`, not the key of the mapping" % src_of(comp.key)
                elif not (isinstance(comp.value, ast.Name) and comp.value.id == v):
                    bad = "the selected value is `%s`, not the very object stored in the mapping" % src_of(comp.value)
                elif len(ifs) != 1:
                    bad = "the selection filters by %d conditions (expected one membership test in the callable's parameter names)" % len(ifs)
                else:
                    c = ifs[0]
                    if not (isinstance(c, ast.Compare) and len(c.ops) == 1 and isinstance(c.ops[0], ast.In) and isinstance(c.left, ast.Name) and c.left.id == k):
                        bad = "the selection filter `%s` is not a membership test of the key" % src_of(c)
                    else:
                        st = flow.term(c.comparators[0], n)
                        if not (st[0] == "attr" and st[1] == ("param", obj_p) and st[2] in set_attrs):
                            bad = "the key is tested against %s, expected the parameter names of the callable (`%s.%s`)" % (show(strip_sites(st)), obj_p, set_attrs[0])
        # the comprehension's value is what is returned
        if bad is None:
            for r in flow.cfg.nodes:
                if r.kind == "return" and r.ast is not None:
                    rt = flow.term(r.ast, r)
                    if not (rt[0] == "comp" and rt[2][1] == comp.lineno and rt[2][2] == comp.col_offset):
                        bad = "the function returns %s, not the selected sub-mapping" % show(strip_sites(rt))
        # ... and it is handed on as it was selected: no entry is replaced, added or removed afterwards
        if bad is None:
            is_sel = lambda t_: t_[0] == "comp" and t_[2][1] == comp.lineno and t_[2][2] == comp.col_offset
            for x in flow.cfg.nodes:
                if x.kind == "stmt" and isinstance(x.ast, (ast.Assign, ast.AugAssign)):
                    tgs = x.ast.targets if isinstance(x.ast, ast.Assign) else [x.ast.target]
                    for tg_ in tgs:
                        if isinstance(tg_, ast.Subscript) and is_sel(flow.term(tg_.value, x)):
                            bad = "an entry of the selected sub-mapping is replaced afterwards (`%s`): the callable does not receive the very object the body receives" % first_line(x.stmt)
                if x.kind == "stmt" and isinstance(x.ast, ast.Delete):
                    for tg_ in x.ast.targets:
                        if isinstance(tg_, ast.Subscript) and is_sel(flow.term(tg_.value, x)):
                            bad = "an entry of the selected sub-mapping is removed afterwards (`%s`)" % first_line(x.stmt)
                for call_, c_, a_ in calls_in(x):
                    if isinstance(call_.func, ast.Attribute) and call_.func.attr in ("update", "pop", "popitem", "setdefault", "clear", "__setitem__", "__delitem__") and is_sel(flow.term(call_.func.value, x)):
                        bad = "the selected sub-mapping is changed afterwards (`%s`)" % first_line(x.stmt)
        run.check(bad is None, rule, fi.qual + ":selection", "returns {k: v for k, v in mapping.items() if k in %s.%s} (same keys, same value objects)" % (obj_p, set_attrs[0]), bad or "", fi.loc(n), None, first_line(n.stmt))


def _names_of(t):
    """If ``t`` denotes 'all parameter names of callable X' return the term of X, else None."""
    if t[0] == "call" and t[1] in (("builtin", "list"), ("builtin", "set"), ("builtin", "tuple"), ("builtin", "frozenset")) and len(t[2]) == 1 and not t[3]:
        return _names_of(t[2][0])
    if t[0] == "call" and t[1][0] == "attr" and t[1][2] == "keys" and not t[2] and not t[3]:
        return _names_of(t[1][1])
    if t[0] == "attr" and t[2] == "parameters":
        s = t[1]
        if s[0] == "call" and s[1] == ("attr", ("module", "inspect"), "signature") and len(s[2]) + len(s[3]) == 1:
            return (list(s[2]) + [v for _, v in s[3]])[0]
    return None


def introspect_rules(run, model, rule):
    """Contract / Snapshot derive their name lists from inspect.signature of the callable they store."""
    specs = [
        ("_types", "Contract", "condition", [("condition_args", "all"), ("condition_arg_set", "all"), ("mandatory_args", "mandatory")]),
        ("_types", "Contract", "error", [("error_args", "all"), ("error_arg_set", "all")]),
        ("_types", "Snapshot", "capture", [("args", "all"), ("arg_set", "all")]),
    ]
    for mod, clsname, subject, attrs in specs:
        fi = model.method(mod, clsname, "__init__")
        flow = get_flow(model, fi)
        run.saw(flow)
        stores = {}
        for n in flow.cfg.nodes:
            if n.kind == "stmt" and isinstance(n.ast, (ast.Assign, ast.AnnAssign)) and getattr(n.ast, "value", None) is not None:
                targets = n.ast.targets if isinstance(n.ast, ast.Assign) else [n.ast.target]
                for tg in targets:
                    if isinstance(tg, ast.Attribute) and isinstance(tg.value, ast.Name) and tg.value.id == "self":
                        stores.setdefault(tg.attr, []).append(n)
        # the callable itself is stored unchanged
        for n in stores.get(subject, []):
            vt = flow.term(n.ast.value, n)
            run.check(vt == ("param", subject), rule, "%s.%s.%s" % (mod, clsname, subject), "stores the callable it was given", "stores %s instead of the callable it was given" % show(vt), fi.loc(n), None, first_line(n.stmt))
        for attr, kind in attrs:
            ns = stores.get(attr, [])
            construct = "%s.%s.%s" % (mod, clsname, attr)
            real = [n for n in ns if flow.term(n.ast.value, n) != ("const", "None")]
            if not real:
                run.violation(rule, construct, "the attribute is never derived from the callable's signature", fi.loc())
                continue
            for n in real:
                val = n.ast.value
                if kind == "all":
                    vt = flow.term(val, n)
                    # via another attribute of self holding the names
                    if vt[0] == "call" and len(vt[2]) == 1 and vt[2][0][0] == "attr" and vt[2][0][1] == ("param", "self"):
                        other = vt[2][0][2]
                        src = [x for x in stores.get(other, []) if flow.term(x.ast.value, x) != ("const", "None")]
                        if len(src) == 1:
                            vt = ("call", vt[1], (flow.term(src[0].ast.value, src[0]),), ())
                    subj = _names_of(vt)
                    if subj is not None and subj[0] in ("param",) and subj[1] == subject:
                        run.ok(rule, construct, "all parameter names of inspect.signature(%s)" % subject, fi.loc(n))
                    else:
                        # local alias of the error callable: error_as_callable = cast(..., error)
                        run.check(subj == ("param", subject), rule, construct, "all parameter names of inspect.signature(%s)" % subject, "is %s, not the full list of parameter names of the %s callable (names with defaults included)" % (show(strip_sites(vt), 120), subject), fi.loc(n), None, first_line(n.stmt))
                else:
                    ok = False
                    if isinstance(val, ast.ListComp) and len(val.generators) == 1:
                        g = val.generators[0]
                        it = flow.term(g.iter, n)
                        if it[0] == "call" and it[1][0] == "attr" and it[1][2] == "items" and _names_of(it[1][1]) == ("param", subject):
                            if isinstance(g.target, ast.Tuple) and len(g.target.elts) == 2 and isinstance(val.elt, ast.Name) and isinstance(g.target.elts[0], ast.Name) and val.elt.id == g.target.elts[0].id and len(g.ifs) == 1:
                                pn = g.target.elts[1].id if isinstance(g.target.elts[1], ast.Name) else None
                                c = g.ifs[0]
                                txt = src_of(c)
                                ok = pn is not None and txt in ("%s.default == inspect.Parameter.empty" % pn, "%s.default is inspect.Parameter.empty" % pn, "%s.default == inspect._empty" % pn, "%s.default is inspect._empty" % pn)
                                if not ok and pn is not None and isinstance(c, ast.Compare) and len(c.ops) == 1 and isinstance(c.ops[0], (ast.Eq, ast.Is)) and src_of(c.left) == "%s.default" % pn:
                                    # the sentinel through a module-level name bound to it
                                    rt_ = strip_sites(flow.term(c.comparators[0], n))
                                    ok = rt_ in (("attr", ("attr", ("module", "inspect"), "Parameter"), "empty"), ("attr", ("module", "inspect"), "_empty"))
                    run.check(ok, rule, construct, "names of the parameters without a default value", "is not `[name for name, param in signature(%s).parameters.items() if param.default is empty]`: %s" % (subject, first_line(n.stmt)), fi.loc(n), None, first_line(n.stmt))
