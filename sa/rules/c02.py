"""C02 -- postconditions gate every normal return; results and exceptions pass unchanged (DESIGN.md 5/C02)."""
from . import gates, loops, common

META = {
    "explanation": "T-gate over BODY -> POST -> return with guard necessity/sufficiency on the live list; return/argument provenance (T-identity) in all six wrappers; exception discipline around BODY; N/T/E verdict typestate over both postcondition helpers",
    "trusted_base": ["CPython exception propagation through try/finally"],
    "not_decided": ["verdicts for concrete truth assignments; values of arguments after the body ran follow from passing references (C05.identity)"],
    "assumptions": [],
}


def run(run, model):
    run.do(gates.c02_gate, model)
    run.do(gates.c01_read_live, model, "C02.read-live", ("POST",))
    run.do(gates.c02_result_identity, model)
    run.do(gates.c02_exc_transparent, model)
    for role, ck in gates.checkers(model).items():
        h = loops.helper_of(model, ck, "POST")
        if h is None:
            continue
        fi, lp, mp = h
        run.do(loops.verdict_rule, model, "C02.first-failure", fi, lp, mp, 1)
    run.do(common.append_rules, model, "C02.append", which=("post",))
    from . import marker, meta, c18
    run.do(marker.body_rules, model, "C02.body-unheld", None)
    run.do(meta.provenance_rule, model, "C02.inherited-post", "__postconditions__", "postconditions")
    from . import c04
    run.do(c04.override_target, model, "C02.inherited-post-target", ("__postconditions__", "__postcondition_snapshots__"))
    run.do(c18.find_rule, model, "C02.single-checker")
    run.do(gates.c08_place, model, "C02.old-available")
    from . import c05, c09
    run.do(c05.pos_table, model, "C02.args-table", "C02.posonly")
    run.do(c09.dispatch_table, model, "C02.error-dispatch")
    run.do(meta.snapshot_provenance, model, "C02.old-inherited")
    run.do(c04.post_collapse, model, "C02.inherited-post")
    run.do(c04.base_loop_table, model, "C02.inherited-base-loop")
    # the exception of the body reaches the caller: the give-back of the marker in the ``finally`` does not fail on the way
    run.do(marker.report_rule, model, "C11.release-on-all-exits", marker.MARKER_REGIONS_ALL, "no exit is reached with the marker held", as_rule="C02.marker-given-back")
    from . import effects
    run.do(effects.no_memo, model, "C02.no-memo")
    run.do(c05.order_identity, model, "C02.args-order", "C02.args-identity")
    run.do(c05.defaults_rule, model, "C02.defaults")
    run.do(common.truth_rule, model, "C02.truth")
    from . import twins
    run.do(twins.helper_dispatch, model, "C02.await-dispatch", "C02.sync-reject")
    # the error of the violated postcondition is raised, not an error from locating the decorator in the file
    from . import msg
    run.do(msg.scan_bounds, model, "C02.error-raised-scan")
    # ... and the re-computation of the simple node kinds does not fail where Python's own evaluation succeeded
    from . import rec
    run.do(rec.simple_nodes, model, "C02.error-raised-nodes")
    run.minimum("C02.gate", 2)
    run.minimum("C02.result-identity", 11, "two returns per marker wrapper, one in the __new__ wrapper")
    run.minimum("C02.exc-transparent", 11)
    run.minimum("C02.first-failure", 2)
    run.minimum("C02.iter-all", 2)
