"""C06 -- every value shown in a violation message is the value Python computes (DESIGN.md 5/C06)."""
from . import rec, msg

META = {
    "explanation": "operator tables of the re-evaluator extracted by path enumeration and compared row by row with the ast operator classes of the running interpreter (T-exhaust); chain/laziness tables of the comparison and boolean loops; T-identity of stored vs returned value in all visit_* methods; key/value coupling in the selecting visitor; lookup precedence",
    "trusted_base": ["Python's own operators applied to the re-computed operands", "compile/exec of comprehension sub-trees by CPython", "asttokens.get_text"],
    "not_decided": ["equality of displayed and computed values for all inputs", "f-string formatting details", "comprehension results", "the all() trace when the generator is re-implemented differently"],
    "assumptions": ["PLACEHOLDER tests are false on value-producing paths"],
}


def run(run, model):
    run.do(rec.optable, model)
    run.do(rec.chain_and_lazy_compare, model, "C06.chain", "C06.chain-lazy")
    run.do(rec.lazy_boolop, model, "C06.bool-lazy", "C06.optable")
    run.do(rec.node_value, model)
    run.do(rec.repr_coupling, model)
    run.do(rec.lookup, model)
    run.do(rec.call_args, model)
    run.do(rec.dispatch_closed, model, "C06.star-args")
    run.do(rec.truth_protocol, model, "C06.truth-protocol")
    run.do(rec.none_is_a_value, model, "C06.none-is-a-value")
    run.do(rec.placeholder_not_a_value, model)
    run.do(rec.scope_restore, model)
    run.do(rec.placeholder_identity, model)
    run.do(rec.trace_only_unhappy, model, "C06.trace-only-unhappy")
    from . import msg as _msg
    run.do(_msg.no_nondeterminism, model, "C06.no-history")
    run.do(_msg.eager_render, model)
    run.do(rec.comprehension_env, model)
    run.do(msg.args_listed, model, "C06.args-listed")
    # "every representable value is listed": what the filter leaves out is exactly the documented kinds, and the
    # placeholders are hidden only in a copy, only when the condition does not name them
    run.do(msg.filter_rule, model, "C06.filter")
    run.do(msg.hide_placeholders, model, "C06.mapping-untouched")
    run.do(msg.a_repr_rule, model, "C06.a-repr")
    from . import fwd
    run.do(fwd.forwarding, model, "C06.configured-repr", ("a_repr",))
    run.do(rec.simple_nodes, model)
    run.do(rec.formatted_value, model)
    run.do(rec.all_trace, model, "C06.all-trace")
    run.minimum("C06.optable", 27)
    run.minimum("C06.chain", 1)
    run.minimum("C06.node-value", 20)
    run.minimum("C06.repr-coupling", 9)
    run.minimum("C06.lookup", 4)
    run.minimum("C06.call-args", 1)
    run.minimum("C06.all-trace", 2)
    run.minimum("C06.placeholder-not-shown", 1)
    run.minimum("C06.scope-restore", 4)
    run.minimum("C06.comprehension-env", 2)
    run.minimum("C06.placeholder-identity", 10)
