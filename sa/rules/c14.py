"""C14 -- satisfied contracts are transparent (DESIGN.md 5/C14)."""
import ast

from .. import tables
from ..events import calls_in, fi_of_term, find_wrappers
from ..flow import get_flow, show, strip_sites, subterms
from ..model import AnalysisError, first_line, src_of
from . import gates, twins, inv, c05, c17, c18, c08

META = {
    "explanation": "T-identity of forwarded arguments and returned/raised objects in all six wrappers; must-pass-through of functools.update_wrapper in every factory; decision table of require/ensure.__call__ (single checker, returns its parameter when a checker exists); colour rule; constructor-choice guard",
    "trusted_base": ["functools.update_wrapper copies name, qualname, doc, module, annotations, __dict__ and sets __wrapped__", "inspect.signature follows __wrapped__"],
    "not_decided": ["what functools.update_wrapper / inspect.signature preserve (stdlib)"],
    "assumptions": [],
}


# what functools.update_wrapper copies and what the inspect / abc / doctest machinery reads off a callable
METADATA_ATTRS = ("__signature__", "__text_signature__", "__wrapped__", "__name__", "__qualname__", "__doc__", "__module__", "__annotations__", "__dict__", "__defaults__", "__kwdefaults__", "__code__", "__isabstractmethod__", "__type_params__", "__annotate__")


def metadata(run, model, rule="C14.metadata"):
    for qual in ("_checkers.decorate_with_checker", "_checkers._decorate_with_invariants", "_checkers._decorate_new_with_invariants"):
        fi = model.func(qual)
        flow = get_flow(model, fi)
        run.saw(flow)
        dom = flow.cfg.dominators()
        wrappers = set(("func", ch.qual) for ch in fi.children)
        fp = ("param", fi.params[0])
        upd = None
        for n in flow.cfg.nodes:
            for call, c, a in calls_in(n):
                t = strip_sites(flow.term(call, n))
                if t[0] == "call" and t[1] in (("attr", ("module", "functools"), "update_wrapper"), ("attr", ("module", "functools"), "wraps")):
                    upd = (n, t)
        bad = None
        if upd is None:
            bad = "the factory does not call functools.update_wrapper on the closure it returns: name, doc, signature, abstractness and __wrapped__ are lost"
        else:
            n, t = upd
            args = dict(t[3])
            pos = list(t[2])
            w = args.get("wrapper", pos[0] if pos else None)
            wd = args.get("wrapped", pos[1] if len(pos) > 1 else None)
            walts = set(w[1]) if w is not None and w[0] == "phi" else {w}
            if not (walts <= wrappers and walts):
                bad = "update_wrapper is applied to %s, not to the wrapper closure" % (show(w) if w else None)
            elif wd != fp:
                bad = "update_wrapper copies the metadata of %s, not of the decorated function" % (show(wd) if wd else None)
            elif "assigned" in args or "updated" in args:
                bad = "update_wrapper is called with a restricted set of attributes"
            else:
                # every return of a wrapper closure is dominated by the update
                for r in flow.cfg.nodes:
                    if r.kind == "return" and r.ast is not None:
                        rt = flow.term(r.ast, r)
                        ralts = set(rt[1]) if rt[0] == "phi" else {rt}
                        if ralts <= wrappers and n.id not in dom[r.id]:
                            bad = "a path returns the wrapper without update_wrapper having been applied"
        # nothing deletes __wrapped__
        for sub in ast.walk(fi.node):
            if isinstance(sub, ast.Delete) and "__wrapped__" in src_of(sub) or (isinstance(sub, ast.Call) and src_of(sub.func) == "delattr" and "__wrapped__" in src_of(sub)):
                bad = "__wrapped__ is deleted"
        # nothing overrides what update_wrapper copied / what introspection reads off the wrapper
        for n in flow.cfg.nodes:
            stores = []
            for call, c, a in calls_in(n):
                if isinstance(call.func, ast.Name) and call.func.id == "setattr" and len(call.args) == 3:
                    stores.append((call.args[0], call.args[1]))
            if n.kind == "stmt" and isinstance(n.ast, (ast.Assign, ast.AnnAssign, ast.AugAssign)):
                for tg in (n.ast.targets if isinstance(n.ast, ast.Assign) else [n.ast.target]):
                    if isinstance(tg, ast.Attribute):
                        stores.append((tg.value, ast.Constant(value=tg.attr)))
            for obj, name in stores:
                ot = strip_sites(flow.term(obj, n))
                oalts = set(ot[1]) if ot[0] == "phi" else {ot}
                if not (oalts & wrappers):
                    continue
                if not (isinstance(name, ast.Constant) and isinstance(name.value, str)):
                    nt = strip_sites(flow.term(name, n))  # a module-level constant holding the name
                    if nt[0] == "const" and nt[1][:1] in ("'", '"'):
                        name = ast.Constant(value=ast.literal_eval(nt[1]))
                    else:
                        raise AnalysisError("%s: an attribute with a computed name is set on the wrapper (%s)" % (fi.qual, first_line(n.stmt)))
                if name.value in METADATA_ATTRS:
                    bad = "`%s` is set on the wrapper after update_wrapper: introspection (inspect.signature stops at `__signature__`, doctest / help / abc read the others) no longer sees the decorated function's own metadata" % name.value
                    upd = (n, None)
        run.check(bad is None, rule, fi.qual, "functools.update_wrapper(wrapper, <decorated function>) dominates every return of the wrapper; no metadata attribute is overridden afterwards", bad or "", fi.loc(upd[0]) if upd else fi.loc())


def single_checker(run, model, rule="C14.single-checker"):
    finder = model.func("_checkers.find_checker")
    factory = model.func("_checkers.decorate_with_checker")
    for dec, adder_q, attr in (("require", "_checkers.add_precondition_to_checker", "_contract"), ("ensure", "_checkers.add_postcondition_to_checker", "_contract")):
        fi = model.method("_decorators", dec, "__call__")
        flow = get_flow(model, fi)
        run.saw(flow)
        ps = tables.paths(flow)
        adder = model.func(adder_q)
        fp = ("param", fi.params[1])

        def is_found(t):
            return t[0] == "call" and fi_of_term(model, t[1]) is finder

        for found in (True, False):
            def ev(t, found=found):
                ts = t
                if ts == ("attr", ("param", "self"), "enabled"):
                    return True
                if ts[0] == "op" and ts[1] in ("cmp:Is", "cmp:IsNot") and ts[2][1] == ("const", "None"):
                    if is_found(ts[2][0]):
                        return (not found) if ts[1] == "cmp:Is" else found
                    return ts[1] == "cmp:IsNot"
                if is_found(ts):
                    return found
                return None
            feas = [p for p in ps if tables.feasible(p, ev)]
            construct = "%s[checker %s on the stack]" % (fi.qual, "already" if found else "not yet")
            bad = None
            if len(feas) != 1:
                bad = "%d feasible paths (expected one)" % len(feas)
            else:
                p = feas[0]
                finds = [t for t, n in p.calls if fi_of_term(model, t[1]) is finder]
                creates = [t for t, n in p.calls if fi_of_term(model, t[1]) is factory]
                adds = [t for t, n in p.calls if fi_of_term(model, t[1]) is adder]
                rt = p.outcome[1] if p.outcome and p.outcome[0] == "return" else None
                if len(finds) != 1 or dict(finds[0][3]).get("func") != fp:
                    bad = "the decorator stack of the given function is not searched for an existing checker first"
                elif found:
                    if creates:
                        bad = "a second checker is created although one exists on the stack"
                    elif rt != fp:
                        bad = "with a checker already on the stack the decorator returns %s instead of the function it was given: decorators sitting between the two contracts are dropped from the stack" % show(strip_sites(rt) if rt else None)
                    elif len(adds) != 1 or not is_found(dict(adds[0][3]).get("checker", ("x",))):
                        bad = "the contract is not added to the checker that was found"
                else:
                    if len(creates) != 1 or dict(creates[0][3]).get("func") != fp:
                        bad = "no checker is created around the given function"
                    elif rt != creates[0]:
                        bad = "the decorator does not return the checker it created (returns %s)" % show(strip_sites(rt) if rt else None)
                    elif len(adds) != 1 or dict(adds[0][3]).get("checker") != creates[0]:
                        bad = "the contract is not added to the newly created checker"
                if bad is None and dict(adds[0][3]).get("contract") != ("attr", ("param", "self"), attr):
                    bad = "the contract added is not the decorator's own"
            run.check(bad is None, rule, construct, "find first; create iff none; add once; return %s" % ("the given function" if found else "the new checker"), bad or "", fi.loc(), None, construct.split("[", 1)[1])


def class_creation(run, model, rule="C14.class-creation"):
    """The metaclass hands everything it was given on to ``type.__new__``: name, bases, the namespace and the class
    keyword arguments (``class C(Base, key=value)`` -> ``__init_subclass__``), and returns the class it got back."""
    fi = model.method("_metaclass", "DBCMeta", "__new__")
    flow = get_flow(model, fi)
    run.saw(flow)
    a = fi.node.args
    pos = [x.arg for x in a.posonlyargs + a.args]
    sup = []
    for n in flow.cfg.nodes:
        for call, c, aw in calls_in(n):
            f_ = call.func
            if isinstance(f_, ast.Attribute) and f_.attr == "__new__" and isinstance(f_.value, ast.Call) and isinstance(f_.value.func, ast.Name) and f_.value.func.id == "super":
                sup.append((n, call))
    bad = None
    where = None
    if len(sup) != 1:
        bad = "the class is not created by exactly one super().__new__ call (%d found)" % len(sup)
    else:
        n, call = sup[0]
        where = n
        got = [strip_sites(flow.term(x, n)) for x in call.args if not isinstance(x, ast.Starred)]
        if got != [("param", p) for p in pos]:
            bad = "super().__new__ receives (%s), not the metaclass's own (%s) in that order" % (", ".join(show(x, 30) for x in got), ", ".join(pos))
        elif any(isinstance(x, ast.Starred) for x in call.args) or any(kw.arg is not None for kw in call.keywords):
            bad = "super().__new__ receives additional arguments"
        elif a.kwarg is not None:
            stars = [strip_sites(flow.term(kw.value, n)) for kw in call.keywords if kw.arg is None]
            if stars != [("param", a.kwarg.arg)]:
                bad = "the class keyword arguments (**%s) are not handed on to super().__new__: `class C(Base, key=value)` no longer reaches __init_subclass__ of the base" % a.kwarg.arg
        if bad is None:
            created = strip_sites(flow.term(call, n))
            for r in flow.cfg.nodes:
                if r.kind == "return" and r.ast is not None and strip_sites(flow.term(r.ast, r)) != created:
                    bad = "the metaclass returns %s, not the class created by type.__new__" % show(strip_sites(flow.term(r.ast, r)), 60)
                    where = r
    if a.kwarg is None and bad is None:
        bad = "DBCMeta.__new__ accepts no class keyword arguments (**kwargs): `class C(Base, key=value)` fails for contract classes only"
    run.check(bad is None, rule, fi.qual, "super().__new__(mlcs, name, bases, namespace, **kwargs); its result is returned", bad or "", fi.loc(where) if where is not None else fi.loc(), None, first_line(where.stmt) if where is not None else None)


def run(run, model):
    run.do(class_creation, model)
    # a call whose contracts hold is not rejected for its argument names unless they really are reserved
    from . import c19
    run.do(c19.validators, model, "C14.no-spurious-rejection", "C14.no-spurious-rejection")
    run.do(gates.c02_result_identity, model, "C14.result-identity", "C14.forward")
    run.do(gates.object_init_args, model)
    # giving the marker back must not fail on the way out (``reset(token)`` raises in a context other than the one that
    # made the token): the caller would get that error instead of the body's result or exception
    from . import marker
    run.do(marker.report_rule, model, "C11.release-on-all-exits", marker.MARKER_REGIONS_ALL, "no exit is reached with the marker held", as_rule="C14.marker-given-back")
    run.do(gates.c02_exc_transparent, model, "C14.exc-transparent")
    run.do(c05.order_identity, model, "C14.forward-order", "C14.forward")
    run.do(metadata, model)
    run.do(single_checker, model)
    run.do(c18.find_rule, model, "C14.find")
    run.do(c08.define_tables, model, "C14.snapshot-returns-func")
    run.do(c17.invariant_decorator_table, model, "C14.invariant-returns-cls")
    run.do(twins.colour, model, "C14.colour")
    run.do(twins.body_await, model, "C14.body-await")
    run.do(inv.install, model, "C14.install", "C14.new-guard", "C14.metadata")
    # which members are wrapped at all: static and class methods (own or inherited) stay as they are
    run.do(inv.selection, model, "C14.wrapped-members", "C14.wrapped-members-source")
    from . import meta
    run.do(meta.namespace_rebind_rule, model, "C14.namespace-rebind")
    run.minimum("C14.forward", 11)
    run.minimum("C14.result-identity", 11)
    run.minimum("C14.metadata", 3)
    run.minimum("C14.single-checker", 4)
    run.minimum("C14.colour", 2)
    run.minimum("C14.new-guard", 1)
    run.minimum("C14.class-creation", 1)
