"""C17 -- defining a class or decorating a function never changes another's contracts (DESIGN.md 5/C17)."""
import ast

from .. import tables
from ..events import Summaries, calls_in, fi_of_term, DUNDERS_CHECKER, DUNDERS_INV
from ..flow import get_flow, show, strip_sites, subterms
from ..model import AnalysisError, first_line, src_of
from . import meta, c04

META = {
    "explanation": "ownership analysis (Fresh / Owned / Borrowed) of every in-place list mutation in the metaclass, the class decorator and the add_* helpers, interprocedural through parameter-mutation summaries; provenance (fresh concatenation) of the merged lists; decision table of the namespace store that gives every class its own invariant lists",
    "trusted_base": ["attribute lookup on a class finds the nearest definition along the MRO"],
    "not_decided": ["classes that inherit invariants without the metaclass (documented, pinned by test_subclasses_affect_the_base_class_if_no_DBC)"],
    "assumptions": ["accepted aliasing: inner precondition groups are shared from base to derived checker (the derived precondition is defined in terms of the base group)"],
}


def decorator_sites(run, model, rule="C17.mutation-sites"):
    """Mutation sites outside the metaclass: receiver must be the subject's own list (or fresh)."""
    summ = Summaries(model)
    specs = [
        ("_checkers.add_precondition_to_checker", DUNDERS_CHECKER),
        ("_checkers.add_postcondition_to_checker", DUNDERS_CHECKER),
        ("_checkers.add_snapshot_to_checker", DUNDERS_CHECKER),
        ("_decorators.invariant.__call__", DUNDERS_INV),
    ]
    for qual, dunders in specs:
        fi = model.func(qual)
        flow = get_flow(model, fi)
        run.saw(flow)
        subject = fi.params[1] if fi.cls is not None else fi.params[0]
        sites = meta.mutation_sites(model, fi)
        if not sites:
            run.violation(rule, fi.qual, "no list mutation found (the contract is not added)", fi.loc())
        for i, (n, how, recv) in enumerate(sites):
            alts = recv[1] if recv[0] == "phi" else (recv,)
            bad = None
            for a in alts:
                if meta.ownership(model, a, summ) == "fresh":
                    continue
                base = a
                if base[0] == "idx":
                    base = base[1]
                    sb = strip_sites(base)
                    if sb[0] == "display" and not sb[2]:
                        # an element of a local list that was filled by appends: the term does not say which
                        raise AnalysisError("%s: `%s` on an element of a local list filled element by element (%s); which list it is cannot be read off its definition" % (fi.qual, how, show(strip_sites(a), 60)))
                if base[0] == "attr" and base[1] == ("param", subject) and base[2] in dunders:
                    continue
                bad = "in-place `%s` on %s, which is neither a fresh list nor a list of the %s being decorated" % (how, show(strip_sites(a), 80), subject)
            run.check(bad is None, rule, "%s:%s@%d" % (fi.qual, how, i), "mutates a list owned by the `%s` being decorated (or a fresh one)" % subject, bad or "", fi.loc(n), None, first_line(n.stmt))


def invariant_decorator_table(run, model, rule="C17.own-lists"):
    """invariant.__call__: fresh lists iff the class has none; appends by check_on; a class made by the metaclass
    that merely *inherits* a list (its base was decorated after the class had been created) gets its own copy first."""
    fi = model.method("_decorators", "invariant", "__call__")
    flow = get_flow(model, fi)
    run.saw(flow)
    ps = tables.paths(flow)
    cls_p = ("param", fi.params[1])
    inv_t = ("attr", ("param", "self"), "_invariant")
    meta_cls = ("class", "_metaclass", "DBCMeta")

    def is_copy_of(t, name):
        """a fresh list with the elements of ``cls.<name>``: ``x[:]``, ``list(x)``, ``x.copy()``, ``x + []``, ``[*x]``"""
        t = strip_sites(t)
        src = ("attr", cls_p, name)
        if t[0] == "idx" and t[1] == src and t[2] == ("op", "slice", (("const", "None"),) * 3):
            return True
        if t[0] == "call" and t[1] == ("builtin", "list") and t[2] == (src,) and not t[3]:
            return True
        if t[0] == "call" and t[1] == ("attr", src, "copy") and not t[2] and not t[3]:
            return True
        if t[0] == "op" and t[1] == "Add" and t[2][0] == src and t[2][1][0] == "display" and not t[2][1][2]:
            return True
        if t[0] == "display" and t[1] == "list" and t[2] == (("star", src),):
            return True
        return False

    # rows: the class has no list at all / has (own or, outside the metaclass, shared as documented) / is a class of
    # the metaclass that inherits the lists of a base without owning them
    for has, inherits in ((False, False), (True, False), (True, True)):
        for call_ in (False, True):
            for seta in (False, True):
                def ev(t, has=has, inherits=inherits, call_=call_, seta=seta):
                    ts = strip_sites(t)
                    if ts == ("attr", ("param", "self"), "enabled"):
                        return True
                    if ts[0] == "call" and ts[1] == ("builtin", "hasattr") and ts[2] == (cls_p, ("const", "'__invariants__'")):
                        return has
                    if ts[0] == "op" and ts[1] == "cmp:In" and ts[2][1] == ("attr", inv_t, "check_on") and ts[2][0][0] in ("attr", "global"):
                        which = ts[2][0][2]
                        return call_ if which == "CALL" else (seta if which == "SETATTR" else None)
                    if ts[0] == "call" and ts[1] == ("builtin", "isinstance") and ts[2][0] == cls_p and meta_cls in tuple(subterms(ts[2][1])):
                        return inherits
                    if ts[0] == "op" and ts[1] == "cmp:Is" and ts[2][0] == ("call", ("builtin", "type"), (cls_p,), ()) and ts[2][1] == meta_cls:
                        return inherits
                    if ts[0] == "op" and ts[1] in ("cmp:In", "cmp:NotIn") and ts[2][0][0] == "const" and ts[2][1] in (("attr", cls_p, "__dict__"), ("call", ("builtin", "vars"), (cls_p,), ())):
                        try:
                            nm = ast.literal_eval(ts[2][0][1])
                        except Exception:  # pylint: disable=broad-except
                            nm = None
                        if nm in DUNDERS_INV:
                            owns = has and not inherits
                            return owns if ts[1] == "cmp:In" else not owns
                    if ts[0] == "call" and ts[1] == ("builtin", "isinstance"):
                        return True
                    if ts[0] == "op" and ts[1] == "cmp:IsNot" and ts[2][1] == ("const", "None"):
                        return True
                    return None

                feas = [p for p in ps if tables.feasible(p, ev)]
                construct = "%s[class %s __invariants__, check_on CALL=%s SETATTR=%s]" % (fi.qual, "has no" if not has else ("of the metaclass inherits, does not own," if inherits else "has"), call_, seta)
                bad = None
                if len(feas) != 1:
                    bad = "%d feasible paths (expected one)" % len(feas)
                else:
                    p = feas[0]
                    sets = sorted(ast.literal_eval(ct[2][1][1]) for ct, n in p.calls if ct[1] == ("builtin", "setattr") and ct[2][0] == cls_p and ct[2][1][0] == "const" and ct[2][2][0] == "display" and not ct[2][2][2])
                    copies = {}
                    for ct, n in p.calls:
                        if ct[1] == ("builtin", "setattr") and ct[2][0] == cls_p and ct[2][1][0] == "const":
                            nm = ast.literal_eval(ct[2][1][1])
                            if nm in DUNDERS_INV and is_copy_of(ct[2][2], nm):
                                copies[nm] = strip_sites(ct[2][2])
                    apps, shared = [], []
                    for ct, n in p.calls:
                        if ct[1][0] == "attr" and ct[1][2] == "append" and ct[2] == (inv_t,):
                            recv = ct[1][1]
                            name = None
                            if recv[0] == "attr" and recv[1] == cls_p:
                                name = recv[2]
                                shared.append(name)
                            elif recv[0] == "display":
                                for c2, n2 in p.calls:
                                    if c2[1] == ("builtin", "setattr") and c2[2][0] == cls_p and c2[2][2] == recv:
                                        name = ast.literal_eval(c2[2][1][1])
                            else:
                                for nm, ctm in copies.items():
                                    if strip_sites(recv) == ctm:
                                        name = nm
                            if name is None and recv[0] not in ("attr", "display", "call", "param", "global"):
                                raise AnalysisError("%s: the list the invariant is appended to is not read off the class or a fresh list set on it (%s); the table of the decorator's lists cannot name it" % (fi.qual, show(recv, 60)))
                            apps.append(name)
                    want_sets = [] if has else sorted(DUNDERS_INV)
                    want_apps = ["__invariants__"] + (["__invariants_on_call__"] if call_ else []) + (["__invariants_on_setattr__"] if seta else [])
                    if sets != want_sets:
                        bad = "sets fresh lists %s on the class, expected %s" % (sets, want_sets)
                    elif sorted(x or "?" for x in apps) != sorted(want_apps):
                        bad = "appends the invariant to %s, expected %s" % (apps, want_apps)
                    elif inherits and shared:
                        bad = "appends the invariant to %s read off the class by ordinary look-up although the class does not own the list: a class of the metaclass whose base was decorated after the class had been created inherits the base's list object, and the invariant slips into the base and all its other descendants" % ", ".join("`%s`" % x for x in shared)
                    elif inherits and sorted(copies) != sorted(DUNDERS_INV):
                        bad = "gives the class its own copy of %s only, expected all of %s (a later decoration appends to the lists it does not own)" % (sorted(copies), sorted(DUNDERS_INV))
                    elif p.outcome is None or p.outcome[0] != "return" or p.outcome[1] != cls_p:
                        bad = "does not return the class it was given"
                run.check(bad is None, rule, construct, "lists created iff absent, copied iff inherited by a class of the metaclass; invariant appended by its check_on; same class returned", bad or "", fi.loc(), None, construct.split("[", 1)[1])


def install_on_class_only(run, model, rule="C17.install-on-class"):
    """add_invariant_checks replaces members *on the class it decorates* (``setattr(cls, name, wrapped)``); it never
    stores into a member object itself: the member may be inherited -- the very function, property or other
    descriptor object of a base class -- and a store into it changes the base and all its other descendants."""
    fi = model.func("_checkers.add_invariant_checks")
    flow = get_flow(model, fi)
    run.saw(flow)
    summ = Summaries(model)
    cls_p = ("param", fi.params[0])
    n_sites, bad = 0, None
    for n in flow.cfg.nodes:
        stores = []
        for call, c, a in calls_in(n):
            if isinstance(call.func, ast.Name) and call.func.id in ("setattr", "delattr") and len(call.args) >= 2:
                stores.append((call.args[0], src_of(call)))
        if n.kind == "stmt" and isinstance(n.ast, (ast.Assign, ast.AnnAssign, ast.AugAssign)):
            for tg in (n.ast.targets if isinstance(n.ast, ast.Assign) else [n.ast.target]):
                for sub in ([tg] if not isinstance(tg, (ast.Tuple, ast.List)) else tg.elts):
                    if isinstance(sub, (ast.Attribute, ast.Subscript)):
                        stores.append((sub.value, src_of(sub)))
        if n.kind == "stmt" and isinstance(n.ast, ast.Delete):
            for tg in n.ast.targets:
                if isinstance(tg, (ast.Attribute, ast.Subscript)):
                    stores.append((tg.value, src_of(tg)))
        for obj, text in stores:
            n_sites += 1
            ot = strip_sites(flow.term(obj, n))
            alts = ot[1] if ot[0] == "phi" else (ot,)
            for a in alts:
                if a == cls_p or meta.ownership(model, a, summ) == "fresh":
                    continue
                bad = bad or (n, "`%s` stores into %s, not into the class being decorated: a member looked up on the class can be the very object a base class (and its other descendants) uses" % (text, show(a, 60)))
    run.check(bad is None, rule, fi.qual, "all %d stores go to the class being decorated (or to objects created here)" % n_sites, bad[1] if bad else "", fi.loc(bad[0]) if bad else fi.loc(), None, first_line(bad[0].stmt) if bad else None)
    if n_sites < 3:
        raise AnalysisError("%s: only %d stores found (constructor, methods, properties expected)" % (fi.qual, n_sites))


def run(run, model):
    run.do(meta.ownership_rule, model, "C17.mutation-sites", ("_metaclass",))
    run.do(install_on_class_only, model)
    from . import c14
    # a decorator applied to an object either extends the checker found on it or wraps it in a fresh one: no third way
    run.do(c14.single_checker, model, "C17.decorate-paths")
    run.do(decorator_sites, model)
    for dunder, what in (("__preconditions__", "precondition groups"), ("__postconditions__", "postconditions"), ("__postcondition_snapshots__", "snapshots")):
        run.do(meta.provenance_rule, model, "C17.fresh-merge", dunder, what)
    run.do(c04.invariant_provenance, model, "C17.fresh-merge", "C17.own-lists")
    run.do(invariant_decorator_table, model)
    run.do(c04.structure_rules, model)
    run.do(meta.shared_member_rule, model, "C17.shared-member")
    run.do(meta.decorate_always, model, "C17.own-lists")
    run.do(meta.group_copies, model, "C17.group-copies")
    from . import c18
    run.do(c18.find_rule, model, "C17.single-checker")
    run.do(c18.same_object, model, "C17.fresh-checker")
    run.minimum("C17.mutation-sites", 12)
    run.minimum("C17.fresh-merge", 7)
    run.minimum("C17.own-lists", 10)
    run.minimum("C17.own-lists", 2)
    run.minimum("C17.group-copies", 2)
