"""T-twin: sync/async sibling cross-checks (C13, C14.colour)."""
import ast
import copy

from .. import tables
from ..events import bind_call, calls_in, fi_of_term, find_wrappers
from ..flow import get_flow, show, strip_sites, subterms
from ..model import AnalysisError, first_line, src_of
from . import gates, loops, marker


class _Normaliser(ast.NodeTransformer):
    """Erase the declared differences between a sync function and its async twin."""

    def __init__(self, rename, signatures=None):
        self.rename = rename
        self.signatures = signatures or {}

    def visit_Await(self, node):
        return self.visit(node.value)

    def visit_AsyncFunctionDef(self, node):
        new = ast.FunctionDef(name=node.name, args=node.args, body=node.body, decorator_list=node.decorator_list, returns=node.returns, type_comment=None, type_params=getattr(node, "type_params", []))
        return self.generic_visit(ast.copy_location(new, node))

    def visit_Name(self, node):
        nid = node.id
        if nid.endswith("_async"):
            nid = nid[: -len("_async")]
        nid = self.rename.get(nid, nid)
        return ast.copy_location(ast.Name(id=nid, ctx=node.ctx), node)

    def visit_ExceptHandler(self, node):
        node = self.generic_visit(node)
        if node.name:
            node.name = self.rename.get(node.name, node.name)
        return node

    def visit_Call(self, node):
        node = self.generic_visit(node)
        # keyword / positional style at calls of the library's own functions is not a difference
        if isinstance(node.func, ast.Name) and node.func.id in self.signatures and not any(isinstance(a, ast.Starred) for a in node.args):
            names = self.signatures[node.func.id]
            if len(node.args) <= len(names):
                kws = [ast.keyword(arg=names[i], value=a) for i, a in enumerate(node.args)] + list(node.keywords)
                node.args = []
                node.keywords = sorted(kws, key=lambda kw: kw.arg or "")
        # the sync helpers take the decorated function for their error messages
        node.keywords = [kw for kw in node.keywords if kw.arg != "func"]
        return node

    def visit_Expr(self, node):
        if isinstance(node.value, ast.Constant) and isinstance(node.value.value, str):
            return None  # docstring
        return self.generic_visit(node)


def _locals_in_order(fn):
    names = []
    for sub in ast.walk(fn):
        if isinstance(sub, ast.Name) and isinstance(sub.ctx, ast.Store) and sub.id not in names:
            names.append(sub.id)
        if isinstance(sub, ast.ExceptHandler) and sub.name and sub.name not in names:
            names.append(sub.name)
    return names


def _copy_propagate(fn):
    """Remove trivial copies ``tmp = name`` (tmp and name each bound once) by substituting name for tmp."""
    stores = {}
    for sub in ast.walk(fn):
        if isinstance(sub, ast.Name) and isinstance(sub.ctx, ast.Store):
            stores[sub.id] = stores.get(sub.id, 0) + 1
    a = fn.args
    params = set(x.arg for x in a.posonlyargs + a.args + a.kwonlyargs)
    if a.vararg:
        params.add(a.vararg.arg)
    if a.kwarg:
        params.add(a.kwarg.arg)
    mapping = {}

    class Drop(ast.NodeTransformer):
        def visit_Assign(self, node):
            if len(node.targets) == 1 and isinstance(node.targets[0], ast.Name) and isinstance(node.value, ast.Name):
                t, v = node.targets[0].id, node.value.id
                if stores.get(t, 0) == 1 and t not in params and (stores.get(v, 0) <= 1):
                    mapping[t] = v
                    return None
            return node

        def visit_FunctionDef(self, node):
            if node is fn:
                return self.generic_visit(node)
            return node

        visit_AsyncFunctionDef = visit_FunctionDef

    fn = Drop().visit(fn)
    # resolve chains
    def final(n):
        seen = set()
        while n in mapping and n not in seen:
            seen.add(n)
            n = mapping[n]
        return n

    class Sub(ast.NodeTransformer):
        def visit_Name(self, node):
            if node.id in mapping:
                return ast.copy_location(ast.Name(id=final(node.id), ctx=node.ctx), node)
            return node

    fn = Sub().visit(fn)
    # a block emptied by the removal gets a pass
    for sub in ast.walk(fn):
        for field in ("body", "orelse", "finalbody"):
            if isinstance(getattr(sub, field, None), list) and field == "body" and not getattr(sub, field) and isinstance(sub, (ast.If, ast.For, ast.While, ast.Try, ast.With, ast.FunctionDef, ast.AsyncFunctionDef)):
                setattr(sub, field, [ast.Pass()])
    return fn


def normalised(fn, signatures=None):
    fn = _copy_propagate(copy.deepcopy(fn))
    rename = {}
    for i, nm in enumerate(_locals_in_order(fn)):
        rename[nm] = "v%d" % i
    out = _Normaliser(rename, signatures).visit(fn)
    ast.fix_missing_locations(out)
    return out


def _stmts(fn):
    return [s for s in fn.body]


def _first_difference(a_body, b_body, a_orig, b_orig):
    """Return (sync stmt, async stmt, sync original, async original) of the first differing statements."""
    for i in range(max(len(a_body), len(b_body))):
        sa = a_body[i] if i < len(a_body) else None
        sb = b_body[i] if i < len(b_body) else None
        oa = a_orig[i] if i < len(a_orig) else None
        ob = b_orig[i] if i < len(b_orig) else None
        if sa is None or sb is None:
            return sa, sb, oa, ob
        if ast.dump(sa) != ast.dump(sb):
            # descend into compound statements of the same kind
            if type(sa) is type(sb):
                for field in ("body", "orelse", "finalbody"):
                    fa, fb = getattr(sa, field, None), getattr(sb, field, None)
                    if isinstance(fa, list) and isinstance(fb, list) and fa and fb and [ast.dump(x) for x in fa] != [ast.dump(x) for x in fb]:
                        if isinstance(fa[0], ast.stmt):
                            oa_f = getattr(oa, field, []) if oa is not None else []
                            ob_f = getattr(ob, field, []) if ob is not None else []
                            d = _first_difference(fa, fb, oa_f, ob_f)
                            if d is not None:
                                return d
            return sa, sb, oa, ob
    return None


def _orig_body(fn):
    return [s for s in fn.body if not (isinstance(s, ast.Expr) and isinstance(s.value, ast.Constant) and isinstance(s.value.value, str))]


def wrapper_twins(run, model, rule="C13.twins"):
    w = find_wrappers(model)
    for what, s_role, a_role in (("checker wrapper", "checker[sync]", "checker[async]"), ("invariant method wrapper", "inv[sync]", "inv[async]")):
        fs, fa = w[s_role], w[a_role]
        run.saw(get_flow(model, fs))
        run.saw(get_flow(model, fa))
        sigs = {}
        for f in model.modules[fs.module.name].funcs:
            if f.parent is None and f.cls is None and f.live:
                a = f.node.args
                nm = f.name[: -len("_async")] if f.name.endswith("_async") else f.name
                sigs[nm] = [x.arg for x in a.posonlyargs + a.args]
        ns, na = normalised(fs.node, sigs), normalised(fa.node, sigs)
        if ast.dump(ns) == ast.dump(na):
            run.ok(rule, "%s ~ %s" % (fs.qual, fa.qual), "the %ss agree statement by statement modulo {await e -> e, X_async -> X, func=...}" % what, fs.loc())
            continue
        d = _first_difference(_stmts(ns), _stmts(na), _orig_body(fs.node), _orig_body(fa.node))
        if d is None:
            sa = sb = oa = ob = None
            detail = "the signatures differ"
        else:
            sa, sb, oa, ob = d
            detail = "first difference -- sync (line %s): `%s`  vs  async (line %s): `%s`" % (getattr(oa, "lineno", "?"), first_line(oa, 90) if oa is not None else "<nothing>", getattr(ob, "lineno", "?"), first_line(ob, 90) if ob is not None else "<nothing>")
        run.violation(rule, "%s ~ %s" % (fs.qual, fa.qual), "the sync and the async %s are not equivalent modulo await: %s" % (what, detail), fa.loc(ob) if ob is not None else fa.loc(), None, first_line(ob, 90) if ob is not None else (first_line(oa, 90) if oa is not None else None))


def helper_dispatch(run, model, rule_async="C13.await-dispatch", rule_sync="C13.sync-reject"):
    """Per user call-out in the six helpers: how coroutine functions / coroutine results are treated."""
    cks = gates.checkers(model)
    for role, ck in cks.items():
        is_async = role.endswith("[async]")
        for kind, what in (("PRE", "condition"), ("POST", "condition"), ("SNAP", "capture")):
            h = loops.helper_of(model, ck, kind)
            if h is None:
                run.violation(rule_async if is_async else rule_sync, "%s:%s" % (ck.fi.qual, kind), "the %s phase was not found" % kind, ck.fi.loc())
                continue
            fi = h[0]
            flow = get_flow(model, fi)
            run.saw(flow)
            heads = [n for n in flow.cfg.nodes if n.kind == "next"]
            # innermost loop containing the user call
            user_nodes = [n for n in flow.cfg.nodes for call, c, a in calls_in(n) if isinstance(call.func, ast.Attribute) and call.func.attr == what]
            if not user_nodes:
                run.violation(rule_async if is_async else rule_sync, fi.qual, "the helper never calls `.%s`" % what, fi.loc())
                continue
            host = None
            for hd in heads:
                inside = set(id(sub) for st in hd.stmt.body for sub in ast.walk(st))
                if id(user_nodes[0].stmt) in inside:
                    if host is None or id(hd.stmt) in set(id(sub) for st in host.stmt.body for sub in ast.walk(st)):
                        host = hd
            if host is None:
                run.violation(rule_async if is_async else rule_sync, fi.qual, "the user callable is not evaluated inside a loop", fi.loc())
                continue
            start = [t for k, t in host.succ if k == "T"][0]
            after = set(t.id for k, t in host.succ if k == "F")
            outer_ids = set(x.id for x in heads)
            ps = tables.paths(flow, start, outer_ids | after, stop_at_loops=True)
            for corofn in (True, False):
                for corores in (True, False):
                    def ev(t, corofn=corofn, corores=corores):
                        ts = strip_sites(t)
                        if ts[0] == "call" and ts[1] == ("attr", ("module", "inspect"), "iscoroutinefunction"):
                            return corofn
                        if ts[0] == "call" and ts[1] == ("attr", ("module", "inspect"), "iscoroutine"):
                            return corores
                        if ts[0] == "op" and ts[1] in ("cmp:In", "cmp:NotIn") and ts[2][0][0] == "attr" and ts[2][0][2] == "name":
                            return ts[1] == "cmp:NotIn"  # the conflicting-name assert of the capture helpers
                        return None
                    feas = [p for p in ps if tables.feasible(p, ev)]
                    construct = "%s[%s %s a coroutine function, its result %s a coroutine]" % (fi.qual, what, "is" if corofn else "is not", "is" if corores else "is not")
                    rule = rule_async if is_async else rule_sync
                    bad = None
                    # what value is judged / stored on the continuing paths
                    vals = set()
                    outs = set()
                    for p in feas:
                        lab = tables.classify(p)
                        if p.outcome is not None and p.outcome[0] == "raise":
                            outs.add(lab)
                            continue
                        outs.add("value")
                        v = None
                        if what == "condition":
                            for ct, n in p.calls:
                                f = fi_of_term(model, ct[1])
                                if f is not None and f.name == "not_check":
                                    v = dict(ct[3]).get("check")
                        else:
                            for tt, vt, n in p.stores:
                                v = vt
                        vals.add(_shape(v, what))
                    if is_async:
                        if corofn and corores:
                            # a coroutine function's result is awaited; the second atom is irrelevant when the first branch is taken
                            want_vals = {"await call"}
                        elif corofn:
                            want_vals = {"await call"}
                        elif corores:
                            want_vals = {"await call"}
                        else:
                            want_vals = {"result"}
                        if outs != {"value"}:
                            bad = "the async helper must accept this combination, possible outcomes %s" % sorted(outs)
                        elif vals != want_vals:
                            bad = "the value that is judged/stored is %s, expected %s: %s" % (sorted(vals), sorted(want_vals), "a coroutine would be taken as truthy / stored un-awaited" if "await" in "".join(want_vals) else "")
                    else:
                        if corofn or corores:
                            if outs != {"raise ValueError"}:
                                bad = "on a sync callable a coroutine %s must be rejected with ValueError, possible outcomes %s" % ("function" if corofn else "result", sorted(outs))
                        else:
                            if outs != {"value"} or vals != {"result"}:
                                bad = "a plain %s must be evaluated and its result used as is (outcomes %s, value %s)" % (what, sorted(outs), sorted(vals))
                    run.check(bad is None, rule, construct, "handled as specified", bad or "", fi.loc(host), None, construct.split("[", 1)[1])


def _shape(v, what):
    if v is None:
        return "none"
    alts = v[1] if v[0] == "phi" else (v,)
    shapes = set()
    for a in alts:
        aw = a[0] == "await"
        inner = a[1] if aw else a
        is_call = inner[0] == "call" and inner[1][0] == "attr" and inner[1][2] == what
        if aw and is_call:
            # ``await x.condition(...)`` directly, or ``await <the stored result>`` (same call term)
            shapes.add("await")
        elif is_call:
            shapes.add("result")
        else:
            shapes.add("other:" + show(strip_sites(a), 40))
    if shapes == {"await"}:
        return "await call"
    return "/".join(sorted(shapes))


def colour(run, model, rule="C13.colour"):
    """The factories return an ``async def`` wrapper iff inspect.iscoroutinefunction(<decorated function>)."""
    for qual in ("_checkers.decorate_with_checker", "_checkers._decorate_with_invariants"):
        fi = model.func(qual)
        flow = get_flow(model, fi)
        run.saw(flow)
        fp = ("param", fi.params[0])
        found = None
        for n in flow.cfg.nodes:
            if n.kind == "test":
                t = strip_sites(flow.term(n.ast, n))
                if t[0] == "call" and t[1] == ("attr", ("module", "inspect"), "iscoroutinefunction"):
                    found = (n, t)
        bad = None
        if found is None:
            bad = "the factory does not choose between a sync and an async wrapper by inspect.iscoroutinefunction"
        else:
            n, t = found
            if t[2] != (fp,) and [v for _, v in t[3]] != [fp]:
                bad = "the wrapper's colour is decided by `%s`, not by the callable that is actually wrapped: the caller of a sync callable would receive a coroutine (or vice versa)" % first_line(n.ast)
            else:
                arms = {}
                for k, tgt in n.succ:
                    if k in ("T", "F"):
                        seen = flow.cfg.reachable_from(tgt, lambda kk, a, b: kk not in ("exc", "unmatched"))
                        arms[k] = [x for x in flow.cfg.nodes if x.id in seen and x.kind == "def"]
                t_async = [d for d in arms.get("T", []) if isinstance(d.ast, ast.AsyncFunctionDef)]
                f_sync = [d for d in arms.get("F", []) if isinstance(d.ast, ast.FunctionDef)]
                t_defs = [d for d in arms.get("T", []) if d not in arms.get("F", [])]
                f_defs = [d for d in arms.get("F", []) if d not in arms.get("T", [])]
                if not (len(t_defs) == 1 and isinstance(t_defs[0].ast, ast.AsyncFunctionDef) and len(f_defs) == 1 and isinstance(f_defs[0].ast, ast.FunctionDef)):
                    bad = "the coroutine-function arm does not define exactly the async wrapper and the other arm the sync one"
        run.check(bad is None, rule, fi.qual, "async wrapper iff inspect.iscoroutinefunction(%s)" % fi.params[0], bad or "", fi.loc(found[0]) if found else fi.loc(), None, first_line(found[0].stmt) if found else None)


def body_await(run, model, rule="C13.body-await"):
    """In an async wrapper the decorated function is awaited where it is called.

    ``await helper(func, ...)`` with a *sync* helper that calls ``func`` only creates the coroutine inside the helper;
    the body runs when the wrapper awaits the returned coroutine, i.e. after the helper has already undone whatever
    it arranged around the call (resumed checks, try/finally).  The sync twin of the same code runs the body inside
    the helper, so the two wrappers stop being equivalent although they look the same modulo ``await``."""
    w = find_wrappers(model)
    for role in ("checker[async]", "inv[async]"):
        fi = w[role]
        flow = get_flow(model, fi)
        run.saw(flow)
        factory = fi.parent
        direct, through = [], []
        for n in flow.cfg.nodes:
            for call, cond, awaited in calls_in(n):
                ct = flow.term(call.func, n)
                if ct[0] == "closure" and ct[1][0] == "param" and factory is not None and ct[1][1] in factory.params:
                    direct.append((n, call, awaited))
                    continue
                h = fi_of_term(model, ct)
                if h is None or isinstance(h.node, ast.AsyncFunctionDef):
                    continue
                b = bind_call(h, call)
                if not b:
                    continue
                for pname, aexpr in b.items():
                    at = flow.term(aexpr, n)
                    if at[0] == "closure" and at[1][0] == "param" and factory is not None and at[1][1] in factory.params:
                        # does the sync helper call that parameter?
                        hflow = get_flow(model, h)
                        for hn in hflow.cfg.nodes:
                            for hc, _, haw in calls_in(hn):
                                if hflow.term(hc.func, hn) == ("param", pname):
                                    through.append((n, call, h, hn))
        bad = None
        if through:
            n, call, h, hn = through[0]
            bad = (n, "the decorated function is called inside the sync helper `%s` (line %d) and its coroutine is awaited only after the helper has returned: what the helper arranges around the call is already undone when the body runs -- unlike in the sync wrapper" % (h.name, hn.lineno))
        for n, call, awaited in direct:
            if not awaited:
                bad = bad or (n, "the decorated function is called without `await` in the async wrapper: the caller receives a coroutine object instead of the result")
        if not direct and not through:
            bad = (fi.node, "no call of the decorated function was found in the async wrapper")
        run.check(bad is None, rule, fi.qual, "every call of the decorated function is awaited where it is made", bad[1] if bad else "", fi.loc(bad[0]) if bad else fi.loc(), None, first_line(bad[0]) if bad and not isinstance(bad[0], (ast.FunctionDef, ast.AsyncFunctionDef)) else None)


def coroutine_results_tested(run, model, rule="C13.coroutine-result-tested"):
    """Wherever the library calls a user's condition or capture, the result is either awaited at once (a coroutine
    function) or tested with ``inspect.iscoroutine`` before it is judged or stored -- in every function of the checker
    module, including helpers added later.  A coroutine object is truthy: judged as it is, the contract always holds."""
    count = 0
    for fi in sorted(model.modules["_checkers"].funcs, key=lambda f: f.qual):
        if not fi.live:
            continue
        flow = get_flow(model, fi)
        for n in flow.cfg.nodes:
            for call, cond, awaited in calls_in(n):
                f = call.func
                if not (isinstance(f, ast.Attribute) and f.attr in ("condition", "capture")):
                    continue
                count += 1
                construct = "%s:%s@%d" % (fi.qual, f.attr, count)
                if awaited:
                    run.ok(rule, construct, "awaited where it is called", fi.loc(n))
                    continue
                R = strip_sites(flow.term(call, n))
                tested = False
                for t in flow.cfg.nodes:
                    if t.kind == "test" and t.ast is not None:
                        for s_ in subterms(strip_sites(flow.term(t.ast, t))):
                            if s_[0] == "call" and s_[1] in (("attr", ("module", "inspect"), "iscoroutine"), ("attr", ("module", "inspect"), "isawaitable"), ("attr", ("module", "asyncio"), "iscoroutine")) and any(a_ == R or (a_[0] == "phi" and R in a_[1]) for a_ in s_[2]):
                                tested = True
                run.check(tested, rule, construct, "the result is tested with inspect.iscoroutine before it is judged", "the result of the user's %s is judged (or stored) without testing whether it is a coroutine: a condition that yields a coroutine -- e.g. a lambda calling an async function -- is taken as truthy and the contract always holds" % f.attr, fi.loc(n), None, first_line(n.stmt))
    return count
