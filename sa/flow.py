"""E3 -- reaching definitions and value terms (a small SSA-like value numbering over the CFG).

``Flow(model, fi)`` builds the CFG of one function and answers:

* ``defs_at(node, name)``   -- the definitions of local ``name`` reaching CFG node ``node``;
* ``term(expr, node)``      -- a structural *term* describing the value of ``expr`` at ``node`` in terms of
  parameters, closure variables of the enclosing factories, module-level objects, attribute reads and call
  results.  Local copies, temporaries and tuple unpacking disappear in the term, so rules phrased over terms
  are insensitive to renaming of locals, to the introduction of temporaries and to keyword/positional call
  style (arguments are normalised against the callee's signature when the callee is known).

Terms are nested tuples:

  ('param', name) ('const', value-repr) ('attr', base, name) ('idx', base, index) ('elem', iterable)
  ('call', callee, args, kwargs, site) ('await', t) ('phi', (t1, t2, ...)) ('op', opname, operands)
  ('display', kind, elems, site) ('func', qual) ('class', module, name) ('module', dotted) ('global', module, name)
  ('builtin', name) ('lambda', site) ('comp', kind, site) ('exc', handler-site) ('unk', text)
"""
import ast
import builtins as _builtins

from .cfg import CFG, eval_order
from .model import AnalysisError, PKG, resolve_callee, resolve_class, src_of

_MAX_DEPTH = 40
_INF = 1 << 30


class Def:
    __slots__ = ("name", "node", "kind", "value", "path", "stmt")

    def __init__(self, name, node, kind, value=None, path=(), stmt=None):
        self.name = name
        self.node = node  # CFG node where the definition happens (ENTRY for parameters)
        self.kind = kind  # param assign for except def with aug walrus import
        self.value = value  # value expression (for assign/aug/walrus/for: the rhs / iterable)
        self.path = path  # tuple-unpacking path, e.g. (1,) for b in ``a, b = v``
        self.stmt = stmt

    def __repr__(self):
        return "<Def %s %s@%s>" % (self.name, self.kind, self.node.lineno)


def _targets(t, path=()):
    """Yield (Name node, unpack path) for an assignment target."""
    if isinstance(t, ast.Name):
        yield t, path
    elif isinstance(t, (ast.Tuple, ast.List)):
        for i, e in enumerate(t.elts):
            if isinstance(e, ast.Starred):
                for x in _targets(e.value, path + (("star", i),)):
                    yield x
            else:
                for x in _targets(e, path + (i,)):
                    yield x


class Flow:
    def __init__(self, model, fi, parent_flow=None):
        self.model = model
        self.fi = fi
        self.cfg = CFG(fi.node)
        self._parent_flow = parent_flow
        self.node_defs = {}  # node id -> list of Def generated at that node
        self.locals = set()
        self._collect_defs()
        self._reach()
        self._term_cache = {}
        self._stack = []  # definitions whose terms are being computed (cycle detection for loop-carried locals)
        self._min_hit = _INF
        self._override = None  # path environment {name: term} used by tables.paths

    def _frozen_display(self, name):
        """``name`` is bound exactly once in the function, to a list / tuple display, and every other occurrence is the
        operand of ``*name`` in a call or the iterable of a comprehension / ``for``"""
        cache = self.__dict__.setdefault("_frozen_cache", {})
        if name in cache:
            return cache[name]
        root = self.fi.node
        allowed, stores, loads = set(), [], []
        for sub in ast.walk(root):
            if isinstance(sub, ast.Starred) and isinstance(sub.value, ast.Name):
                allowed.add(id(sub.value))
            elif isinstance(sub, ast.comprehension) and isinstance(sub.iter, ast.Name):
                allowed.add(id(sub.iter))
            elif isinstance(sub, (ast.For, ast.AsyncFor)) and isinstance(sub.iter, ast.Name):
                allowed.add(id(sub.iter))
            elif isinstance(sub, (ast.Global, ast.Nonlocal)) and name in sub.names:
                stores.append(None)
            if isinstance(sub, ast.Name) and sub.id == name:
                (loads if isinstance(sub.ctx, ast.Load) else stores).append(sub)
            elif isinstance(sub, ast.arg) and sub.arg == name:
                stores.append(None)
        ok = len(stores) == 1 and stores[0] is not None and all(id(x) in allowed for x in loads)
        if ok:
            ok = any(isinstance(st, ast.Assign) and len(st.targets) == 1 and st.targets[0] is stores[0] and isinstance(st.value, (ast.List, ast.Tuple)) for st in ast.walk(root))
        cache[name] = ok
        return ok

    # ------------------------------------------------------------------ definitions
    def _collect_defs(self):
        cfg = self.cfg
        entry_defs = []
        a = self.fi.node.args
        for arg in a.posonlyargs + a.args + ([a.vararg] if a.vararg else []) + a.kwonlyargs + ([a.kwarg] if a.kwarg else []):
            entry_defs.append(Def(arg.arg, cfg.entry, "param"))
            self.locals.add(arg.arg)
        # names declared nonlocal / global: their value at entry comes from outside the activation
        for sub in ast.walk(self.fi.node):
            if isinstance(sub, (ast.Nonlocal, ast.Global)) and self._own_stmt(sub):
                for nm in sub.names:
                    entry_defs.append(Def(nm, cfg.entry, "outer"))
                    self.locals.add(nm)
        self.node_defs[cfg.entry.id] = entry_defs
        for n in cfg.nodes:
            ds = []
            if n.kind == "stmt":
                st = n.ast
                if isinstance(st, ast.Assign):
                    for t in st.targets:
                        for name, path in _targets(t):
                            ds.append(Def(name.id, n, "assign", st.value, path, st))
                elif isinstance(st, ast.AnnAssign) and st.value is not None:
                    for name, path in _targets(st.target):
                        ds.append(Def(name.id, n, "assign", st.value, path, st))
                elif isinstance(st, ast.AugAssign) and isinstance(st.target, ast.Name):
                    ds.append(Def(st.target.id, n, "aug", st, (), st))
                elif isinstance(st, (ast.Import, ast.ImportFrom)):
                    for al in st.names:
                        ds.append(Def((al.asname or al.name).split(".")[0], n, "import", st, (), st))
            elif n.kind == "next":
                for name, path in _targets(n.ast):
                    ds.append(Def(name.id, n, "for", n.stmt.iter, path, n.stmt))
            elif n.kind == "handler":
                h = n.handler_of
                if h is not None and h.name:
                    ds.append(Def(h.name, n, "except", h.type, (), h))
            elif n.kind == "def":
                ds.append(Def(n.ast.name, n, "def", n.ast, (), n.ast))
            elif n.kind == "with":
                for item in n.ast.items:
                    if item.optional_vars is not None:
                        for name, path in _targets(item.optional_vars):
                            ds.append(Def(name.id, n, "with", item.context_expr, path, n.ast))
            # walrus anywhere in the node's expression
            if n.ast is not None and n.kind in ("stmt", "test", "return", "iter", "raise"):
                for e, _ in eval_order(n.ast):
                    if isinstance(e, ast.NamedExpr) and isinstance(e.target, ast.Name):
                        ds.append(Def(e.target.id, n, "walrus", e.value, (), n.stmt))
            if ds:
                self.node_defs.setdefault(n.id, []).extend(ds)
                for d in ds:
                    self.locals.add(d.name)

    def _own_stmt(self, node):
        """Is ``node`` a statement of this function itself (not of a nested def)?"""
        for ch in self.fi.children:
            for sub in ast.walk(ch.node):
                if sub is node:
                    return False
        return True

    def _reach(self):
        cfg = self.cfg
        self.inn = {n.id: {} for n in cfg.nodes}  # node id -> {name: frozenset(Def)}
        out = {n.id: {} for n in cfg.nodes}
        work = list(cfg.nodes)
        inwork = set(n.id for n in work)
        while work:
            n = work.pop(0)
            inwork.discard(n.id)
            # IN = union of predecessors' OUT (for exc edges: union of pred's IN and OUT)
            new_in = {}
            for kind, p in n.pred:
                srcs = [out[p.id]]
                if kind in ("exc", "unmatched", "handler") or p.kind == "dispatch":
                    srcs.append(self.inn[p.id])
                for src in srcs:
                    for name, ds in src.items():
                        if name in new_in:
                            new_in[name] = new_in[name] | ds
                        else:
                            new_in[name] = ds
            self.inn[n.id] = new_in
            new_out = dict(new_in)
            for d in self.node_defs.get(n.id, []):
                new_out[d.name] = frozenset([d])
            # several defs of one name at one node (rare): keep the last
            if new_out != out[n.id]:
                out[n.id] = new_out
                for _, s in n.succ:
                    if s.id not in inwork:
                        work.append(s)
                        inwork.add(s.id)
        self.out = out

    def defs_at(self, node, name):
        return self.inn[node.id].get(name, frozenset())

    def defs_after(self, node, name):
        return self.out[node.id].get(name, frozenset())

    def uses(self, d):
        """CFG nodes whose expression loads ``d.name`` while ``d`` reaches them."""
        res = []
        for n in self.cfg.nodes:
            if n.ast is None or n.kind in ("def",):
                continue
            if d in self.defs_at(n, d.name):
                for e, _ in eval_order(n.ast) if n.kind != "handler" else []:
                    if isinstance(e, ast.Name) and e.id == d.name and isinstance(e.ctx, ast.Load):
                        res.append(n)
                        break
        return res

    # ------------------------------------------------------------------ parent (closure) flow
    @property
    def parent_flow(self):
        if self._parent_flow is None and self.fi.parent is not None:
            self._parent_flow = get_flow(self.model, self.fi.parent)
        return self._parent_flow

    # ------------------------------------------------------------------ terms
    def site(self, e):
        return (self.fi.qual, getattr(e, "lineno", 0), getattr(e, "col_offset", 0))

    def term(self, expr, node, depth=0):
        if self._override is not None:
            if depth > _MAX_DEPTH:
                return ("unk", "depth:" + src_of(expr, 40))
            return self._term(expr, node, depth)
        key = (id(expr), node.id)
        if key in self._term_cache:
            return self._term_cache[key]
        if depth > _MAX_DEPTH:
            self._min_hit = -1
            return ("unk", "depth:" + src_of(expr, 40))
        saved, self._min_hit = self._min_hit, _INF
        height = len(self._stack)
        t = self._term(expr, node, depth)
        hit = self._min_hit
        if hit >= height:
            # every cycle met on the way was entered during this very evaluation: the term does not depend on
            # where the evaluation started, so it may be reused
            self._term_cache[key] = t
        self._min_hit = min(saved, hit)
        return t

    def term_env(self, expr, node, env):
        """Term of ``expr`` at ``node`` where the locals in ``env`` have the given (path-specific) terms."""
        old = self._override
        self._override = env
        try:
            return self.term(expr, node)
        finally:
            self._override = old

    def name_term(self, name, node, depth=0):
        """Term of local/closure/global ``name`` as seen at the *entry* of CFG node ``node``."""
        return self._name(name, self.defs_at(node, name), node, depth)

    def name_term_after(self, name, node, depth=0):
        return self._name(name, self.defs_after(node, name), node, depth)

    def def_term(self, d, depth=0):
        if d.kind == "param":
            return ("param", d.name)
        if d.kind == "outer":
            return ("outer", d.name)
        if d.kind in ("assign", "walrus", "for", "with", "aug"):
            if any(x is d for x in self._stack):
                # a loop-carried local defined in terms of itself
                self._min_hit = min(self._min_hit, [i for i, x in enumerate(self._stack) if x is d][0])
                return ("unk", "rec:" + d.name)
            self._stack.append(d)
            try:
                return self._def_term(d, depth)
            finally:
                self._stack.pop()
        return self._def_term(d, depth)

    def _def_term(self, d, depth):
        if d.kind == "assign" or d.kind == "walrus":
            t = self.term(d.value, d.node, depth + 1)
            for p in d.path:
                fld = record_field(self.model, t, index=p) if isinstance(p, int) else None
                t = fld if fld is not None else mk_idx(t, ("const", repr(p)))
            return t
        if d.kind == "for":
            t = ("elem", self.term(d.value, self._iter_node(d), depth + 1))
            for p in d.path:
                t = mk_idx(t, ("const", repr(p)))
            return t
        if d.kind == "with":
            t = ("op", "enter", (self.term(d.value, d.node, depth + 1),))
            for p in d.path:
                t = ("idx", t, ("const", repr(p)))
            return t
        if d.kind == "except":
            return ("exc", self.site(d.stmt))
        if d.kind == "def":
            for ch in self.fi.children:
                if ch.node is d.value:
                    return ("func", ch.qual)
            return ("unk", "def " + d.name)
        if d.kind == "aug":
            st = d.value
            prev = self.name_term(d.name, d.node, depth + 1)
            return ("op", "aug" + type(st.op).__name__, (prev, self.term(st.value, d.node, depth + 1)))
        if d.kind == "import":
            return ("module", d.name)
        return ("unk", d.kind)

    def _iter_node(self, d):
        # the 'iter' node precedes the 'next' node of the same For statement
        for k, p in d.node.pred:
            if p.kind == "iter" and p.stmt is d.stmt:
                return p
        return d.node

    def _name(self, name, defs, node, depth):
        if defs:
            ts = []
            for d in sorted(defs, key=lambda d: (d.node.id, d.path)):
                t = self.def_term(d, depth + 1)
                if t not in ts:
                    ts.append(t)
            if len(ts) == 1:
                return ts[0]
            return mk_phi(ts)
        if name in self.locals:
            # a local that is unbound on this path
            return ("unk", "unbound:" + name)
        return self._free_name(name, depth)

    def _free_name(self, name, depth):
        # closure variable of an enclosing function?
        pf = self.parent_flow
        if pf is not None:
            if name in pf.locals:
                # flow-insensitive at the closure level: all definitions in the parent that can co-exist with
                # the definition of this closure (i.e. lie on a common path with it)
                ds = []
                for lst in pf.node_defs.values():
                    for d in lst:
                        if d.name == name:
                            ds.append(d)
                mine = [n for n in pf.cfg.nodes if n.kind == "def" and n.ast is self.fi.node]
                if mine and len(ds) > 1:
                    after = pf.cfg.reachable_from(mine[0])
                    keep = [d for d in ds if d.node.id in after or mine[0].id in pf.cfg.reachable_from(d.node)]
                    if keep:
                        ds = keep
                ts = []
                for d in sorted(ds, key=lambda d: (d.node.id, d.path)):
                    t = pf.def_term(d, depth + 1)
                    t = ("closure", t) if t[0] == "param" else t
                    if t not in ts:
                        ts.append(t)
                if len(ts) == 1:
                    return ts[0]
                return mk_phi(ts)
            return pf._free_name(name, depth)
        return global_term(self.model, self.fi.module, name)

    def _term(self, e, node, depth):
        d1 = depth + 1
        if isinstance(e, ast.Constant):
            return ("const", repr(e.value))
        if isinstance(e, ast.Name):
            if self._override is not None and e.id in self._override:
                return self._override[e.id]
            return self.name_term(e.id, node, d1)
        if isinstance(e, ast.Attribute):
            base = self.term(e.value, node, d1)
            if base[0] == "module":
                # canonicalise references into the package: icontract._checkers.f -> ('func', '_checkers.f')
                if base[1] == PKG and e.attr in self.model.modules:
                    return ("module", PKG + "." + e.attr)
                if base[1].startswith(PKG + ".") and base[1].split(".")[1] in self.model.modules:
                    m2 = self.model.modules[base[1].split(".")[1]]
                    g = global_term(self.model, m2, e.attr)
                    if g[0] in ("func", "class", "global"):
                        return g
            fld = record_field(self.model, base, e.attr)
            if fld is not None:
                return fld
            return ("attr", base, e.attr)
        if isinstance(e, ast.Subscript):
            return mk_idx(self.term(e.value, node, d1), self.term(e.slice, node, d1))
        if isinstance(e, ast.Await):
            return ("await", self.term(e.value, node, d1))
        if isinstance(e, ast.NamedExpr):
            return self.term(e.value, node, d1)
        if isinstance(e, ast.Starred):
            return ("star", self.term(e.value, node, d1))
        if isinstance(e, ast.Call):
            callee = self.term(e.func, node, d1)
            args = tuple(self.term(a, node, d1) for a in e.args)
            kwargs = tuple((kw.arg, self.term(kw.value, node, d1)) for kw in e.keywords)
            # getattr(x, "lit") / hasattr / setattr normalisation
            if callee == ("builtin", "getattr") and len(args) == 2 and not kwargs and args[1][0] == "const":
                try:
                    lit = ast.literal_eval(args[1][1])
                except Exception:
                    lit = None
                if isinstance(lit, str):
                    return ("attr", args[0], lit)
            # typing.cast(T, x) is the identity on x
            if callee in (("module", "typing.cast"), ("attr", ("module", "typing"), "cast")) and len(args) == 2 and not kwargs:
                return args[1]
            if any(isinstance(x, ast.Starred) for x in e.args):
                # f(*[a, b, c]) is f(a, b, c): the display written in place, or a local bound once to a display and only
                # iterated over besides (never handed on, never the receiver of a method)
                spread = []
                for x, a in zip(e.args, args):
                    if isinstance(x, ast.Starred) and a[1][0] == "display" and a[1][1] in ("tuple", "list") and not any(y[0] == "star" for y in a[1][2]) and (isinstance(x.value, (ast.List, ast.Tuple)) or (isinstance(x.value, ast.Name) and self._frozen_display(x.value.id))):
                        spread.extend(a[1][2])
                    else:
                        spread.append(a)
                args = tuple(spread)
            args, kwargs = normalise_args(self.model, callee, args, kwargs)
            return ("call", callee, args, kwargs, self.site(e))
        if isinstance(e, (ast.Tuple, ast.List, ast.Set)):
            kind = type(e).__name__.lower()
            return ("display", kind, tuple(self.term(x, node, d1) for x in e.elts), self.site(e))
        if isinstance(e, ast.Dict):
            elems = tuple(
                (self.term(k, node, d1) if k is not None else ("star",), self.term(v, node, d1)) for k, v in zip(e.keys, e.values)
            )
            return ("display", "dict", elems, self.site(e))
        if isinstance(e, ast.BinOp):
            return ("op", type(e.op).__name__, (self.term(e.left, node, d1), self.term(e.right, node, d1)))
        if isinstance(e, ast.UnaryOp):
            return ("op", type(e.op).__name__, (self.term(e.operand, node, d1),))
        if isinstance(e, ast.BoolOp):
            return ("op", type(e.op).__name__, tuple(self.term(v, node, d1) for v in e.values))
        if isinstance(e, ast.Compare):
            ops = "/".join(type(o).__name__ for o in e.ops)
            operands = (self.term(e.left, node, d1),) + tuple(self.term(c, node, d1) for c in e.comparators)
            if len(operands) == 2 and ops in ("Is", "IsNot", "Eq", "NotEq"):
                same = enum_members_equal(self.model, operands[0], operands[1])
                if same is not None:
                    return ("const", repr(same if ops in ("Is", "Eq") else not same))
            return ("op", "cmp:" + ops, operands)
        if isinstance(e, ast.IfExp):
            return ("op", "ifexp", (self.term(e.test, node, d1), self.term(e.body, node, d1), self.term(e.orelse, node, d1)))
        if isinstance(e, ast.Lambda):
            return ("lambda", self.site(e))
        if isinstance(e, (ast.ListComp, ast.SetComp, ast.GeneratorExp, ast.DictComp)):
            if isinstance(e, (ast.ListComp, ast.GeneratorExp)) and copies_each_element(e):
                # ``[x[:] for x in xs]``: the same sequence with every element copied
                return ("op", "each-copied", (self.term(e.generators[0].iter, node, d1),))
            return ("comp", type(e).__name__, self.site(e))
        if isinstance(e, ast.JoinedStr):
            return ("op", "fstring", tuple(self.term(v, node, d1) for v in e.values))
        if isinstance(e, ast.FormattedValue):
            return ("op", "fmt", (self.term(e.value, node, d1),))
        if isinstance(e, ast.Slice):
            return ("op", "slice", tuple(self.term(x, node, d1) if x is not None else ("const", "None") for x in (e.lower, e.upper, e.step)))
        return ("unk", src_of(e, 60))


def mk_phi(alts):
    """A phi of the distinct alternatives, nested phis flattened; a single alternative is itself."""
    flat = []

    def add(t):
        if t[0] == "phi":
            for x in t[1]:
                add(x)
        elif t not in flat:
            flat.append(t)

    for a in alts:
        add(a)
    if len(flat) == 1:
        return flat[0]
    return ("phi", tuple(sorted(flat, key=repr)))


def mk_idx(base, idx):
    """``base[idx]`` with tuple/list displays and phis of them folded: (a, b)[0] -> a."""
    if idx[0] == "const":
        try:
            i = int(idx[1])
        except Exception:
            i = None
        if i is not None:
            if base[0] == "display" and base[1] in ("tuple", "list") and -len(base[2]) <= i < len(base[2]) and not any(x[0] == "star" for x in base[2]):
                return base[2][i]
            if base[0] == "phi":
                alts = []
                for a in base[1]:
                    if a == ("const", "None"):
                        continue  # the initial ``_ret = None`` of an inlined helper
                    r = mk_idx(a, idx)
                    if r not in alts:
                        alts.append(r)
                if alts and all(not (r[0] == "idx" and r[2] == idx) for r in alts):
                    return mk_phi(alts)
    return ("idx", base, idx)


def copies_each_element(e):
    """``[g[:] for g in X]`` / ``list(g)`` / ``g.copy()`` / ``[*g]`` / ``g + []`` per element, no filter."""
    if not (len(e.generators) == 1 and isinstance(e.generators[0].target, ast.Name) and not e.generators[0].ifs and not e.generators[0].is_async):
        return False
    v = e.generators[0].target.id
    elt = e.elt
    is_v = lambda x: isinstance(x, ast.Name) and x.id == v
    if isinstance(elt, ast.Subscript) and is_v(elt.value) and isinstance(elt.slice, ast.Slice) and elt.slice.lower is None and elt.slice.upper is None and elt.slice.step is None:
        return True
    if isinstance(elt, ast.Call) and isinstance(elt.func, ast.Name) and elt.func.id == "list" and len(elt.args) == 1 and not elt.keywords and is_v(elt.args[0]):
        return True
    if isinstance(elt, ast.Call) and isinstance(elt.func, ast.Attribute) and elt.func.attr == "copy" and is_v(elt.func.value) and not elt.args and not elt.keywords:
        return True
    if isinstance(elt, ast.List) and len(elt.elts) == 1 and isinstance(elt.elts[0], ast.Starred) and is_v(elt.elts[0].value):
        return True
    if isinstance(elt, ast.BinOp) and isinstance(elt.op, ast.Add) and is_v(elt.left) and isinstance(elt.right, ast.List) and not elt.right.elts:
        return True
    return False


def uncopied(t):
    """``t`` with the element-wise copies (``each-copied``) looked through: the same elements up to copying."""
    if not isinstance(t, tuple) or not t:
        return t
    if t[0] == "op" and t[1] == "each-copied":
        return uncopied(t[2][0])
    return tuple(uncopied(x) if isinstance(x, tuple) else x for x in t)


def enum_members_equal(model, a, b):
    """Both terms name members of one ``enum.Enum`` class of the package with pairwise distinct literal values:
    True / False for same / different member; None when that is not the situation."""
    if not (a[0] == "attr" and b[0] == "attr" and a[1] == b[1] and a[1][0] == "class" and a[1][1] in model.modules):
        return None
    cd = model.modules[a[1][1]].classes.get(a[1][2])
    if cd is None or not any((isinstance(x, ast.Name) and x.id in ("Enum", "IntEnum", "Flag")) or (isinstance(x, ast.Attribute) and x.attr in ("Enum", "IntEnum")) for x in cd.bases):
        return None
    members = {}
    for st in cd.body:
        if isinstance(st, ast.Assign) and len(st.targets) == 1 and isinstance(st.targets[0], ast.Name) and isinstance(st.value, ast.Constant):
            members[st.targets[0].id] = repr(st.value.value)
    if a[2] not in members or b[2] not in members or len(set(members.values())) != len(members):
        return None
    return a[2] == b[2]


def record_fields(model, cls_term):
    """Field names of a ``typing.NamedTuple`` class of the package (in order), or None."""
    if cls_term[0] != "class" or cls_term[1] not in model.modules:
        return None
    cd = model.modules[cls_term[1]].classes.get(cls_term[2])
    if cd is None or not any((isinstance(b, ast.Name) and b.id == "NamedTuple") or (isinstance(b, ast.Attribute) and b.attr == "NamedTuple") for b in cd.bases):
        return None
    return [st.target.id for st in cd.body if isinstance(st, ast.AnnAssign) and isinstance(st.target, ast.Name)]


def record_field(model, base, attr=None, index=None):
    """``Record(a=x, b=y).a`` / ``Record(x, y)[0]`` of a NamedTuple class of the package -> the argument's term.

    A small record passed between two halves of a split function is not a change of behaviour for the rules."""
    alts = base[1] if base[0] == "phi" else (base,)
    out = []
    for a in alts:
        if a == ("const", "None"):
            continue  # the initial ``_ret = None`` of an inlined helper
        if a[0] != "call" or a[1][0] != "class":
            return None
        fields = record_fields(model, a[1])
        if fields is None:
            return None
        bound = {}
        for name, v in zip(fields, a[2]):
            bound[name] = v
        for k, v in a[3]:
            bound[k] = v
        if attr is None:
            if index is None or not (0 <= index < len(fields)):
                return None
            attr_ = fields[index]
        else:
            attr_ = attr
        if attr_ not in bound:
            return None
        if bound[attr_] not in out:
            out.append(bound[attr_])
    if not out:
        return None
    return mk_phi(out)


def global_term(model, mod, name):
    for f in mod.funcs:
        if f.parent is None and f.cls is None and f.name == name and f.live:
            return ("func", f.qual)
    if name in mod.classes:
        return ("class", mod.name, name)
    if name in mod.imports:
        target = mod.imports[name]
        parts = target.split(".")
        if parts[0] == PKG and len(parts) == 3 and parts[1] in model.modules:
            m2 = model.modules[parts[1]]
            for f in m2.funcs:
                if f.parent is None and f.cls is None and f.name == parts[2] and f.live:
                    return ("func", f.qual)
            if parts[2] in m2.classes:
                return ("class", parts[1], parts[2])
            return ("global", parts[1], parts[2])
        return ("module", target)
    if name in mod.assigns:
        # a module-level constant bound once to a literal (tuple/list/set of constants or of dotted names, a string,
        # a number) is replaced by its value: moving a literal into a named constant is not a change for the rules
        vals = mod.assigns[name]
        if len(vals) == 1 and is_constant_global(mod, name):
            ct = module_expr_term(model, mod, vals[0])
            if ct is not None:
                return ct
        return ("global", mod.name, name)
    if hasattr(_builtins, name):
        return ("builtin", name)
    return ("unk", "free:" + name)


_MUTATORS = ("append", "extend", "insert", "remove", "pop", "clear", "sort", "reverse", "update", "add", "discard", "setdefault", "popitem", "__setitem__", "__delitem__")


def is_constant_global(mod, name):
    """A module-level name bound once to an immutable literal, or to a NON-EMPTY list/dict/set literal that no code
    of the module mutates or rebinds (a lookup table).  Empty containers are never constants: they exist to be filled."""
    vals = mod.assigns.get(name, [])
    if len(vals) != 1:
        return False
    v = vals[0]
    mutable = isinstance(v, (ast.List, ast.Dict, ast.Set)) or (isinstance(v, ast.Call) and isinstance(v.func, ast.Name) and v.func.id in ("list", "dict", "set"))
    if not mutable:
        return True
    if isinstance(v, ast.Call):
        return False
    size = len(v.keys) if isinstance(v, ast.Dict) else len(v.elts)
    if size == 0:
        return False
    for sub in ast.walk(mod.tree):
        if isinstance(sub, (ast.Global, ast.Nonlocal)) and name in sub.names:
            return False
        if isinstance(sub, ast.Subscript) and isinstance(sub.ctx, (ast.Store, ast.Del)) and isinstance(sub.value, ast.Name) and sub.value.id == name:
            return False
        if isinstance(sub, ast.Call) and isinstance(sub.func, ast.Attribute) and isinstance(sub.func.value, ast.Name) and sub.func.value.id == name and sub.func.attr in _MUTATORS:
            return False
        if isinstance(sub, ast.AugAssign) and isinstance(sub.target, ast.Name) and sub.target.id == name:
            return False
    return True


def module_expr_term(model, mod, e, depth=0):
    """Term of a module-level *literal* expression, or None if the expression is not a plain literal."""
    if depth > 4:
        return None
    if isinstance(e, ast.Constant):
        return ("const", repr(e.value))
    if isinstance(e, (ast.Tuple, ast.List, ast.Set)):
        elems = []
        for x in e.elts:
            t = module_expr_term(model, mod, x, depth + 1)
            if t is None:
                return None
            elems.append(t)
        # displays of literals compare by content: a fixed pseudo-site
        return ("display", type(e).__name__.lower() if not isinstance(e, ast.Tuple) else "tuple", tuple(elems), ("<const>", 0, 0))
    if isinstance(e, ast.Dict):
        elems = []
        for k_, v_ in zip(e.keys, e.values):
            if k_ is None:
                return None
            kt = module_expr_term(model, mod, k_, depth + 1)
            vt = module_expr_term(model, mod, v_, depth + 1)
            if kt is None or vt is None:
                return None
            elems.append((kt, vt))
        return ("display", "dict", tuple(elems), ("<const>", 0, 0))
    if isinstance(e, ast.Lambda):
        return ("lambda", (mod.name, e.lineno, e.col_offset))
    if isinstance(e, ast.Call) and isinstance(e.func, ast.Name) and e.func.id in ("frozenset", "tuple", "set", "list") and len(e.args) == 1 and not e.keywords:
        inner = module_expr_term(model, mod, e.args[0], depth + 1)
        if inner is not None and inner[0] == "display":
            return ("display", "tuple", inner[2], ("<const>", 0, 0))
        return None
    if isinstance(e, ast.Attribute):
        # dotted constant such as inspect.Parameter.KEYWORD_ONLY / ast.Add
        parts = []
        cur = e
        while isinstance(cur, ast.Attribute):
            parts.append(cur.attr)
            cur = cur.value
        if isinstance(cur, ast.Name) and cur.id in mod.imports and not mod.imports[cur.id].startswith(PKG):
            t = ("module", mod.imports[cur.id])
            for a in reversed(parts):
                t = ("attr", t, a)
            return t
        # a member of a class of the package (an enumeration member bound to a module-level name)
        if isinstance(cur, ast.Name) and (cur.id in mod.classes or cur.id in mod.imports):
            t = global_term(model, mod, cur.id)
            if t[0] == "class":
                for a in reversed(parts):
                    t = ("attr", t, a)
                return t
        return None
    if isinstance(e, ast.Name) and e.id in mod.assigns and len(mod.assigns[e.id]) == 1:
        return module_expr_term(model, mod, mod.assigns[e.id][0], depth + 1)
    if isinstance(e, ast.Name):
        # a module-level function or class of the package named in a literal table
        for f in mod.funcs:
            if f.parent is None and f.cls is None and f.name == e.id and f.live:
                return ("func", f.qual)
        if e.id in mod.classes:
            return ("class", mod.name, e.id)
    return None


def normalise_args(model, callee, args, kwargs):
    """Bind positional arguments to parameter names when the callee is a known package function.

    The result has no positional arguments for the bound prefix: ``f(a, b)`` and ``f(x=a, y=b)`` give the same
    term.  Unknown callees are left as they are.
    """
    fi = None
    if callee[0] == "func":
        fi = model.functions.get(callee[1])
    elif callee[0] == "attr" and callee[1][0] == "module" and callee[1][1].startswith(PKG + "."):
        modname = callee[1][1].split(".")[1]
        if modname in model.modules:
            for f in model.modules[modname].funcs:
                if f.parent is None and f.cls is None and f.name == callee[2] and f.live:
                    fi = f
    if fi is None or any(a[0] == "star" for a in args) or any(k is None for k, _ in kwargs):
        return args, kwargs
    a = fi.node.args
    names = [x.arg for x in a.posonlyargs + a.args]
    if len(args) > len(names):
        return args, kwargs
    bound = [(names[i], t) for i, t in enumerate(args)] + list(kwargs)
    return (), tuple(sorted(bound, key=lambda kv: kv[0]))


# ---------------------------------------------------------------------- term utilities
def strip_sites(t):
    """Remove call/display sites from a term (for comparing values irrespective of where they are computed)."""
    if not isinstance(t, tuple):
        return t
    if t and t[0] == "call":
        return ("call", strip_sites(t[1]), tuple(strip_sites(x) for x in t[2]), tuple((k, strip_sites(v)) for k, v in t[3]))
    if t and t[0] == "display":
        return ("display", t[1], tuple(strip_sites(x) for x in t[2]))
    if t and t[0] in ("lambda", "comp", "exc"):
        return (t[0],)
    return tuple(strip_sites(x) for x in t)


def subterms(t):
    if not isinstance(t, tuple):
        return
    if t and isinstance(t[0], str):
        yield t
    for x in t:
        if isinstance(x, tuple):
            for s in subterms(x):
                yield s


def mentions(t, sub):
    return any(s == sub for s in subterms(t))


def show(t, limit=160):
    """Human-readable rendering of a term."""
    s = _show(t)
    return s if len(s) <= limit else s[: limit - 3] + "..."


def _show(t):
    if not isinstance(t, tuple) or not t:
        return repr(t)
    k = t[0]
    if k == "param":
        return t[1]
    if k == "closure":
        return _show(t[1]) + "^"
    if k == "const":
        return t[1]
    if k == "attr":
        return "%s.%s" % (_show(t[1]), t[2])
    if k == "idx":
        return "%s[%s]" % (_show(t[1]), _show(t[2]))
    if k == "elem":
        return "elem(%s)" % _show(t[1])
    if k == "await":
        return "await %s" % _show(t[1])
    if k == "call":
        args = [_show(a) for a in t[2]] + ["%s=%s" % (kk, _show(v)) for kk, v in t[3]]
        return "%s(%s)" % (_show(t[1]), ", ".join(args))
    if k == "phi":
        return "phi(%s)" % " | ".join(_show(x) for x in t[1])
    if k == "op":
        return "%s(%s)" % (t[1], ", ".join(_show(x) for x in t[2]))
    if k == "display":
        if t[1] == "dict":
            return "{%s}" % ", ".join("%s: %s" % (_show(a), _show(b)) for a, b in t[2])
        return "%s[%s]" % (t[1], ", ".join(_show(x) for x in t[2]))
    if k == "func":
        return t[1].split(".", 1)[1] if "." in t[1] else t[1]
    if k == "class":
        return "%s.%s" % (t[1], t[2])
    if k == "global":
        return "%s.%s" % (t[1], t[2])
    if k in ("module", "builtin"):
        return t[1]
    if k == "star":
        return "*" + (_show(t[1]) if len(t) > 1 else "")
    if k == "unk":
        return "?" + t[1]
    return "%s" % (k,)


_FLOWS = {}


def get_flow(model, fi):
    flows = model.__dict__.setdefault("_flows", {})  # on the model object itself: an id() key could be reused
    fl = flows.get(fi.qual)
    if fl is None:
        fl = Flow(model, fi)
        flows[fi.qual] = fl
    return fl


def clear_flows():
    _FLOWS.clear()
