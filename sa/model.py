"""E1 -- program model: modules, functions (incl. nested closures), guards, anchors.

The model is rebuilt from the source on every run.  ``overlay`` maps a module file name
(e.g. ``_checkers.py``) to replacement source text; it is how the self-audit analyses variants of the
tree without touching the disk.
"""
import ast
import hashlib
import os
import sys

REPO = os.environ.get("VERIF_REPO", "/repo")
PKG = "icontract"
MODULES = [
    "__init__",
    "_checkers",
    "_decorators",
    "_globals",
    "_metaclass",
    "_recompute",
    "_represent",
    "_types",
    "errors",
]


class AnalysisError(Exception):
    """The analysis cannot decide: an anchor vanished or an idiom is not recognised (exit code 2)."""


def src_of(node, limit=None):
    """Normalised source of an AST node (``ast.unparse``: independent of layout and comments)."""
    try:
        text = ast.unparse(node)
    except Exception:  # pragma: no cover
        text = "<%s>" % type(node).__name__
    if limit is not None and len(text) > limit:
        text = text[: limit - 3] + "..."
    return text


def first_line(node, limit=110):
    text = src_of(node).split("\n")[0]
    return text if len(text) <= limit else text[: limit - 3] + "..."


class FuncInfo:
    """A function definition (module level, method, or nested closure)."""

    def __init__(self, module, node, parent, cls, guards, live):
        self.module = module  # ModuleInfo
        self.node = node
        self.parent = parent  # enclosing FuncInfo or None
        self.cls = cls  # enclosing ast.ClassDef or None
        self.guards = guards  # list of (test ast, arm bool) of enclosing ``if`` statements (inside parent)
        self.live = live  # False if under a sys.version_info guard that is false for the running interpreter
        self.is_async = isinstance(node, ast.AsyncFunctionDef)
        self.name = node.name
        self.tag = None
        self.qual = None  # filled by the model
        self.children = []  # nested FuncInfo

    @property
    def lineno(self):
        return self.node.lineno

    @property
    def params(self):
        a = self.node.args
        names = [x.arg for x in a.posonlyargs + a.args]
        if a.vararg:
            names.append(a.vararg.arg)
        names += [x.arg for x in a.kwonlyargs]
        if a.kwarg:
            names.append(a.kwarg.arg)
        return names

    def loc(self, node=None):
        ln = getattr(node, "lineno", None) if node is not None else self.node.lineno
        return "%s/%s.py:%s" % (PKG, self.module.name, ln if ln is not None else "?")

    def __repr__(self):
        return "<Func %s>" % self.qual


class ModuleInfo:
    def __init__(self, name, path, src, tree=None):
        self.name = name
        self.path = path
        self.src = src
        self.tree = tree if tree is not None else ast.parse(src, filename=path)
        self.inlined = []
        try:
            from . import inline

            self.tree, self.inlined = inline.apply(self.tree, name)
        except RecursionError:  # pragma: no cover
            self.tree = ast.parse(src, filename=path)
        self.digest = hashlib.sha256(src.encode("utf-8")).hexdigest()[:16]
        self.funcs = []  # all FuncInfo (any depth)
        self.classes = {}  # name -> ClassDef (module level; live arm preferred)
        self.imports = {}  # local name -> dotted module/object path
        self.assigns = {}  # module-level name -> list of value asts


def _eval_version_guard(test):
    """Evaluate ``sys.version_info <op> (a, b)`` for the running interpreter; None if not such a test."""
    if not isinstance(test, ast.Compare) or len(test.ops) != 1:
        return None
    left, op, right = test.left, test.ops[0], test.comparators[0]
    if src_of(left) != "sys.version_info":
        return None
    try:
        tup = ast.literal_eval(right)
    except Exception:
        return None
    if not isinstance(tup, tuple):
        return None
    cur = tuple(sys.version_info[: len(tup)])
    # compare as CPython does for tuples of different length: version_info (3,12,1,..) vs (3,8)
    full = tuple(sys.version_info[:3])
    if isinstance(op, ast.Lt):
        return full < tup
    if isinstance(op, ast.LtE):
        return full <= tup
    if isinstance(op, ast.Gt):
        return full > tup
    if isinstance(op, ast.GtE):
        return full >= tup
    if isinstance(op, ast.Eq):
        return cur == tup
    return None


class Model:
    def __init__(self, root=None, overlay=None):
        self.root = root or REPO
        self.overlay = overlay or {}
        self.modules = {}
        self.functions = {}
        sources, trees = {}, {}
        for name in MODULES:
            fname = name + ".py"
            path = os.path.join(self.root, PKG, fname)
            if fname in self.overlay:
                src = self.overlay[fname]
            else:
                if not os.path.exists(path):
                    raise AnalysisError("module %s is missing (%s)" % (name, path))
                with open(path, "r", encoding="utf-8") as fid:
                    src = fid.read()
            try:
                trees[name] = ast.parse(src, filename=path)
            except SyntaxError as err:
                raise AnalysisError("module %s does not parse: %s" % (name, err))
            sources[name] = (path, src)
        from . import flatten, renames, simplify

        # methods inherited from private in-module base classes are analysed as methods of the subclass
        self.flattened = []
        for name in MODULES:
            self.flattened += ["%s.%s" % (name, x) for x in flatten.apply(trees[name])]
        # anchors found under a new name are analysed under the name the rules know
        self.renamed = renames.apply(trees)
        # equivalent spellings (leading walrus, isinstance with a tuple, any/all over constants, conditional expressions)
        self.simplified = {name: simplify.apply(trees[name]) for name in MODULES}
        for name in MODULES:
            path, src = sources[name]
            mod = ModuleInfo(name, path, src, trees[name])
            self.modules[name] = mod
            self._index(mod)
        self._qualify()

    # ------------------------------------------------------------------ indexing
    def _index(self, mod):
        def visit_body(body, parent, cls, guards, live):
            for st in body:
                if isinstance(st, (ast.FunctionDef, ast.AsyncFunctionDef)):
                    fi = FuncInfo(mod, st, parent, cls, list(guards), live)
                    mod.funcs.append(fi)
                    if parent is not None:
                        parent.children.append(fi)
                    visit_body(st.body, fi, None, [], live)
                elif isinstance(st, ast.ClassDef):
                    if parent is None and cls is None:
                        if live or st.name not in mod.classes:
                            mod.classes[st.name] = st
                    visit_body(st.body, parent, st, guards, live)
                elif isinstance(st, ast.If):
                    ver = _eval_version_guard(st.test)
                    visit_body(st.body, parent, cls, guards + [(st.test, True)], live and (ver is not False))
                    visit_body(st.orelse, parent, cls, guards + [(st.test, False)], live and (ver is not True))
                elif isinstance(st, (ast.For, ast.AsyncFor, ast.While)):
                    visit_body(st.body, parent, cls, guards, live)
                    visit_body(st.orelse, parent, cls, guards, live)
                elif isinstance(st, ast.Try):
                    visit_body(st.body, parent, cls, guards, live)
                    for h in st.handlers:
                        visit_body(h.body, parent, cls, guards, live)
                    visit_body(st.orelse, parent, cls, guards, live)
                    visit_body(st.finalbody, parent, cls, guards, live)
                elif isinstance(st, (ast.With, ast.AsyncWith)):
                    visit_body(st.body, parent, cls, guards, live)
                elif parent is None and cls is None:
                    if isinstance(st, ast.Import):
                        for al in st.names:
                            mod.imports[al.asname or al.name.split(".")[0]] = al.name if al.asname else al.name.split(".")[0]
                    elif isinstance(st, ast.ImportFrom):
                        for al in st.names:
                            mod.imports[al.asname or al.name] = "%s.%s" % (st.module, al.name)
                    elif isinstance(st, ast.Assign):
                        for t in st.targets:
                            if isinstance(t, ast.Name):
                                mod.assigns.setdefault(t.id, []).append(st.value)
                    elif isinstance(st, ast.AnnAssign) and isinstance(st.target, ast.Name) and st.value is not None:
                        mod.assigns.setdefault(st.target.id, []).append(st.value)

        visit_body(mod.tree.body, None, None, [], True)

    def _qualify(self):
        for mod in self.modules.values():
            groups = {}
            for fi in mod.funcs:
                base = []
                p = fi
                while p is not None:
                    seg = p.name
                    if p.cls is not None:
                        seg = p.cls.name + "." + seg
                    base.append((p, seg))
                    p = p.parent
                base.reverse()
                fi._segs = base
                key = (id(fi.parent), fi.cls.name if fi.cls else None, fi.name)
                groups.setdefault(key, []).append(fi)
            for key, fis in groups.items():
                if len(fis) == 1:
                    continue
                for fi in fis:
                    tags = []
                    for test, arm in fi.guards:
                        t = src_of(test)
                        if t == "is_init" and arm:
                            tags.append("init")
                    if "init" not in tags:
                        if _has_version_guard(fi):
                            tags.append("live" if fi.live else "dead")
                        else:
                            tags.append("async" if fi.is_async else "sync")
                    fi.tag = ",".join(tags)
            for fi in mod.funcs:
                segs = []
                for p, seg in fi._segs:
                    segs.append(seg + ("[%s]" % p.tag if p.tag else ""))
                fi.qual = mod.name + "." + ".".join(segs)
                if fi.qual in self.functions:
                    # two definitions under one name (e.g. both arms of an unrecognised guard): keep both
                    n = 2
                    while "%s#%d" % (fi.qual, n) in self.functions:
                        n += 1
                    fi.qual = "%s#%d" % (fi.qual, n)
                self.functions[fi.qual] = fi

    # ------------------------------------------------------------------ lookup
    def func(self, qual, required=True):
        fi = self.functions.get(qual)
        if fi is None and required:
            raise AnalysisError("anchor not found: function %s" % qual)
        return fi

    def funcs_named(self, module, name):
        return [f for f in self.modules[module].funcs if f.name == name]

    def cls(self, module, name, required=True):
        c = self.modules[module].classes.get(name)
        if c is None and required:
            raise AnalysisError("anchor not found: class %s.%s" % (module, name))
        return c

    def method(self, module, clsname, name, required=True, live=True):
        for f in self.modules[module].funcs:
            if f.cls is not None and f.cls.name == clsname and f.name == name and f.parent is None:
                if live and not f.live:
                    continue
                return f
        if required:
            raise AnalysisError("anchor not found: method %s.%s.%s" % (module, clsname, name))
        return None

    def methods(self, module, clsname, live_only=True):
        return [
            f
            for f in self.modules[module].funcs
            if f.cls is not None and f.cls.name == clsname and f.parent is None and (f.live or not live_only)
        ]

    def digest(self):
        h = hashlib.sha256()
        for name in MODULES:
            h.update(self.modules[name].digest.encode())
        return h.hexdigest()[:16]


def _has_version_guard(fi):
    return any(_eval_version_guard(test) is not None for test, _ in fi.guards)


def resolve_callee(model, fi, func_expr):
    """Resolve the callee expression of a call inside ``fi`` to a FuncInfo of the package, if it names one.

    Handles bare names (module functions, nested siblings are *not* resolved here), ``icontract._mod.f`` and
    ``self.m`` inside a class.  Returns None for anything else (foreign / dynamic callee).
    """
    text = src_of(func_expr)
    mod = fi.module
    if isinstance(func_expr, ast.Name):
        # nested function of an enclosing function?
        p = fi
        while p is not None:
            for ch in p.children:
                if ch.name == func_expr.id and ch.live:
                    return ch
            p = p.parent
        cands = [f for f in mod.funcs if f.parent is None and f.cls is None and f.name == func_expr.id and f.live]
        if cands:
            return cands[0]
        target = mod.imports.get(func_expr.id)
        if target and target.startswith(PKG + "."):
            parts = target.split(".")
            if len(parts) == 3 and parts[1] in model.modules:
                m2 = model.modules[parts[1]]
                cands = [f for f in m2.funcs if f.parent is None and f.cls is None and f.name == parts[2] and f.live]
                if cands:
                    return cands[0]
        return None
    if text.startswith(PKG + "."):
        parts = text.split(".")
        if len(parts) == 3 and parts[1] in model.modules:
            m2 = model.modules[parts[1]]
            cands = [f for f in m2.funcs if f.parent is None and f.cls is None and f.name == parts[2] and f.live]
            if cands:
                return cands[0]
        return None
    if isinstance(func_expr, ast.Attribute) and isinstance(func_expr.value, ast.Name) and func_expr.value.id == "self":
        c = fi
        while c is not None and c.cls is None:
            c = c.parent
        if c is not None:
            for f in mod.funcs:
                if f.cls is c.cls and f.name == func_expr.attr and f.parent is None and f.live:
                    return f
    return None


def resolve_class(model, fi, expr):
    """Resolve an expression naming a class of the package (``Contract``, ``icontract._types.Invariant``)."""
    text = src_of(expr)
    mod = fi.module if isinstance(fi, FuncInfo) else fi
    if isinstance(expr, ast.Name):
        if expr.id in mod.classes:
            return (mod.name, expr.id)
        target = mod.imports.get(expr.id)
        if target and target.startswith(PKG + "."):
            parts = target.split(".")
            if len(parts) == 3 and parts[1] in model.modules and parts[2] in model.modules[parts[1]].classes:
                return (parts[1], parts[2])
        return None
    if text.startswith(PKG + "."):
        parts = text.split(".")
        if len(parts) == 3 and parts[1] in model.modules and parts[2] in model.modules[parts[1]].classes:
            return (parts[1], parts[2])
    return None
