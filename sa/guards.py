"""Guard analysis: which facts are known on the true / false edge of a test node, and reachability queries over
the CFG with edges removed according to such facts (necessity / sufficiency of guards, T-gate).

An *atom* is a value term; a *fact* is (atom, polarity) meaning "the value is truthy / falsy (None, empty)".
``x is not None`` and ``len(x) > 0`` are normalised to (x, True); ``x is None`` / ``len(x) == 0`` / ``not x`` to
(x, False).
"""
import ast

from .flow import strip_sites


def _norm_atom(t):
    return t


def facts(t):
    """Return (known_on_true, known_on_false, atoms) for a test term.

    known_on_true: set of (atom, polarity) that certainly hold when the test is true; same for false.
    atoms: every atom the test's outcome depends on.
    """
    if t[0] == "op":
        name, ops = t[1], t[2]
        if name == "Not":
            kt, kf, at = facts(ops[0])
            return kf, kt, at
        if name in ("And", "Or"):
            # operands that are literal constants (flags of inlined helpers) do not take part in the decision
            neutral = ("const", "True") if name == "And" else ("const", "False")
            ops = tuple(o for o in ops if o != neutral)
            if len(ops) == 1:
                return facts(ops[0])
            if not ops:
                return set(), set(), set()
        if name == "And":
            kt, atoms = set(), set()
            parts = [facts(o) for o in ops]
            for a, b, c in parts:
                kt |= a
                atoms |= c
            kf = parts[0][1] if len(parts) == 1 else set()
            return kt, kf, atoms
        if name == "Or":
            kf, atoms = set(), set()
            parts = [facts(o) for o in ops]
            for a, b, c in parts:
                kf |= b
                atoms |= c
            kt = parts[0][0] if len(parts) == 1 else set()
            return kt, kf, atoms
        if name.startswith("cmp:") and len(ops) == 2:
            op = name[4:]
            left, right = ops
            if right == ("const", "None") and op in ("IsNot", "NotEq"):
                return {(left, True)}, {(left, False)}, {left}
            if right == ("const", "None") and op in ("Is", "Eq"):
                return {(left, False)}, {(left, True)}, {left}
            # negative comparison operators are the negation of the positive ones: one atom for both spellings
            NEG = {"NotIn": "In", "NotEq": "Eq", "IsNot": "Is"}
            if op in NEG and not (right == ("const", "None")):
                kt, kf, at = facts(("op", "cmp:" + NEG[op], ops))
                return kf, kt, at
            # len(x) <op> const
            if left[0] == "call" and left[1] == ("builtin", "len") and len(left[2]) == 1 and right[0] == "const":
                x = left[2][0]
                try:
                    c = int(right[1])
                except Exception:
                    c = None
                if c is not None:
                    if (op == "Gt" and c == 0) or (op == "GtE" and c == 1) or (op == "NotEq" and c == 0):
                        return {(x, True)}, {(x, False)}, {x}
                    if (op == "Eq" and c == 0) or (op == "Lt" and c == 1) or (op == "LtE" and c == 0):
                        return {(x, False)}, {(x, True)}, {x}
    if t[0] == "call" and t[1] == ("builtin", "bool") and len(t[2]) == 1 and not t[3]:
        return facts(t[2][0])
    return {(t, True)}, {(t, False)}, {t}


class GuardGraph:
    """CFG of one function with the facts known on the out-edges of its test nodes."""

    def __init__(self, flow):
        self.flow = flow
        self.cfg = flow.cfg
        self.edge_facts = {}  # (node id, edge kind) -> (known facts set, atoms of the test)
        for n in self.cfg.nodes:
            if n.kind == "test" and n.ast is not None:
                t = flow.term(n.ast, n)
                kt, kf, atoms = facts(t)
                self.edge_facts[(n.id, "T")] = (kt, atoms)
                self.edge_facts[(n.id, "F")] = (kf, atoms)
        # ``try: x = table[key]`` / ``except KeyError:`` -- the handler runs exactly when the key is not in the table
        # (EAFP spelling of ``if key in table: ... else: ...``): that fact is known on the way into the handler
        for n in self.cfg.nodes:
            if n.kind != "handler" or getattr(n, "handler_of", None) is None:
                continue
            h, tr = n.handler_of, n.stmt
            if not (isinstance(tr, ast.Try) and len(tr.body) == 1 and len(tr.handlers) == 1 and isinstance(h.type, ast.Name) and h.type.id == "KeyError"):
                continue
            st = tr.body[0]
            val = getattr(st, "value", None)
            if not (isinstance(st, (ast.Assign, ast.AnnAssign, ast.Return, ast.Expr)) and isinstance(val, ast.Subscript) and isinstance(val.ctx, ast.Load)):
                continue
            simple = lambda e: isinstance(e, ast.Name) or (isinstance(e, ast.Attribute) and simple(e.value))
            if not (simple(val.value) and simple(val.slice)):
                continue
            at = [x for x in self.cfg.nodes if x.stmt is st and x.ast is not None]
            if not at:
                continue
            atom = ("op", "cmp:In", (flow.term(val.slice, at[0]), flow.term(val.value, at[0])))
            self.edge_facts[(n.id, "n")] = ({(atom, False)}, {atom})

    def known(self, node, kind):
        return self.edge_facts.get((node.id, kind), (set(), set()))

    def reach(self, starts, drop_edge=None, stop=None, follow_exc=True):
        """Node ids reachable from ``starts``; ``drop_edge(node, kind, target)`` True removes the edge."""
        seen = set()
        stack = list(starts)
        stop = stop or set()
        while stack:
            n = stack.pop()
            if n.id in seen:
                continue
            seen.add(n.id)
            if n.id in stop:
                continue
            for kind, tgt in n.succ:
                if not follow_exc and kind in ("exc", "unmatched"):
                    continue
                if drop_edge is not None and drop_edge(n, kind, tgt):
                    continue
                stack.append(tgt)
        return seen

    # ------------------------------------------------------------------ queries
    def edges_where(self, fact):
        """Edges (node, kind) on which ``fact`` is known."""
        return [(nid, k) for (nid, k), (kn, _) in self.edge_facts.items() if fact in kn]

    def necessary(self, start_nodes, target_ids, fact, follow_exc=False):
        """Is ``fact`` necessary to get from ``start_nodes`` to any of ``target_ids``?

        True iff every path passes an edge on which ``fact`` is known, i.e. the targets are unreachable once
        those edges are removed.
        """
        drop = set(self.edges_where(fact))
        seen = self.reach(start_nodes, lambda n, k, t: (n.id, k) in drop, None, follow_exc)
        return not (seen & set(target_ids))

    def sufficient(self, start_nodes, via_ids, after_ids, required_facts, follow_exc=False):
        """Given all ``required_facts``, does every (non-exceptional) path from start reach ``via`` before ``after``?

        Edges that contradict a required fact are removed; an edge of a test that also depends on other atoms is
        kept (the other atom may decide it).  True iff ``after`` is unreachable without passing ``via``.
        """
        req = dict(required_facts)  # atom -> polarity

        def drop(n, k, t):
            kn, atoms = self.known(n, k)
            for atom, pol in kn:
                if atom in req and req[atom] != pol:
                    return True
            # an edge taken only when "some conjunct is falsy": removable iff all atoms of the test are required
            if n.kind == "test" and (n.id, k) in self.edge_facts and not kn and atoms:
                other = (n.id, "T" if k == "F" else "F")
                okn, _ = self.edge_facts.get(other, (set(), set()))
                if okn and all(a in req and req[a] == p for a, p in okn) and all(a in req for a in atoms):
                    return True
            return False

        seen = self.reach(start_nodes, drop, set(via_ids), follow_exc)
        return not (seen & set(after_ids))


def normal_succ(node):
    return [t for k, t in node.succ if k not in ("exc", "unmatched")]
