"""Static analysis of Parquery/icontract for the properties C01-C20 (see /verif/DESIGN.md).

Nothing in this package imports or executes code of the analysed repository: every verdict is computed
from the source text of ``<repo>/icontract/*.py`` (or an in-memory overlay of it, for the self-audit).
"""
