"""E4/E5 -- repo-specific event labelling and callee summaries.

Events are assigned to CFG nodes by the *resolved role* of the values involved (terms of ``flow.py``), never by
the spelling of local variables:

* BODY      call of the factory's decorated-function parameter with the wrapper's own ``*args, **kwargs``
* PRE/POST/SNAP  call that hands the wrapper's live ``__preconditions__`` / ``__postconditions__`` /
  ``__postcondition_snapshots__`` list to a callee whose summary evaluates conditions / captures on it
* INV       call of a callee that evaluates ``<param>.condition`` with an element of an invariant list
* marker operations on the context variable (TEST / ACQUIRE / REMOVE / RESTORE / GET)
"""
import ast

from .cfg import eval_order
from .flow import get_flow, mentions, mk_phi, show, strip_sites, subterms
from .model import AnalysisError, src_of

DUNDERS_CHECKER = ("__preconditions__", "__postcondition_snapshots__", "__postconditions__")
DUNDERS_INV = ("__invariants__", "__invariants_on_call__", "__invariants_on_setattr__")


# ---------------------------------------------------------------------- context variables
def context_vars(model):
    """Module-level names bound to ``contextvars.ContextVar(...)`` -> {('global', mod, name): default-expr}."""
    out = {}
    for mod in model.modules.values():
        for name, values in mod.assigns.items():
            for v in values:
                if isinstance(v, ast.Call) and src_of(v.func) in ("contextvars.ContextVar", "ContextVar"):
                    default = None
                    for kw in v.keywords:
                        if kw.arg == "default":
                            default = kw.value
                    out[("global", mod.name, name)] = default
    return out


def module_level_mutables(model):
    """Module-level names bound to mutable containers / thread-locals (candidates for shared state)."""
    out = {}
    for mod in model.modules.values():
        for name, values in mod.assigns.items():
            for v in values:
                text = src_of(v)
                kind = None
                if isinstance(v, (ast.List, ast.Dict, ast.Set, ast.ListComp, ast.DictComp, ast.SetComp)):
                    kind = "container"
                elif isinstance(v, ast.Call):
                    callee = src_of(v.func)
                    if callee in ("set", "dict", "list", "collections.defaultdict", "defaultdict", "collections.deque", "deque", "collections.OrderedDict", "weakref.WeakSet", "weakref.WeakValueDictionary", "weakref.WeakKeyDictionary", "collections.Counter"):
                        kind = "container"
                    elif callee in ("threading.local", "local"):
                        kind = "threadlocal"
                    elif callee in ("threading.Lock", "threading.RLock"):
                        kind = "lock"
                if kind == "container":
                    from .flow import is_constant_global

                    if isinstance(v, (ast.List, ast.Dict, ast.Set)) and is_constant_global(mod, name):
                        continue  # a literal lookup table nobody mutates is a constant, not state
                if kind:
                    out[("global", mod.name, name)] = (kind, text)
    return out


# ---------------------------------------------------------------------- call helpers
def calls_in(node):
    """Call expressions evaluated at CFG node ``node`` in evaluation order: list of (Call, conditional, awaited)."""
    if node.ast is None or node.kind in ("def", "dispatch", "handler", ):
        return []
    res = []
    order = eval_order(node.ast)
    awaited = set()
    for e, _ in order:
        if isinstance(e, ast.Await):
            awaited.add(id(e.value))
    for e, cond in order:
        if isinstance(e, ast.Call):
            res.append((e, cond, id(e) in awaited))
    return res


def call_arg_terms(flow, node, call):
    """All argument terms of a call (positional, keyword, starred) as a list of (label, term)."""
    out = []
    for i, a in enumerate(call.args):
        if isinstance(a, ast.Starred):
            out.append(("*", flow.term(a.value, node)))
        else:
            out.append((i, flow.term(a, node)))
    for kw in call.keywords:
        out.append((kw.arg if kw.arg is not None else "**", flow.term(kw.value, node)))
    return out


def callee_fi(model, flow, node, call):
    t = flow.term(call.func, node)
    return fi_of_term(model, t)


def fi_of_term(model, t):
    if t[0] == "func":
        return model.functions.get(t[1])
    if t[0] == "attr" and t[1][0] == "module" and t[1][1].startswith("icontract."):
        modname = t[1][1].split(".")[1]
        if modname in model.modules:
            for f in model.modules[modname].funcs:
                if f.parent is None and f.cls is None and f.name == t[2] and f.live:
                    return f
    return None


def bind_call(fi, call):
    """Map parameter name -> argument expression for a call of package function ``fi`` (None if not bindable)."""
    a = fi.node.args
    names = [x.arg for x in a.posonlyargs + a.args]
    bound = {}
    for i, arg in enumerate(call.args):
        if isinstance(arg, ast.Starred) or i >= len(names):
            return None
        bound[names[i]] = arg
    for kw in call.keywords:
        if kw.arg is None:
            return None
        bound[kw.arg] = kw.value
    return bound


# ---------------------------------------------------------------------- summaries (E5)
class Summaries:
    """Per-function facts used interprocedurally (bounded: computed on demand, depth <= 3)."""

    def __init__(self, model):
        self.model = model
        self._user = {}
        self._ret = {}

    def user_calls(self, fi):
        """User-code call-outs made directly in ``fi``: list of (kind, param, depth, node, call).

        kind: 'condition' | 'capture' | 'error' ; the receiver is ``param`` itself (depth 0), an element of it
        (depth 1) or an element of an element (depth 2).  param None = receiver not derived from a parameter.
        """
        if fi.qual in self._user:
            return self._user[fi.qual]
        flow = get_flow(self.model, fi)
        res = []
        for n in flow.cfg.nodes:
            for call, cond, awaited in calls_in(n):
                f = call.func
                if isinstance(f, ast.Attribute) and f.attr in ("condition", "capture", "error"):
                    recv = flow.term(f.value, n)
                    param, depth = _param_depth(recv)
                    res.append((f.attr, param, depth, n, call))
        self._user[fi.qual] = res
        return res

    def evaluates(self, fi, kind, param, depth, _seen=None):
        """Does ``fi`` (or a package callee it passes ``param`` to, bounded) call ``.<kind>`` at that depth?"""
        _seen = _seen or set()
        if (fi.qual, param) in _seen or len(_seen) > 3:
            return False
        _seen = _seen | {(fi.qual, param)}
        for k, p, d, n, call in self.user_calls(fi):
            if k == kind and p == param and d == depth:
                return True
        return False

    def return_term(self, fi):
        """Term of the value returned by ``fi`` (phi over its return statements), in terms of its parameters."""
        if fi.qual in self._ret:
            return self._ret[fi.qual]
        flow = get_flow(self.model, fi)
        ts = []
        for n in flow.cfg.nodes:
            if n.kind == "return":
                t = flow.term(n.ast, n) if n.ast is not None else ("const", "None")
                if t not in ts:
                    ts.append(t)
        if not ts:
            t = ("const", "None")
        elif len(ts) == 1:
            t = ts[0]
        else:
            t = mk_phi(ts)
        self._ret[fi.qual] = t
        return t

    def is_projection(self, fi):
        """A helper whose result is built from its parameters by attribute reads / tuples / records only."""
        from .flow import record_fields

        t = self.return_term(fi)
        for s in subterms(t):
            if s[0] == "call" and s[1][0] == "class" and record_fields(self.model, s[1]) is not None:
                continue  # a NamedTuple record of the package built from the parameters
            if s[0] in ("call", "await", "phi", "unk", "comp", "lambda", "elem", "op"):
                return False
        return True

    def expand(self, t, depth=0):
        """Inline calls of projection helpers inside a term: ``unpack(w)[0]`` -> ``w.__preconditions__``."""
        if not isinstance(t, tuple) or depth > 6:
            return t
        if t[0] == "call":
            fi = fi_of_term(self.model, t[1])
            if fi is not None and not t[2] and all(k is not None for k, _ in t[3]) and self.is_projection(fi):
                sub = {k: self.expand(v, depth + 1) for k, v in t[3]}
                return _subst(self.return_term(fi), sub)
            return ("call", self.expand(t[1], depth + 1), tuple(self.expand(x, depth + 1) for x in t[2]), tuple((k, self.expand(v, depth + 1)) for k, v in t[3]), t[4])
        if t[0] == "idx":
            base = self.expand(t[1], depth + 1)
            if base[0] == "display" and base[1] in ("tuple", "list") and t[2][0] == "const":
                try:
                    i = int(t[2][1])
                    return base[2][i]
                except Exception:
                    pass
            if t[2][0] == "const":
                from .flow import record_field

                try:
                    fld = record_field(self.model, base, index=int(t[2][1]))
                except ValueError:
                    fld = None
                if fld is not None:
                    return fld
            return ("idx", base, self.expand(t[2], depth + 1))
        if t[0] in ("attr",):
            from .flow import record_field

            base = self.expand(t[1], depth + 1)
            fld = record_field(self.model, base, t[2])
            if fld is not None:
                return fld
            return ("attr", base, t[2])
        if t[0] in ("elem", "await", "closure"):
            return (t[0], self.expand(t[1], depth + 1))
        if t[0] == "phi":
            ts = []
            for x in t[1]:
                y = self.expand(x, depth + 1)
                if y not in ts:
                    ts.append(y)
            return mk_phi(ts)
        if t[0] == "op":
            return ("op", t[1], tuple(self.expand(x, depth + 1) for x in t[2]))
        return t


def _subst(t, sub):
    if not isinstance(t, tuple) or not t:
        return t
    if t[0] == "param" and t[1] in sub:
        return sub[t[1]]
    return tuple(_subst(x, sub) if isinstance(x, tuple) else x for x in t)


def _param_depth(t):
    depth = 0
    while True:
        if t[0] == "param":
            return t[1], depth
        if t[0] == "elem":
            depth += 1
            t = t[1]
            continue
        return None, depth


# ---------------------------------------------------------------------- wrapper roles
class WrapperRoles:
    """Roles inside one wrapper closure (checker wrapper, invariant wrappers, ``__new__`` wrapper)."""

    def __init__(self, model, fi, summaries=None):
        self.model = model
        self.fi = fi
        self.flow = get_flow(model, fi)
        self.summ = summaries or Summaries(model)
        self.factory = fi.parent
        if self.factory is None:
            raise AnalysisError("wrapper %s has no enclosing factory" % fi.qual)
        a = fi.node.args
        self.vararg = a.vararg.arg if a.vararg else None
        self.kwarg = a.kwarg.arg if a.kwarg else None
        self.self_term = ("func", fi.qual)
        self.ctxvars = context_vars(model)
        self._events = None

    # -- term predicates
    def is_func_param(self, t):
        """Term denotes the factory's decorated-function parameter (any parameter of the factory that is called)."""
        return t[0] == "closure" and t[1][0] == "param" and t[1][1] in self.factory.params

    def list_role(self, t):
        """'pre' / 'snap' / 'post' / 'inv:<dunder>' if the (expanded) term is a live read of a contract list."""
        t = self.summ.expand(t)
        if t[0] == "phi":
            roles = set(self.list_role(x) for x in t[1])
            if len(roles) == 1:
                return roles.pop()
            return None
        if t[0] == "op" and t[1] == "ifexp":
            # ``A if cond else B`` -> role of both arms
            ra, rb = self.list_role(t[2][1]), self.list_role(t[2][2])
            if ra and rb:
                return "inv:sel(%s,%s)" % (ra.split(":", 1)[-1], rb.split(":", 1)[-1])
            return None
        if t[0] == "attr" and t[2] in DUNDERS_CHECKER:
            return {"__preconditions__": "pre", "__postcondition_snapshots__": "snap", "__postconditions__": "post"}[t[2]]
        if t[0] == "attr" and t[2] in DUNDERS_INV:
            return "inv:" + t[2]
        return None

    def list_source(self, t):
        """The object a contract list is read from (expanded term of the base of the attribute)."""
        t = self.summ.expand(t)
        if t[0] == "attr":
            return t[1]
        if t[0] == "phi":
            srcs = set(self.list_source(x) for x in t[1])
            return srcs.pop() if len(srcs) == 1 else None
        if t[0] == "op" and t[1] == "ifexp":
            a, b = self.list_source(t[2][1]), self.list_source(t[2][2])
            return a if a == b else None
        return None

    # -- events
    def events(self):
        """Map CFG node id -> list of event dicts (in evaluation order)."""
        if self._events is not None:
            return self._events
        flow = self.flow
        evs = {}
        for n in flow.cfg.nodes:
            lst = []
            for call, cond, awaited in calls_in(n):
                ev = self._classify_call(n, call, cond, awaited)
                if ev is not None:
                    lst.append(ev)
            if n.kind == "test" and n.ast is not None:
                ev = self._classify_test(n)
                if ev is not None:
                    lst.insert(0, ev) if False else lst.append(ev)
            if lst:
                evs[n.id] = lst
        # the re-entrance marker lives in the context variable(s) that some operation of this wrapper *adds a key to*;
        # operations on any other context variable (a second piece of per-context state) are not marker operations --
        # what they may do is the business of the effect rules (C12), not of the marker typestate
        marker_kinds = ("CTX_GET", "RESTORE", "ACQUIRE", "REMOVE", "CLEAR", "LAZYINIT", "CTX_UNKNOWN", "TEST")
        marker_cvs = set(ev.get("cv") for lst in evs.values() for ev in lst if ev["kind"] == "ACQUIRE" and ev.get("cv") is not None)
        if marker_cvs:
            for nid in list(evs):
                evs[nid] = [ev for ev in evs[nid] if not (ev["kind"] in marker_kinds and ev.get("cv") is not None and ev["cv"] not in marker_cvs)]
                if not evs[nid]:
                    del evs[nid]
        self._events = evs
        return evs

    def cv_of_term(self, t):
        """the context variable a value term was read from (``cv.get()`` somewhere inside it), or None"""
        from .flow import subterms as _subterms

        for s_ in _subterms(t):
            if self.is_ctx_get(s_):
                return s_[1][1]
        return None

    def _builds_message(self, fi, depth=0, seen=None):
        """``fi`` (or a package function it calls, two levels deep) generates the violation message / calls ``.error``"""
        seen = seen if seen is not None else set()
        if fi.qual in seen or depth > 2:
            return False
        seen.add(fi.qual)
        for sub in ast.walk(fi.node):
            if isinstance(sub, ast.Call):
                f_ = sub.func
                if isinstance(f_, ast.Attribute) and f_.attr == "generate_message":
                    return True
                if isinstance(f_, ast.Name) and f_.id == "generate_message":
                    return True
        if depth < 2:
            fl_ = get_flow(self.model, fi)
            for n_ in fl_.cfg.nodes:
                for call_, c_, a_ in calls_in(n_):
                    g_ = fi_of_term(self.model, fl_.term(call_.func, n_))
                    if g_ is not None and g_.module.name == "_checkers" and self._builds_message(g_, depth + 1, seen):
                        return True
        return False

    def _classify_call(self, n, call, cond, awaited):
        flow = self.flow
        ct = flow.term(call.func, n)
        base = {"node": n, "call": call, "conditional": cond, "awaited": awaited, "line": n.lineno}
        # BODY
        if self.is_func_param(ct):
            own_args = (
                len(call.args) == 1
                and isinstance(call.args[0], ast.Starred)
                and flow.term(call.args[0].value, n) == ("param", self.vararg)
                and len(call.keywords) == 1
                and call.keywords[0].arg is None
                and flow.term(call.keywords[0].value, n) == ("param", self.kwarg)
            )
            return dict(base, kind="BODY", own_args=own_args, callee=ct)
        # marker operations
        mk = self._classify_marker_call(n, call, ct)
        if mk is not None:
            return dict(base, **mk)
        # contract evaluation helpers
        fi = fi_of_term(self.model, ct)
        args = call_arg_terms(flow, n, call)
        roles = []
        for label, t in args:
            r = self.list_role(t)
            if r:
                roles.append((label, r, t))
        if fi is not None:
            bound = bind_call(fi, call)
            if bound is not None:
                for pname, aexpr in bound.items():
                    at = flow.term(aexpr, n)
                    r = self.list_role(at)
                    if r == "pre" and self.summ.evaluates(fi, "condition", pname, 2):
                        return dict(base, kind="PRE", callee=fi, list_term=at, param=pname)
                    if r == "post" and self.summ.evaluates(fi, "condition", pname, 1):
                        return dict(base, kind="POST", callee=fi, list_term=at, param=pname)
                    if r == "snap" and self.summ.evaluates(fi, "capture", pname, 1):
                        return dict(base, kind="SNAP", callee=fi, list_term=at, param=pname)
                    # invariant: callee evaluates <param>.condition and the argument is an element of an invariant list
                    at_e = self.summ.expand(at)
                    if at_e[0] == "elem":
                        r2 = self.list_role(at_e[1])
                        if r2 and r2.startswith("inv:") and self.summ.evaluates(fi, "condition", pname, 0):
                            return dict(base, kind="INV", callee=fi, list_term=at_e[1], role=r2, param=pname)
            if self._builds_message(fi):
                # building the violation error re-evaluates the condition (and calls the error factory): a contract
                # evaluation like the others, to be made while the marker is held
                return dict(base, kind="ERRMSG", callee=fi, roles=roles)
            return dict(base, kind="CALL", callee=fi, roles=roles)
        # direct user call-outs in the wrapper itself
        f = call.func
        if isinstance(f, ast.Attribute) and f.attr in ("condition", "capture", "error"):
            return dict(base, kind="USER", what=f.attr, recv=flow.term(f.value, n))
        return dict(base, kind="CALL", callee=None, callee_term=ct, roles=roles)

    # -- marker recognition ------------------------------------------------------------------------------
    def is_ctx_get(self, t):
        return t[0] == "call" and t[1][0] == "attr" and t[1][1] in self.ctxvars and t[1][2] == "get"

    def marker_value(self, t):
        """Classify a term that denotes a value of the context variable.

        Returns ('S',) for the entry snapshot (``cv.get()``, possibly via the lazy-init phi with a fresh set),
        ('S+', k) for S with key k added, ('S-', k) for S with key k removed, None otherwise.
        """
        if self.is_ctx_get(t):
            return ("S",)
        if t[0] == "phi":
            # lazy initialisation idiom: phi(cv.get(), set()) -- only where the variable has no default: with a default,
            # ``get()`` always gives a set, and an empty set among the alternatives means "all markers dropped"
            kinds = [self.marker_value(x) for x in t[1]]
            has_default = any(d is not None for d in self.ctxvars.values())
            if any(k == ("S",) for k in kinds) and all(k == ("S",) or (_is_fresh_set(x) and not has_default) for k, x in zip(kinds, t[1])):
                return ("S",)
            return None
        if t[0] == "op" and t[1] == "BitOr" and len(t[2]) == 2:
            for a, b in (t[2], t[2][::-1]):
                if self.marker_value(a) == ("S",):
                    k = _singleton_key(b)
                    if k is not None:
                        return ("S+", k)
        if t[0] == "op" and t[1] == "Sub" and len(t[2]) == 2 and self.marker_value(t[2][0]) == ("S",):
            k = _singleton_key(t[2][1])
            if k is not None:
                return ("S-", k)
        if t[0] == "call" and t[1][0] == "attr" and self.marker_value(t[1][1]) == ("S",):
            if t[1][2] == "union" and len(t[2]) == 1:
                k = _singleton_key(t[2][0])
                if k is not None:
                    return ("S+", k)
            if t[1][2] == "difference" and len(t[2]) == 1:
                k = _singleton_key(t[2][0])
                if k is not None:
                    return ("S-", k)
        if t[0] == "call" and t[1] in (("builtin", "frozenset"), ("builtin", "set")) and len(t[2]) == 1:
            inner = t[2][0]
            mv = self.marker_value(inner)
            if mv is not None:
                return mv
            if inner[0] == "display" and inner[1] in ("tuple", "list", "set"):
                stars = [x for x in inner[2] if x[0] == "star"]
                rest = [x for x in inner[2] if x[0] != "star"]
                if len(stars) == 1 and self.marker_value(stars[0][1]) == ("S",) and len(rest) == 1:
                    return ("S+", rest[0])
        return None

    def _classify_marker_call(self, n, call, ct):
        flow = self.flow
        if ct[0] != "attr":
            return None
        recv, meth = ct[1], ct[2]
        if recv in self.ctxvars:
            if meth == "get":
                return {"kind": "CTX_GET", "cv": recv}
            if meth == "set" and len(call.args) + len(call.keywords) == 1:
                arg = call.args[0] if call.args else call.keywords[0].value
                at = flow.term(arg, n)
                mv = self.marker_value(at)
                if mv == ("S",):
                    # restoring the snapshot, or the lazy-init store of a fresh set
                    fresh_only = at[0] != "phi" and not self.is_ctx_get(at)
                    return {"kind": "RESTORE", "cv": recv, "arg": at}
                if mv is not None and mv[0] == "S+":
                    return {"kind": "ACQUIRE", "cv": recv, "key": mv[1], "idiom": "set"}
                if mv is not None and mv[0] == "S-":
                    return {"kind": "REMOVE", "cv": recv, "key": mv[1], "idiom": "set"}
                has_default = self.ctxvars.get(recv) is not None
                if _is_fresh_set(at):
                    return {"kind": "CLEAR", "cv": recv, "text": src_of(call)} if has_default else {"kind": "LAZYINIT", "cv": recv}
                if at[0] == "phi":
                    # a value chosen among several on the way here: judged by its worst alternative
                    alts = [(self.marker_value(x), x) for x in at[1]]
                    if has_default and any(_is_fresh_set(x) for _, x in alts):
                        return {"kind": "CLEAR", "cv": recv, "text": src_of(call)}
                    plus = [mv_ for mv_, _ in alts if mv_ is not None and mv_[0] == "S+"]
                    if plus and all(mv_ is not None and mv_[0] in ("S", "S+") for mv_, _ in alts):
                        return {"kind": "ACQUIRE", "cv": recv, "key": plus[0][1], "idiom": "set", "maybe": True}
                return {"kind": "CTX_UNKNOWN", "cv": recv, "arg": at, "text": src_of(call)}
            if meth == "reset":
                return {"kind": "RESTORE", "cv": recv, "arg": None, "token": True}
            return {"kind": "CTX_UNKNOWN", "cv": recv, "text": src_of(call)}
        if self.marker_value(recv) == ("S",) or _is_fresh_set_phi_member(recv):
            cv_ = self.cv_of_term(recv)
            if meth == "add" and len(call.args) == 1:
                return {"kind": "ACQUIRE", "key": flow.term(call.args[0], n), "idiom": "mutate", "cv": cv_}
            if meth in ("discard", "remove") and len(call.args) == 1:
                return {"kind": "REMOVE", "key": flow.term(call.args[0], n), "idiom": "mutate", "cv": cv_}
            if meth in ("clear", "update", "pop", "difference_update", "intersection_update", "symmetric_difference_update"):
                return {"kind": "CTX_UNKNOWN", "text": src_of(call), "cv": cv_}
        return None

    def _classify_test(self, n):
        """``k in S`` / ``k not in S`` at a test node -> TEST event with polarity."""
        e = n.ast
        neg = False
        while isinstance(e, ast.UnaryOp) and isinstance(e.op, ast.Not):
            e = e.operand
            neg = not neg
        if isinstance(e, ast.Compare) and len(e.ops) == 1 and isinstance(e.ops[0], (ast.In, ast.NotIn)):
            right = self.flow.term(e.comparators[0], n)
            if self.marker_value(right) == ("S",):
                if isinstance(e.ops[0], ast.NotIn):
                    neg = not neg
                # present_on: the edge kind on which the key IS in S
                return {"kind": "TEST", "node": n, "key": self.flow.term(e.left, n), "present_on": "F" if neg else "T", "line": n.lineno, "conditional": False, "cv": self.cv_of_term(right)}
        return None


def _is_fresh_set(t):
    if t[0] == "call" and t[1] in (("builtin", "set"), ("builtin", "frozenset")) and not t[2] and not t[3]:
        return True
    if t[0] == "display" and t[1] == "set":
        return True
    return False


def _is_fresh_set_phi_member(t):
    return False


def _singleton_key(t):
    """``{k}`` / ``frozenset({k})`` / ``frozenset((k,))`` -> term of k."""
    if t[0] == "display" and t[1] in ("set", "tuple", "list") and len(t[2]) == 1 and t[2][0][0] != "star":
        return t[2][0]
    if t[0] == "display" and t[1] in ("set", "tuple", "list") and len(t[2]) > 1 and all(x[0] != "star" for x in t[2]):
        # several keys added / removed at once: one key term of its own kind (never equal to the key that is tested)
        return ("keys", tuple(t[2]))
    if t[0] == "call" and t[1] in (("builtin", "frozenset"), ("builtin", "set")) and len(t[2]) == 1:
        return _singleton_key(t[2][0])
    return None


def find_wrappers(model):
    """The six run-time wrapper closures, by role."""
    out = {}
    want = {
        "checker[sync]": "_checkers.decorate_with_checker.wrapper[sync]",
        "checker[async]": "_checkers.decorate_with_checker.wrapper[async]",
        "inv[init]": "_checkers._decorate_with_invariants.wrapper[init]",
        "inv[sync]": "_checkers._decorate_with_invariants.wrapper[sync]",
        "inv[async]": "_checkers._decorate_with_invariants.wrapper[async]",
        "inv[new]": "_checkers._decorate_new_with_invariants.wrapper",
    }
    for role, qual in want.items():
        fi = model.functions.get(qual)
        if fi is None:
            fi = _find_wrapper_by_role(model, role)
        if fi is None:
            raise AnalysisError("anchor not found: wrapper %s (%s)" % (role, qual))
        out[role] = fi
    return out


def _find_wrapper_by_role(model, role):
    """Fallback when a factory or its closure was renamed: find by structure."""
    cands = []
    for fi in model.modules["_checkers"].funcs:
        if fi.parent is None or not fi.live:
            continue
        a = fi.node.args
        if not (a.vararg and a.kwarg):
            continue
        cands.append(fi)
    summ = Summaries(model)
    for fi in cands:
        try:
            wr = WrapperRoles(model, fi, summ)
            kinds = set(ev["kind"] for evs in wr.events().values() for ev in evs)
        except Exception:
            continue
        is_checker = "PRE" in kinds and "POST" in kinds
        is_inv = "INV" in kinds and not is_checker
        if role.startswith("checker") and is_checker:
            if (role == "checker[async]") == fi.is_async:
                return fi
        if role.startswith("inv") and is_inv:
            acquires = "ACQUIRE" in kinds
            n_inv = sum(1 for evs in wr.events().values() for ev in evs if ev["kind"] == "INV")
            if role == "inv[new]" and not acquires:
                return fi
            if role == "inv[async]" and acquires and fi.is_async:
                return fi
            if role == "inv[sync]" and acquires and not fi.is_async and n_inv >= 2:
                return fi
            if role == "inv[init]" and acquires and not fi.is_async and n_inv == 1:
                return fi
    return None
