"""E10 -- obligations, findings, evidence, known findings, exit-code policy."""
import json
import os
import re
import time

VERIF = os.path.dirname(os.path.dirname(os.path.abspath(__file__)))


class Obligation:
    __slots__ = ("rule", "construct", "status", "detail", "loc", "witness", "stmt", "nontrivial")

    def __init__(self, rule, construct, status, detail="", loc=None, witness=None, stmt=None, nontrivial=True):
        self.rule = rule  # e.g. "C10.own-release"
        self.construct = construct  # qualified function / region / instance the obligation is about
        self.status = status  # ok | violation | skipped
        self.detail = detail
        self.loc = loc  # "icontract/_checkers.py:123"
        self.witness = witness  # list of line numbers / labels for path rules
        self.stmt = stmt  # normalised source of the offending statement
        self.nontrivial = nontrivial

    def key(self):
        """Identity of a finding: rule + construct + normalised statement (never a line number)."""
        stmt = re.sub(r"\s+", " ", self.stmt or "").strip()
        return "%s|%s|%s" % (self.rule, self.construct, stmt)

    def as_dict(self):
        d = {"rule": self.rule, "construct": self.construct, "status": self.status}
        if self.detail:
            d["detail"] = self.detail
        if self.loc:
            d["loc"] = self.loc
        if self.witness:
            d["witness"] = self.witness
        if self.stmt:
            d["stmt"] = self.stmt
        return d


class Run:
    """Collects the obligations of one check run for one property."""

    def __init__(self, prop, tier="quick", model=None):
        self.prop = prop
        self.tier = tier
        self.model = model
        self.obligations = []
        self.functions = set()
        self.cfg_nodes = 0
        self.cfg_edges = 0
        self.minima = {}  # rule -> (min instances, reason)
        self.notes = []
        self.t0 = time.time()
        self.extra = {}
        self.errors = []  # AnalysisError messages of rules that could not decide

    def do(self, fn, *args, **kwargs):
        """Run one rule function ``fn(run, *args)``; an AnalysisError of one rule does not hide the others."""
        from .model import AnalysisError

        try:
            return fn(self, *args, **kwargs)
        except AnalysisError as err:
            self.errors.append("%s: %s" % (getattr(fn, "__name__", "rule"), err))
            return None
        except (ValueError, IndexError, KeyError, TypeError, AttributeError) as err:
            # the code has a shape the rule was not written for (a changed signature, a missing statement): the rule
            # cannot decide -- an analysis error of this rule only, never a pass and never a crash of the whole check
            import traceback

            tb = traceback.extract_tb(err.__traceback__)
            where = "%s:%d" % (tb[-1].filename.rsplit("/", 1)[-1], tb[-1].lineno) if tb else "?"
            self.errors.append("%s: shape not recognised (%s: %s at %s)" % (getattr(fn, "__name__", "rule"), type(err).__name__, err, where))
            return None

    def undecided(self, rule, construct, why):
        """The rule cannot decide this construct (a shape it does not read): an analysis error, not a verdict."""
        self.errors.append("%s %s: %s" % (rule, construct, why))

    # ------------------------------------------------------------------ recording
    def ok(self, rule, construct, detail="", loc=None, nontrivial=True):
        self.obligations.append(Obligation(rule, construct, "ok", detail, loc, None, None, nontrivial))

    def violation(self, rule, construct, detail, loc=None, witness=None, stmt=None):
        self.obligations.append(Obligation(rule, construct, "violation", detail, loc, witness, stmt, True))

    def check(self, cond, rule, construct, ok_detail, bad_detail, loc=None, witness=None, stmt=None):
        if cond:
            self.ok(rule, construct, ok_detail, loc)
        else:
            self.violation(rule, construct, bad_detail, loc, witness, stmt)
        return bool(cond)

    def minimum(self, rule, n, reason=""):
        self.minima[rule] = (n, reason)

    def saw(self, flow):
        if flow.fi.qual not in self.functions:
            self.functions.add(flow.fi.qual)
            self.cfg_nodes += len(flow.cfg.nodes)
            self.cfg_edges += flow.cfg.edges()

    def note(self, text):
        self.notes.append(text)

    # ------------------------------------------------------------------ results
    def _known_keys(self):
        if getattr(self, "_kk", None) is None:
            self._kk = {k["key"]: k for k in load_known_findings() if k.get("property") == self.prop and k.get("status") == "known" and "key" in k}
        return self._kk

    def violations(self, include_known=False):
        """Violations that are not listed as known findings (a listed finding is reported as KNOWN-FINDING only)."""
        out = [o for o in self.obligations if o.status == "violation"]
        if include_known:
            return out
        kk = self._known_keys()
        return [o for o in out if o.key() not in kk]

    def known_hits(self):
        """The known-findings entries whose construct is (still) reported on the analysed tree."""
        kk = self._known_keys()
        seen, out = set(), []
        for o in self.obligations:
            if o.status == "violation" and o.key() in kk and o.key() not in seen:
                seen.add(o.key())
                out.append(kk[o.key()])
        return out

    def count(self, rule):
        return sum(1 for o in self.obligations if o.rule == rule)

    def vacuous(self):
        """Rules whose instance count fell below the hand-confirmed minimum."""
        out = []
        for rule, (n, reason) in sorted(self.minima.items()):
            c = self.count(rule)
            if c < n:
                out.append("%s: %d instance(s) analysed, expected at least %d%s" % (rule, c, n, " (%s)" % reason if reason else ""))
        return out


def load_known_findings():
    path = os.path.join(VERIF, "known_findings.json")
    if not os.path.exists(path):
        return []
    with open(path) as fid:
        data = json.load(fid)
    return data.get("findings", [])


def slug(text, n=60):
    return re.sub(r"[^A-Za-z0-9_.-]+", "_", text)[:n].strip("_")


def write_evidence(run, meta, violations, known, wall_s, audit=None):
    """Write /verif/evidence/<id>.json describing what this run covered."""
    obl = run.obligations
    distinct = set()
    for o in obl:
        if o.nontrivial:
            distinct.add((o.rule, o.construct))
    samples = []
    seen_rules = {}
    for o in obl:
        # at most three samples per rule, violations first
        c = seen_rules.get(o.rule, 0)
        if c < 3 or o.status == "violation":
            samples.append(o.as_dict())
            seen_rules[o.rule] = c + 1
    rules = sorted(set(o.rule for o in obl))
    cov = {
        "explanation": meta.get("explanation", ""),
        "rule": "one obligation = one (rule, construct) instance decided on the current source of %s; an obligation is "
        "non-trivial when the rule had to inspect a path, a data flow or a table row of that construct "
        "(anchor-existence obligations are trivial and not counted as distinct_nontrivial)" % "icontract/*.py",
        "obligations": len(obl),
        "discharged": sum(1 for o in obl if o.status == "ok"),
        "evaluations": len(obl),
        "distinct_nontrivial": len(distinct),
        "samples": samples,
        "rules": rules,
        "instances_per_rule": {r: run.count(r) for r in rules},
        "instance_minima": {r: n for r, (n, _) in run.minima.items()},
        "functions_analysed": sorted(run.functions),
        "cfg_nodes": run.cfg_nodes,
        "cfg_edges": run.cfg_edges,
        "trusted_base": meta.get("trusted_base", []),
        "not_decided": meta.get("not_decided", []),
        "source_digest": run.model.digest() if run.model is not None else None,
        "known_findings_reported": [k.get("what", "") for k in known],
        "exhaustive": True,
        "checker_cmd": "/venv/bin/python check.py %s --tier %s" % (run.prop, run.tier),
    }
    if run.notes:
        cov["notes"] = run.notes
    if run.extra:
        cov.update(run.extra)
    if audit is not None:
        cov["audit"] = audit
    ev = {
        "property_id": run.prop,
        "tier": run.tier,
        "seed": int(os.environ.get("VERIF_SEED", "0") or 0),
        "level": "other",
        "coverage": cov,
        "assumptions": meta.get("assumptions", []),
        "wall_s": round(wall_s, 3),
        "violations": len(violations),
    }
    os.makedirs(os.path.join(VERIF, "evidence"), exist_ok=True)
    path = os.path.join(VERIF, "evidence", "%s.json" % run.prop)
    tmp = path + ".tmp"
    with open(tmp, "w") as fid:
        json.dump(ev, fid, indent=1, sort_keys=False)
        fid.write("\n")
    os.replace(tmp, path)
    return path


def write_replay(prop, o):
    os.makedirs(os.path.join(VERIF, "replays"), exist_ok=True)
    name = "%s-%s-%s.json" % (prop, slug(o.rule.split(".", 1)[-1], 30), slug(o.construct + "-" + (o.stmt or ""), 70))
    path = os.path.join(VERIF, "replays", name)
    with open(path, "w") as fid:
        json.dump({"property": prop, "finding": o.as_dict(), "key": o.key(), "replay": "/venv/bin/python check.py %s --tier quick --only %s" % (prop, o.rule)}, fid, indent=1)
        fid.write("\n")
    return path
