"""A second view of a function in which statement-level comprehensions are written as loops.

``x = [f(a) for a in it if c]`` and the loop that appends to a list compute the same value; so do
``list(itertools.takewhile(lambda a: c, it))`` and a loop with ``break``.  Rules that reason about a loop (what it
walks, what it keeps, when it stops) ask for this view when a function uses the comprehension idiom, so that the idiom
is not a change for them.  Only comprehensions that are the whole right-hand side of an assignment or the value of a
``return`` are rewritten (optionally inside ``list(...)``/``set(...)``/``tuple(...)``/``dict(...)``); ``any(...)`` / ``all(...)`` tests and
nested comprehensions stay as they are.
"""
import ast
import copy

from .model import FuncInfo



def _unwrap(value):
    """(comprehension node, kind) for a supported right-hand side, else (None, None)."""
    v = value
    outer = None
    if isinstance(v, ast.Call) and isinstance(v.func, ast.Name) and v.func.id in ("list", "set", "tuple", "dict", "frozenset") and len(v.args) == 1 and not v.keywords:
        outer = v.func.id
        v = v.args[0]
    if isinstance(v, ast.ListComp):
        return v, outer or "list"
    if isinstance(v, ast.SetComp):
        return v, outer or "set"
    if isinstance(v, ast.DictComp):
        return v, "dict"
    if isinstance(v, ast.GeneratorExp) and outer in ("list", "set", "tuple", "frozenset"):
        return v, outer
    if isinstance(v, ast.Call) and isinstance(v.func, (ast.Attribute, ast.Name)) and (ast.unparse(v.func) in ("itertools.takewhile", "takewhile")) and len(v.args) == 2 and isinstance(v.args[0], ast.Lambda) and len(v.args[0].args.args) == 1 and outer in ("list", "tuple"):
        return v, "takewhile"
    return None, None


class _Rewrite:
    def __init__(self, params=()):
        self.counter = 0
        self.params = set(params)
        self.changed = False

    def block(self, stmts):
        out = []
        for st in stmts:
            out.extend(self.stmt(st))
        return out

    def update_form(self, st):
        """``m.update(zip(ks, vs))`` / ``m.update((k, v) for ... if c)`` / ``m.update({k: v for ...})`` as a loop of
        item stores into ``m`` (what ``dict.update`` does with an iterable of pairs)."""
        if not (isinstance(st, ast.Expr) and isinstance(st.value, ast.Call)):
            return None
        call = st.value
        if not (isinstance(call.func, ast.Attribute) and call.func.attr == "update" and isinstance(call.func.value, ast.Name) and len(call.args) == 1 and not call.keywords):
            return None
        m = call.func.value.id
        arg = call.args[0]
        store = lambda k, v: ast.Assign(targets=[ast.Subscript(value=ast.Name(id=m, ctx=ast.Load()), slice=k, ctx=ast.Store())], value=v)
        if isinstance(arg, ast.Call) and isinstance(arg.func, ast.Name) and arg.func.id == "zip" and len(arg.args) == 2 and not arg.keywords:
            self.counter += 1
            k, v = "_uk%d" % self.counter, "_uv%d" % self.counter
            tgt = ast.Tuple(elts=[ast.Name(id=k, ctx=ast.Store()), ast.Name(id=v, ctx=ast.Store())], ctx=ast.Store())
            new = [ast.For(target=tgt, iter=arg, body=[store(ast.Name(id=k, ctx=ast.Load()), ast.Name(id=v, ctx=ast.Load()))], orelse=[])]
        elif isinstance(arg, (ast.GeneratorExp, ast.ListComp)) and isinstance(arg.elt, ast.Tuple) and len(arg.elt.elts) == 2:
            inner = [store(arg.elt.elts[0], arg.elt.elts[1])]
            for gen in reversed(arg.generators):
                for cond in reversed(gen.ifs):
                    inner = [ast.If(test=cond, body=inner, orelse=[])]
                inner = [(ast.AsyncFor if gen.is_async else ast.For)(target=gen.target, iter=gen.iter, body=inner, orelse=[])]
            new = inner
        elif isinstance(arg, ast.DictComp):
            inner = [store(arg.key, arg.value)]
            for gen in reversed(arg.generators):
                for cond in reversed(gen.ifs):
                    inner = [ast.If(test=cond, body=inner, orelse=[])]
                inner = [(ast.AsyncFor if gen.is_async else ast.For)(target=gen.target, iter=gen.iter, body=inner, orelse=[])]
            new = inner
        elif isinstance(arg, ast.Name) and arg.id in self.params:
            # ``m.update(mapping)`` with a mapping handed in as a parameter: every item of it is stored, in its order
            self.counter += 1
            k, v = "_uk%d" % self.counter, "_uv%d" % self.counter
            tgt = ast.Tuple(elts=[ast.Name(id=k, ctx=ast.Store()), ast.Name(id=v, ctx=ast.Store())], ctx=ast.Store())
            it = ast.Call(func=ast.Attribute(value=ast.Name(id=arg.id, ctx=ast.Load()), attr="items", ctx=ast.Load()), args=[], keywords=[])
            new = [ast.For(target=tgt, iter=it, body=[store(ast.Name(id=k, ctx=ast.Load()), ast.Name(id=v, ctx=ast.Load()))], orelse=[])]
        else:
            return None
        out = []
        for n in new:
            n = ast.copy_location(n, st)
            ast.fix_missing_locations(n)
            out.append(n)
        return out

    def stmt(self, st):
        for field in ("body", "orelse", "finalbody"):
            if isinstance(getattr(st, field, None), list) and not isinstance(st, (ast.FunctionDef, ast.AsyncFunctionDef, ast.ClassDef)):
                setattr(st, field, self.block(getattr(st, field)))
        if isinstance(st, ast.Try):
            for h in st.handlers:
                h.body = self.block(h.body)
        target = None
        upd = self.update_form(st)
        if upd is not None:
            self.changed = True
            return upd
        if isinstance(st, ast.Assign) and len(st.targets) == 1 and isinstance(st.targets[0], ast.Name):
            comp, kind = _unwrap(st.value)
            target = st.targets[0].id
        elif isinstance(st, ast.AnnAssign) and isinstance(st.target, ast.Name) and st.value is not None:
            comp, kind = _unwrap(st.value)
            target = st.target.id
        elif isinstance(st, ast.Return) and st.value is not None:
            comp, kind = _unwrap(st.value)
            if comp is not None:
                self.counter += 1
                target = "_dc%d" % self.counter
        else:
            comp, kind = None, None
        if comp is None or target is None:
            return [st]
        self.changed = True
        loc = lambda n: ast.copy_location(n, st)
        name_l = lambda: ast.Name(id=target, ctx=ast.Load())
        if kind == "takewhile":
            lam, it = comp.args
            var = lam.args.args[0].arg
            init = ast.List(elts=[], ctx=ast.Load())
            keep = ast.Expr(ast.Call(func=ast.Attribute(value=name_l(), attr="append", ctx=ast.Load()), args=[ast.Name(id=var, ctx=ast.Load())], keywords=[]))
            body = [ast.If(test=ast.UnaryOp(op=ast.Not(), operand=lam.body), body=[ast.Break()], orelse=[]), keep]
            loop = ast.For(target=ast.Name(id=var, ctx=ast.Store()), iter=it, body=body, orelse=[])
            new = [ast.Assign(targets=[ast.Name(id=target, ctx=ast.Store())], value=init), loop]
        else:
            if kind == "dict":
                init = ast.Dict(keys=[], values=[])
                keep = ast.Assign(targets=[ast.Subscript(value=name_l(), slice=comp.key, ctx=ast.Store())], value=comp.value)
            elif kind in ("set", "frozenset"):
                init = ast.Call(func=ast.Name(id="set", ctx=ast.Load()), args=[], keywords=[])
                keep = ast.Expr(ast.Call(func=ast.Attribute(value=name_l(), attr="add", ctx=ast.Load()), args=[comp.elt], keywords=[]))
            else:
                init = ast.List(elts=[], ctx=ast.Load())
                keep = ast.Expr(ast.Call(func=ast.Attribute(value=name_l(), attr="append", ctx=ast.Load()), args=[comp.elt], keywords=[]))
            inner = [keep]
            for gen in reversed(comp.generators):
                for cond in reversed(gen.ifs):
                    inner = [ast.If(test=cond, body=inner, orelse=[])]
                cls = ast.AsyncFor if gen.is_async else ast.For
                inner = [cls(target=gen.target, iter=gen.iter, body=inner, orelse=[])]
            new = [ast.Assign(targets=[ast.Name(id=target, ctx=ast.Store())], value=init)] + inner
        if isinstance(st, ast.Return):
            new.append(ast.Return(value=name_l()))
        out = []
        for n in new:
            n = loc(n)
            ast.fix_missing_locations(n)
            out.append(n)
        return out


def loops_view(model, fi):
    """``fi`` itself, or a clone of it whose statement-level comprehensions are loops (cached per model)."""
    cache = model.__dict__.setdefault("_loops_views", {})  # per model object: never shared between variants
    key = fi.qual
    if key in cache:
        return cache[key]
    node = copy.deepcopy(fi.node)
    # nested function definitions are kept as they are (same objects as in the original, for the children)
    orig_defs = [s for s in ast.walk(fi.node) if isinstance(s, (ast.FunctionDef, ast.AsyncFunctionDef)) and s is not fi.node]
    a_ = fi.node.args
    rw = _Rewrite(params=[x.arg for x in a_.posonlyargs + a_.args + a_.kwonlyargs])
    node.body = rw.block(node.body)
    if not rw.changed or orig_defs and False:
        cache[key] = fi
        return fi
    clone = FuncInfo(fi.module, node, fi.parent, fi.cls, fi.guards, fi.live)
    clone.tag = fi.tag
    clone.qual = fi.qual + "[loops]"
    clone.children = []
    cache[key] = clone
    return clone
