"""Self-audit of the checkers (thorough tier): breaking variants must be detected, neutral variants must stay silent.

Variants are analysed in memory through the model's source overlay -- nothing is written to /repo or to disk.
The audit never changes the verdict about /repo: a missed variant is an AUDIT-MISS (a weakness of the checker),
a neutral variant that fires is an AUDIT-FALSE-ALARM.
"""
import ast
import json
import os
import re
import subprocess

from .. import model as sa_model

VERIF = os.path.dirname(os.path.dirname(os.path.dirname(os.path.abspath(__file__))))


def apply_unified_diff(files, diff_text):
    """Apply a unified diff to ``files`` ({relative path: text}); returns a new dict or None if it does not apply."""
    out = dict(files)
    cur = None
    hunks = {}
    for line in diff_text.splitlines():
        if line.startswith("+++ "):
            path = line[4:].strip()
            path = path[2:] if path.startswith("b/") else path
            cur = path
            hunks.setdefault(cur, [])
        elif line.startswith("@@") and cur is not None:
            m = re.match(r"@@ -(\d+)(?:,(\d+))? \+(\d+)(?:,(\d+))? @@", line)
            hunks[cur].append([int(m.group(1)), []])
        elif cur is not None and hunks.get(cur) and (line.startswith((" ", "+", "-")) or line == ""):
            if line.startswith(("--- ", "diff ", "index ")):
                continue
            hunks[cur][-1][1].append(line if line else " ")
    for path, hs in hunks.items():
        if path not in out:
            return None
        src = out[path].split("\n")
        offset = 0
        for start, lines in hs:
            old = [l[1:] for l in lines if l[:1] in (" ", "-")]
            new = [l[1:] for l in lines if l[:1] in (" ", "+")]
            pos = start - 1 + offset
            # tolerate small shifts: search the old block near the expected position
            found = None
            for delta in range(0, 80):
                for cand in (pos + delta, pos - delta):
                    if 0 <= cand <= len(src) - len(old) and src[cand : cand + len(old)] == old:
                        found = cand
                        break
                if found is not None:
                    break
            if found is None:
                return None
            src[found : found + len(old)] = new
            offset += len(new) - len(old) + (found - pos)
        out[path] = "\n".join(src)
    return out


def current_sources(root=None):
    root = root or sa_model.REPO
    files = {}
    for name in sa_model.MODULES:
        p = os.path.join(root, sa_model.PKG, name + ".py")
        with open(p, encoding="utf-8") as fid:
            files["icontract/%s.py" % name] = fid.read()
    return files


def overlay_of(files):
    return {os.path.basename(k): v for k, v in files.items()}


def breaking_variants(root=None):
    """(id, property, title, overlay) for every seeded change and every reverted fix that still applies."""
    base = current_sources(root)
    out = []
    sd = os.path.join(VERIF, "seeded")
    for s in sorted(os.listdir(sd)):
        d = os.path.join(sd, s)
        if not os.path.isdir(d):
            continue
        try:
            meta = json.load(open(os.path.join(d, "meta.json")))
            diff = open(os.path.join(d, "patch.diff")).read()
        except Exception:
            continue
        files = apply_unified_diff(base, diff)
        if files is None:
            out.append((s, meta.get("property"), meta.get("title", ""), None, meta.get("detected_by", [])))
            continue
        out.append((s, meta.get("property"), meta.get("title", ""), overlay_of(files), meta.get("detected_by", [])))
    return out


def catalogue_variants(root=None):
    """(id, expected properties, description, overlay or None) for the replacement catalogue."""
    from .catalogue import CATALOGUE

    base = current_sources(root)
    out = []
    for vid, props, path, repls, desc in CATALOGUE:
        text = base.get(path)
        ok = text is not None
        if ok:
            for old, new, which in repls:
                if old not in text:
                    ok = False
                    break
                if which == "all":
                    text = text.replace(old, new)
                else:
                    parts = text.split(old)
                    if len(parts) - 1 <= which:
                        ok = False
                        break
                    text = old.join(parts[: which + 1]) + new + old.join(parts[which + 1 :])
        if ok:
            try:
                ast.parse(text)
            except SyntaxError:
                ok = False
        if not ok:
            out.append((vid, props, desc, None))
            continue
        files = dict(base)
        files[path] = text
        out.append((vid, props, desc, overlay_of(files)))
    return out


class _Renamer(ast.NodeTransformer):
    """Rename every local variable of every function (neutral variant)."""

    def __init__(self):
        self.stack = []

    def _visit_fn(self, node):
        locals_ = set()
        for sub in ast.walk(node):
            if isinstance(sub, ast.Name) and isinstance(sub.ctx, ast.Store):
                locals_.add(sub.id)
        # do not rename names declared global / nonlocal, nested function names used by siblings, or parameters
        for sub in ast.walk(node):
            if isinstance(sub, (ast.Global, ast.Nonlocal)):
                locals_ -= set(sub.names)
        a = node.args
        for arg in a.posonlyargs + a.args + a.kwonlyargs + ([a.vararg] if a.vararg else []) + ([a.kwarg] if a.kwarg else []):
            locals_.discard(arg.arg)
        for sub in ast.walk(node):
            if isinstance(sub, (ast.FunctionDef, ast.AsyncFunctionDef)) and sub is not node:
                # names captured by closures keep their spelling (the closure refers to them)
                for s2 in ast.walk(sub):
                    if isinstance(s2, ast.Name):
                        locals_.discard(s2.id)
        self.stack.append({n: n + "_rn" for n in locals_})
        self.generic_visit(node)
        self.stack.pop()
        return node

    visit_FunctionDef = _visit_fn
    visit_AsyncFunctionDef = _visit_fn

    def visit_Name(self, node):
        if self.stack and node.id in self.stack[-1]:
            return ast.copy_location(ast.Name(id=self.stack[-1][node.id], ctx=node.ctx), node)
        return node


def neutral_variants(root=None):
    base = current_sources(root)
    out = []
    # whole-file ast.unparse round trip (re-formatting, comments and docstring layout gone)
    rt = {}
    for k, v in base.items():
        rt[k] = ast.unparse(ast.parse(v)) + "\n"
    out.append(("N-unparse", "whole-file ast.unparse round trip of every module", overlay_of(rt)))
    # renaming of locals
    rn = {}
    for k, v in base.items():
        tree = ast.parse(v)
        tree = _Renamer().visit(tree)
        ast.fix_missing_locations(tree)
        rn[k] = ast.unparse(tree) + "\n"
    out.append(("N-rename-locals", "every non-captured local variable renamed", overlay_of(rn)))
    # blank lines / comments inserted everywhere (line numbers shift)
    sh = {}
    for k, v in base.items():
        sh[k] = "# shifted\n\n\n" + v.replace("\n\n\n", "\n\n\n# filler comment\n")
    out.append(("N-shift-lines", "comment lines inserted (all line numbers shift)", overlay_of(sh)))
    return out


def _audit_job(job):
    """one variant analysed under one property (worker of the audit pool)"""
    import check as check_mod

    kind, prop, root, vid, title, overlay = job
    try:
        run, mod = check_mod.analyse(prop, "quick", root, overlay, None)
        viol = run.violations()
        errs = (run.errors + run.vacuous()) if kind == "neutral" else []
        rules = sorted(set(o.rule for o in viol))
        detail = [o.rule + " " + o.construct for o in viol[:3]]
    except sa_model.AnalysisError as err:
        viol, rules, detail = [], ["ANALYSIS-ERROR: %s" % str(err)[:80]], []
        errs = [str(err)] if kind == "neutral" else []
    return kind, vid, title, bool(viol), rules, detail, [e[:100] for e in errs[:2]]


def audit_property(prop, root=None):
    import multiprocessing

    res = {"breaking": 0, "detected": 0, "missed": [], "neutral": 0, "neutral_silent": 0, "neutral_alarms": [], "skipped": [], "detected_variants": []}
    jobs = []
    for vid, vprop, title, overlay, detected_by in breaking_variants(root):
        expected = vprop == prop or prop in detected_by
        if not expected:
            continue
        if overlay is None:
            res["skipped"].append("%s (patch does not apply to the current tree)" % vid)
            continue
        jobs.append(("breaking", prop, root, vid, title, overlay))
    for vid, props, desc, overlay in catalogue_variants(root):
        if prop not in props:
            continue
        if overlay is None:
            res["skipped"].append("%s (the edited text is not in the current tree)" % vid)
            continue
        jobs.append(("breaking", prop, root, vid, desc, overlay))
    for vid, title, overlay in neutral_variants(root):
        jobs.append(("neutral", prop, root, vid, title, overlay))
    n_proc = max(1, min(16, os.cpu_count() or 1, len(jobs)))
    if n_proc > 1:
        with multiprocessing.get_context("fork").Pool(n_proc) as pool:
            results = pool.map(_audit_job, jobs, chunksize=1)
    else:
        results = [_audit_job(j) for j in jobs]
    for kind, vid, title, hit, rules, detail, errs in results:
        if kind == "breaking":
            res["breaking"] += 1
            if hit:
                res["detected"] += 1
                res["detected_variants"].append("%s -> %s" % (vid, ",".join(rules)))
            else:
                res["missed"].append("%s (%s) %s" % (vid, title[:60], ",".join(rules)))
        else:
            res["neutral"] += 1
            if not hit and not errs:
                res["neutral_silent"] += 1
            else:
                res["neutral_alarms"].append("%s: %s" % (vid, "; ".join(detail + errs)))
    return res
