"""E2 -- statement-level control-flow graph with exception edges.

* every statement that may raise has an ``exc`` edge to the innermost handler dispatch / ``finally`` copy /
  the exceptional exit of the function;
* ``finally`` bodies are duplicated per continuation (normal, exception, return, break, continue), so a path
  through the graph is a real path of the program;
* ``await`` expressions are suspension points: cancellation is delivered there as an exception, which the
  ``exc`` edge of the node models.

"may raise" is conservative: everything except ``pass``/``break``/``continue``, plain name/constant copies,
identity tests on names and nested ``def`` statements.
"""
import ast

from .model import first_line, src_of

ENTRY, EXIT_RETURN, EXIT_RAISE = "ENTRY", "EXIT_RETURN", "EXIT_RAISE"


class Node:
    __slots__ = ("id", "kind", "ast", "stmt", "label", "fin", "succ", "pred", "in_try", "handler_of")

    def __init__(self, nid, kind, node=None, stmt=None, label="", fin=()):
        self.id = nid
        self.kind = kind  # ENTRY EXIT_RETURN EXIT_RAISE stmt test iter next return raise break continue def dispatch assertfail with
        self.ast = node  # the expression / statement evaluated at this node
        self.stmt = stmt if stmt is not None else node  # the enclosing statement
        self.label = label
        self.fin = fin  # tuple of (try-lineno, continuation kind) for nodes inside duplicated finally bodies
        self.succ = []  # list of (edge kind, Node)
        self.pred = []  # list of (edge kind, Node)
        self.in_try = ()  # tuple of ast.Try enclosing this node lexically (innermost last), with part name
        self.handler_of = None

    @property
    def lineno(self):
        return getattr(self.ast, "lineno", None) or getattr(self.stmt, "lineno", None)

    def edge(self, kind, tgt):
        if tgt is None:
            return
        for k, t in self.succ:
            if k == kind and t is tgt:
                return
        self.succ.append((kind, tgt))
        tgt.pred.append((kind, self))

    def __repr__(self):
        return "<%d:%s@%s %s%s>" % (self.id, self.kind, self.lineno, self.label[:50], " fin=%s" % (self.fin,) if self.fin else "")


def expr_may_raise(e):
    """Conservative: may evaluating expression ``e`` raise?"""
    if e is None:
        return False
    if isinstance(e, (ast.Name, ast.Constant)):
        return False
    if isinstance(e, ast.Compare):
        if all(isinstance(o, (ast.Is, ast.IsNot)) for o in e.ops):
            return expr_may_raise(e.left) or any(expr_may_raise(c) for c in e.comparators)
        return True
    if isinstance(e, ast.UnaryOp) and isinstance(e.op, ast.Not):
        # ``not x`` calls __bool__ unless x is an identity test / constant
        if isinstance(e.operand, ast.Compare) and all(isinstance(o, (ast.Is, ast.IsNot)) for o in e.operand.ops):
            return expr_may_raise(e.operand)
        return True
    if isinstance(e, (ast.Tuple, ast.List, ast.Set)):
        return any(expr_may_raise(x) for x in e.elts)
    if isinstance(e, ast.Dict):
        return any(expr_may_raise(x) for x in list(e.keys) + list(e.values) if x is not None)
    if isinstance(e, ast.Lambda):
        return False
    if isinstance(e, ast.JoinedStr):
        return any(expr_may_raise(v) for v in e.values)
    if isinstance(e, ast.Starred):
        return True
    return True


def truth_test_may_raise(e):
    """``if e:`` -- truth-testing may call ``__bool__``/``__len__`` of an arbitrary object."""
    if isinstance(e, ast.Constant):
        return False
    if isinstance(e, ast.Compare) and all(isinstance(o, (ast.Is, ast.IsNot)) for o in e.ops):
        return expr_may_raise(e)
    if isinstance(e, ast.UnaryOp) and isinstance(e.op, ast.Not):
        return truth_test_may_raise(e.operand)
    if isinstance(e, ast.BoolOp):
        return any(truth_test_may_raise(v) for v in e.values)
    return True


def stmt_may_raise(st):
    if isinstance(st, (ast.Pass, ast.Break, ast.Continue, ast.Global, ast.Nonlocal)):
        return False
    if isinstance(st, (ast.FunctionDef, ast.AsyncFunctionDef, ast.ClassDef)):
        return False
    if isinstance(st, ast.Assign):
        if all(isinstance(t, ast.Name) for t in st.targets):
            return expr_may_raise(st.value)
        return True
    if isinstance(st, ast.AnnAssign):
        if isinstance(st.target, ast.Name):
            return expr_may_raise(st.value)
        return True
    if isinstance(st, ast.Expr):
        return expr_may_raise(st.value)
    if isinstance(st, ast.Return):
        return expr_may_raise(st.value)
    return True


class _Ctx:
    __slots__ = ("ret", "exc", "brk", "cont", "fin", "tries")

    def __init__(self, ret, exc, brk=None, cont=None, fin=(), tries=()):
        self.ret, self.exc, self.brk, self.cont, self.fin, self.tries = ret, exc, brk, cont, fin, tries

    def replace(self, **kw):
        c = _Ctx(self.ret, self.exc, self.brk, self.cont, self.fin, self.tries)
        for k, v in kw.items():
            setattr(c, k, v)
        return c


class CFG:
    def __init__(self, func_node):
        self.func = func_node
        self.nodes = []
        self.entry = self._new(ENTRY, func_node, label="entry")
        self.exit_return = self._new(EXIT_RETURN, func_node, label="return")
        self.exit_raise = self._new(EXIT_RAISE, func_node, label="raise")
        ctx = _Ctx(self.exit_return, self.exit_raise)
        self.entry.edge("n", self._block(func_node.body, self.exit_return, ctx))
        self._prune()

    # ------------------------------------------------------------------ construction
    def _new(self, kind, node=None, stmt=None, label="", ctx=None):
        n = Node(len(self.nodes), kind, node, stmt, label, ctx.fin if ctx is not None else ())
        if ctx is not None:
            n.in_try = ctx.tries
        self.nodes.append(n)
        return n

    def _block(self, stmts, k, ctx):
        entry = k
        for st in reversed(stmts):
            entry = self._stmt(st, entry, ctx)
        return entry

    def _stmt(self, st, k, ctx):
        if isinstance(st, ast.If):
            n = self._new("test", st.test, st, first_line(st.test), ctx)
            n.edge("T", self._block(st.body, k, ctx))
            n.edge("F", self._block(st.orelse, k, ctx) if st.orelse else k)
            if truth_test_may_raise(st.test):
                n.edge("exc", ctx.exc)
            return n
        if isinstance(st, (ast.For, ast.AsyncFor)):
            it = self._new("iter", st.iter, st, "iter(%s)" % first_line(st.iter, 60), ctx)
            head = self._new("next", st.target, st, "for %s in %s" % (src_of(st.target), first_line(st.iter, 60)), ctx)
            it.edge("n", head)
            it.edge("exc", ctx.exc)
            after = self._block(st.orelse, k, ctx) if st.orelse else k
            body = self._block(st.body, head, ctx.replace(brk=k, cont=head))
            head.edge("T", body)
            head.edge("F", after)
            head.edge("exc", ctx.exc)
            return it
        if isinstance(st, ast.While):
            head = self._new("test", st.test, st, "while " + first_line(st.test, 60), ctx)
            body = self._block(st.body, head, ctx.replace(brk=k, cont=head))
            head.edge("T", body)
            head.edge("F", self._block(st.orelse, k, ctx) if st.orelse else k)
            if truth_test_may_raise(st.test):
                head.edge("exc", ctx.exc)
            return head
        if isinstance(st, ast.Try):
            return self._try(st, k, ctx)
        if isinstance(st, (ast.With, ast.AsyncWith)):
            enter = self._new("with", st, st, "with " + ", ".join(first_line(i.context_expr, 40) for i in st.items), ctx)
            # __exit__ runs on every way out; modelled as transparent (no suppression) -- the repo uses no ``with``
            enter.edge("n", self._block(st.body, k, ctx))
            enter.edge("exc", ctx.exc)
            return enter
        if isinstance(st, ast.Return):
            n = self._new("return", st.value, st, first_line(st), ctx)
            n.edge("ret", ctx.ret)
            if expr_may_raise(st.value):
                n.edge("exc", ctx.exc)
            return n
        if isinstance(st, ast.Raise):
            n = self._new("raise", st, st, first_line(st), ctx)
            n.edge("exc", ctx.exc)
            return n
        if isinstance(st, ast.Break):
            n = self._new("break", st, st, "break", ctx)
            n.edge("n", ctx.brk)
            return n
        if isinstance(st, ast.Continue):
            n = self._new("continue", st, st, "continue", ctx)
            n.edge("n", ctx.cont)
            return n
        if isinstance(st, ast.Assert):
            n = self._new("test", st.test, st, "assert " + first_line(st.test, 80), ctx)
            fail = self._new("assertfail", st, st, "raise AssertionError", ctx)
            fail.edge("exc", ctx.exc)
            n.edge("T", k)
            n.edge("F", fail)
            if truth_test_may_raise(st.test):
                n.edge("exc", ctx.exc)
            return n
        if isinstance(st, (ast.FunctionDef, ast.AsyncFunctionDef, ast.ClassDef)):
            n = self._new("def", st, st, "def " + st.name, ctx)
            n.edge("n", k)
            return n
        n = self._new("stmt", st, st, first_line(st), ctx)
        n.edge("n", k)
        if stmt_may_raise(st):
            n.edge("exc", ctx.exc)
        return n

    def _try(self, st, k, ctx):
        tries_body = ctx.tries + ((st, "body"),)
        tries_handler = ctx.tries + ((st, "handler"),)
        tries_else = ctx.tries + ((st, "else"),)
        tries_fin = ctx.tries + ((st, "finally"),)

        def fin(cont, kind):
            if not st.finalbody or cont is None:
                return cont
            fctx = ctx.replace(fin=ctx.fin + ((st.lineno, kind),), tries=tries_fin)
            return self._block(st.finalbody, cont, fctx)

        k_n = fin(k, "normal")
        k_exc = fin(ctx.exc, "exc")
        k_ret = fin(ctx.ret, "return")
        k_brk = fin(ctx.brk, "break")
        k_cont = fin(ctx.cont, "continue")
        inner = _Ctx(k_ret, k_exc, k_brk, k_cont, ctx.fin, ctx.tries)
        if st.handlers:
            disp = self._new("dispatch", st, st, "except-dispatch", ctx)
            catch_all = False
            for h in st.handlers:
                hctx = inner.replace(tries=tries_handler)
                hentry = self._new("handler", h, st, "except " + (src_of(h.type) if h.type else "") + (" as " + h.name if h.name else ""), hctx)
                hentry.handler_of = h
                hentry.edge("n", self._block(h.body, k_n, hctx))
                disp.edge("handler", hentry)
                if h.type is None or src_of(h.type) == "BaseException":
                    catch_all = True
            if not catch_all:
                disp.edge("unmatched", k_exc)
            body_ctx = inner.replace(exc=disp, tries=tries_body)
        else:
            body_ctx = inner.replace(tries=tries_body)
        after_body = self._block(st.orelse, k_n, inner.replace(tries=tries_else)) if st.orelse else k_n
        return self._block(st.body, after_body, body_ctx)

    def _prune(self):
        """Drop nodes that are unreachable from the entry (e.g. unused finally copies)."""
        seen = set()
        stack = [self.entry]
        while stack:
            n = stack.pop()
            if n.id in seen:
                continue
            seen.add(n.id)
            for _, t in n.succ:
                stack.append(t)
        seen.add(self.exit_return.id)
        seen.add(self.exit_raise.id)
        self.nodes = [n for n in self.nodes if n.id in seen]
        for n in self.nodes:
            n.pred = [(k, p) for (k, p) in n.pred if p.id in seen]

    # ------------------------------------------------------------------ queries
    def edges(self):
        return sum(len(n.succ) for n in self.nodes)

    def nodes_of(self, stmt):
        return [n for n in self.nodes if n.stmt is stmt]

    def dominators(self):
        """Map node -> set of nodes dominating it (iterative; the graphs have < 150 nodes)."""
        allids = set(n.id for n in self.nodes)
        dom = {n.id: set(allids) for n in self.nodes}
        dom[self.entry.id] = {self.entry.id}
        changed = True
        while changed:
            changed = False
            for n in self.nodes:
                if n is self.entry:
                    continue
                preds = [p for _, p in n.pred]
                if preds:
                    new = set.intersection(*(dom[p.id] for p in preds)) | {n.id}
                else:
                    new = {n.id}
                if new != dom[n.id]:
                    dom[n.id] = new
                    changed = True
        return dom

    def reachable_from(self, start, edge_filter=None, stop=None):
        """Set of node ids reachable from ``start`` (a Node or list of Nodes), not passing through ``stop`` ids."""
        starts = start if isinstance(start, (list, tuple, set)) else [start]
        seen = set()
        stack = list(starts)
        while stack:
            n = stack.pop()
            if n.id in seen:
                continue
            seen.add(n.id)
            if stop and n.id in stop:
                continue
            for k, t in n.succ:
                if edge_filter is not None and not edge_filter(k, n, t):
                    continue
                stack.append(t)
        return seen

    def dump(self):
        out = []
        for n in self.nodes:
            out.append("%3d %-10s L%-5s %-60s -> %s" % (n.id, n.kind, n.lineno, n.label[:60], ", ".join("%s:%d" % (k, t.id) for k, t in n.succ)))
        return "\n".join(out)


def walk_shallow(node):
    """Like ast.walk but does not descend into nested function/class/lambda bodies or comprehensions' scopes."""
    stack = [node]
    while stack:
        n = stack.pop()
        yield n
        for ch in ast.iter_child_nodes(n):
            if isinstance(ch, (ast.FunctionDef, ast.AsyncFunctionDef, ast.ClassDef, ast.Lambda)):
                continue
            stack.append(ch)


def eval_order(node):
    """Sub-expressions of a CFG node's expression/statement in (approximate) evaluation order (post-order).

    Yields (expr, conditional) where ``conditional`` is True for operands that short-circuiting may skip.
    Does not descend into nested defs / lambdas.
    """
    out = []

    def rec(e, cond):
        if e is None:
            return
        if isinstance(e, (ast.FunctionDef, ast.AsyncFunctionDef, ast.ClassDef, ast.Lambda)):
            return
        if isinstance(e, ast.BoolOp):
            for i, v in enumerate(e.values):
                rec(v, cond or i > 0)
            out.append((e, cond))
            return
        if isinstance(e, ast.IfExp):
            rec(e.test, cond)
            rec(e.body, True)
            rec(e.orelse, True)
            out.append((e, cond))
            return
        if isinstance(e, ast.Assign):
            rec(e.value, cond)
            for t in e.targets:
                rec(t, cond)
            out.append((e, cond))
            return
        if isinstance(e, ast.AnnAssign):
            rec(e.value, cond)
            rec(e.target, cond)
            out.append((e, cond))
            return
        if isinstance(e, ast.AugAssign):
            rec(e.target, cond)
            rec(e.value, cond)
            out.append((e, cond))
            return
        if isinstance(e, ast.Call):
            rec(e.func, cond)
            for a in e.args:
                rec(a, cond)
            for kw in e.keywords:
                rec(kw.value, cond)
            out.append((e, cond))
            return
        if isinstance(e, (ast.ListComp, ast.SetComp, ast.GeneratorExp, ast.DictComp)):
            # the first iterable is evaluated in the enclosing scope; the rest conditionally, in a nested scope
            rec(e.generators[0].iter, cond)
            for g in e.generators:
                if g is not e.generators[0]:
                    rec(g.iter, True)
                for i in g.ifs:
                    rec(i, True)
            if isinstance(e, ast.DictComp):
                rec(e.key, True)
                rec(e.value, True)
            else:
                rec(e.elt, True)
            out.append((e, cond))
            return
        for ch in ast.iter_child_nodes(e):
            if isinstance(ch, (ast.expr_context, ast.operator, ast.cmpop, ast.unaryop, ast.boolop)):
                continue
            rec(ch, cond)
        out.append((e, cond))

    rec(node, False)
    return out
