#!/venv/bin/python
"""Run every catalogue variant against the checks of the properties expected to report it (in memory)."""
import os
import sys
from multiprocessing import Pool

HERE = os.path.dirname(os.path.dirname(os.path.abspath(__file__)))
sys.path.insert(0, HERE)
import check  # noqa: E402
from sa import model as sa_model  # noqa: E402
from sa.audit import runner  # noqa: E402


def one(v):
    vid, props, desc, overlay = v
    if overlay is None:
        return vid, props, desc, None
    res = {}
    for p in props:
        try:
            run, mod = check.analyse(p, "quick", None, overlay, None)
            viol = run.violations()
            res[p] = (sorted(set(o.rule for o in viol)), run.errors[:1])
        except sa_model.AnalysisError as err:
            res[p] = ([], [str(err)[:100]])
        except Exception as err:  # pylint: disable=broad-except
            res[p] = ([], ["CRASH %r" % err])
    return vid, props, desc, res


def main():
    only = [a for a in sys.argv[1:] if not a.startswith("-")]
    vs = [v for v in runner.catalogue_variants() if not only or v[0] in only or any(v[0].startswith(o) for o in only)]
    with Pool(16) as pool:
        results = pool.map(one, vs)
    missed = 0
    for vid, props, desc, res in results:
        if res is None:
            print("%-28s NOT-APPLICABLE (text not found / does not parse)" % vid)
            continue
        line = []
        for p in props:
            rules, errs = res[p]
            if rules:
                line.append("%s:%s" % (p, ",".join(r.split(".", 1)[1] for r in rules)))
            else:
                missed += 1
                line.append("%s:MISSED%s" % (p, ("(" + errs[0][:60] + ")") if errs else ""))
        print("%-28s %s" % (vid, "  ".join(line)[:230]))
    print("missed (property, variant) pairs: %d" % missed)


if __name__ == "__main__":
    main()
