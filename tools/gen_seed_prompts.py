#!/venv/bin/python
"""Write the task files for independent sub-agents that seed property-breaking changes.

usage: gen_seed_prompts.py <outdir> <worktree-prefix> [style]
  one file <outdir>/prompt_Cxx.txt per property; the agent gets ONLY that text and its own scratch worktree
  <worktree-prefix>xx (created by the caller with `git -C /repo worktree add --detach`), nothing from /verif.
  style: 'quiet' (round 3: avoid the central code) or 'refactor' (round 4: the change is embedded in a refactoring)
"""
import json, os, sys

out, prefix = sys.argv[1], sys.argv[2]
style = sys.argv[3] if len(sys.argv) > 3 else "quiet"
os.makedirs(out, exist_ok=True)

QUIET = """Make the two changes DIFFERENT IN KIND from each other: touch different functions (ideally different modules), and break different clauses of the property. AVOID the most central code named in the anchors (the two `wrapper` closures of `decorate_with_checker`, the `_assert_*`/`_capture_old*` helpers, `_create_violation_error`, `_collapse_*`, `visit_BoolOp`/`visit_Compare`, `repr_values`, `find_checker`): earlier rounds already covered those. Look for the quiet places instead -- the smaller helper functions the mechanism depends on, `_types.py`, `_globals.py`, `icontract/__init__.py`, the decorators' `__init__`/`__call__`, `add_invariant_checks` and the three invariant wrappers, `DBCMeta.__new__`/`_dbc_decorate_namespace`/`_decorate_namespace_property`, and in the message machinery `inspect_decorator`, `find_lambda_condition`, `inspect_lambda_condition`, `collect_variable_lookup`, `generate_message`, the `_represent.Visitor` methods and the less common `_recompute.Visitor` methods. A change may also be applied consistently to BOTH the sync and the async variant of duplicated code."""

REFACTOR = """Make the two changes DIFFERENT IN KIND from each other: touch different functions (ideally different modules), and break different clauses of the property.

IMPORTANT for this round: real regressions rarely arrive as a one-token edit. EMBED each behaviour change in a plausible REFACTORING of the code it lives in, as a real commit would: for example extract a helper function (and put the slip into the helper or into the way it is called), merge duplicated sync/async code into a shared helper, restructure if/else chains into early returns, replace a loop by a comprehension / any() / all() / dict or set operations, introduce a temporary or a small data structure, rename locals, move a computation to a different place (hoist it out of a loop, move it from call time to decoration time or vice versa, cache it on an object), replace an isinstance ladder by a lookup table, change an internal function's signature and its call sites. The refactoring itself should look like an improvement; the behaviour change should hide inside it (20-120 changed lines per change is fine). Any part of the library may be touched, including the central wrappers and helpers."""

TEMPLATE = """You are helping to evaluate a verification tool for the Python library **icontract** (design-by-contract decorators: `require`, `ensure`, `snapshot`, `invariant`, contract inheritance through the `DBC`/`DBCMeta` metaclass, and an AST re-evaluator that builds violation messages).

You have your own scratch git worktree of the library at `{wt}`. Work ONLY inside `{wt}` and `{out}/{pid}`. Never modify, and do not read, anything under `/repo` or `/verif` or other `/tmp/wt*` directories. Do not use `git stash` (the stash is shared by all worktrees of a repository; other people work in sibling worktrees): to get back to the clean tree save `git diff` to a file and run `git checkout -- .`.

## The property

The following semantic property of icontract should hold (JSON record; `anchors` point at the code meant to make it hold -- line numbers may be off by some lines):

```json
{record}
```

## Your task

Produce TWO independent changes (call them `a`, `b`) to the library source under `{wt}/icontract/` such that each change, applied alone,

1. BREAKS the property above (some program / input / history / schedule exists for which the property's statement is false with the change and true without it),
2. still imports fine, and the existing test suite still passes exactly as before. Run it with
   `cd {wt} && /venv/bin/python -m pytest -q -p no:cacheprovider --timeout=900 --continue-on-collection-errors 2>&1 | tail -8`
   The unmodified tree gives `6 failed, 358 passed, 3 skipped` (the 6 failures are pre-existing: tests/test_globals.py::TestSlow::test_slow_set, two `test_abstract_method_not_implemented`, three in tests/test_mypy_decorators.py). With your change the result must be the same 358 passes and the same 6 failures.
3. is REALISTIC and SUBTLE: the kind of regression a maintainer could plausibly introduce (a refactoring slip, an "optimisation", a "simplification", a well-meant but wrong fix, an off-by-one, a lost special case, a helper extracted with a slightly different condition, a changed default, caching, a swapped argument, an exception handler that is a bit too broad, ...). It must need something specific to manifest -- an unusual input or call shape, a multi-step sequence of operations, a fault/exception at a particular point, a particular interleaving of threads/tasks, a particular class hierarchy shape, or two cooperating code sites that each look fine alone. NOT acceptable: something ordinary use would expose at once, syntax errors, deleting the feature wholesale, making every call fail, changes to tests or docs, or changes outside `icontract/`.

{style}

For each change write three files into `{out}/{pid}/a/`, `.../b/`:

* `patch.diff` -- the output of `git -C {wt} diff` with only that change applied relative to HEAD (so that `git apply patch.diff` works on a clean tree).
* `demo.py` -- a small self-contained demonstration. It MUST start with `import sys, os; sys.path.insert(0, os.getcwd())` so that it imports the `icontract` of the directory it is run from. Run as `cd {wt} && /venv/bin/python {out}/{pid}/a/demo.py`. On the unmodified tree it prints `PASS` and exits 0; on the changed tree it prints `FAIL: <what went wrong>` and exits 1. It must not need network or extra packages (stdlib + icontract only), and must finish within a few seconds.
* `meta.json` -- `{{"property": "{pid}", "title": "<short name of the change>", "breaks": "<which clause of the property breaks>", "needs": "<what is needed for it to manifest>", "files_touched": [...], "why_tests_pass": "<why the 358 tests do not notice>"}}`

Procedure for each change: edit the source; run the test suite (must be unchanged); run the demo (must FAIL); save `git diff` to patch.diff; then `git -C {wt} checkout -- .`; run the demo again (must PASS). Leave the worktree clean at the end (`git -C {wt} status --short` prints nothing).

Read the relevant library source first (it is small: `icontract/_checkers.py`, `_decorators.py`, `_metaclass.py`, `_recompute.py`, `_represent.py`, `_types.py`, `_globals.py`). Your final answer: a brief description of the two changes (file, function, what was changed, what it needs to manifest) and confirmation of the test/demo results you observed.
"""

# round 5: re-introduce what a recent fix: commit repaired, in a different way (the commits are part of the worktree's
# own git history, so the agent still sees nothing but the property and its worktree)
FIXES = {
    "C01": ["ed3f58f", "d933def", "306abce"], "C02": ["ed3f58f"], "C03": ["3ca852e", "6189f55", "734defe", "67f148f"], "C04": ["a8c8963", "8114c3c", "a3f40e9", "8ef624f"],
    "C05": ["c71f4c0"], "C06": ["ba17563", "14676ac", "4ec175a", "d933def", "306abce", "f63feb4"], "C07": ["b355af9", "4ec175a", "beef00c", "1d7179f", "f63feb4"], "C08": ["8857650", "8114c3c"],
    "C09": ["ed3f58f"], "C10": ["dd89c99", "f0f4b08", "3ca852e"], "C11": ["dd89c99", "ed3f58f"], "C12": ["d15cbe3"], "C13": ["f540614", "1d7179f"],
    "C14": ["8295018", "734defe", "65a6560", "67f148f"], "C16": ["a3f40e9", "67f148f"], "C17": ["f2cf747", "a3f40e9", "81d5716", "8ef624f", "baf292d"], "C19": ["8857650"],
}
REGRESS = """Make the two changes DIFFERENT IN KIND from each other: touch different functions (ideally different modules), and break different clauses of the property.

IMPORTANT for this round: the git history of your worktree contains recent bug-fix commits (`git log --oneline | grep fix:`; look at them with `git show <hash>`). {relevant}At least ONE of your two changes must RE-INTRODUCE the misbehaviour that one of these fix commits repaired -- but NOT as a revert and not by editing the repaired lines back: achieve it differently, as a later maintainer who has forgotten the fix might -- a new fast path or cache that bypasses the repaired code, a refactoring that loses the repaired behaviour at another site (a helper, a caller, a sibling sync/async copy, the metaclass vs. the decorator path), an equivalent-looking rewrite of the repaired logic that is not equivalent for the special case the fix was about, a second code path that reaches the same state without going through the repaired one. The other change is free (any realistic subtle regression of the property). Any part of the library may be touched."""

SMALL = """For this round produce FOUR changes (`a`, `b`, `c`, `d`) instead of two, and keep each of them SMALL: 1 to 5 changed lines, the kind of edit that slips through review -- a comparison operator or a boundary changed, a condition negated or one conjunct dropped, `is` vs `==`, `and` vs `or`, an argument swapped or left out, a default changed, a statement moved a few lines up or down (before/after a call, into/out of a `try`, `if`, loop), a `break`/`continue`/`return` added or removed, a copy dropped (`list(x)` -> `x`), `sorted(...)` dropped, an attribute read replaced by a neighbouring one, a literal changed. Spread the four changes over different functions (and modules where the property allows it) and over different clauses of the property. Each must still need something specific to manifest (so that the 358 tests stay green) and each must be a realistic slip, not vandalism."""

SMALL2 = SMALL + """

Additionally for this round: AVOID the statements a reviewer would look at first (the `if violation_error is not None: raise ...` gates and the order of the phases in the two `wrapper` closures of `decorate_with_checker`, the loops of `_assert_preconditions`/`_assert_postconditions`, the list concatenations in `_collapse_*`, the `_IN_PROGRESS` set/reset lines). Prefer slips that depend on DATA rather than on control flow: the wrong one of two variables of the same type (`resolved_kwargs` vs `condition_kwargs`, `base` vs `cls`, `func` vs `wrapper`, `node.body` vs `node.orelse`), a wrong dictionary key or attribute name of a sibling (`__postconditions__` for `__preconditions__`, `fset` for `fget`), an index or slice off by one, a `getattr`/`dict.get` default changed, an `except` clause widened or narrowed, a keyword argument not passed on (so the callee's default applies), a `functools.wraps`/`update_wrapper` detail, a condition on `len(...)`/emptiness/`None` that treats one boundary case differently, a string constant of an error message or a reserved name changed in one of two places that must agree, a flag initialised with the wrong value. Also consider the less-travelled code: `_types.py`, `_globals.py`, the decorators' `__init__`, `kwargs_from_call`, `resolve_kwdefaults`, `select_*_kwargs`, `_find_self`, `_already_decorated_with_invariants`, `add_invariant_checks`, `_decorate_new_with_invariants`, `_decorate_namespace_property`, `_dbc_decorate_namespace`, `DBCMeta` itself, `is_lambda`, `inspect_decorator`, `find_lambda_condition`, `collect_variable_lookup`, `_representable`, the rarely used `visit_*` methods of both visitors (Slice, Starred, Dict/Set displays, FormattedValue, JoinedStr, NamedExpr, Lambda, Await), `_execute_comprehension`, `_translate_all_expression_to_a_module`."""

OPT = """For this round produce THREE changes (`a`, `b`, `c`), and make each of them a well-meant PERFORMANCE OPTIMISATION or SIMPLIFICATION of the kind a maintainer profiling the library would commit -- one that happens to break the property. Ideas: compute something once at decoration / class-creation time instead of at every call (signature data, the lists of contracts, the selected invariants, a lookup table) although it can change later; cache a result on the function, the contract, the class or in a module-level dict keyed by something that is not unique enough (`id(...)` of a short-lived object, a name, a code object, a signature); add a fast path that skips work when it 'obviously' is not needed (no postconditions, no snapshots, empty kwargs, a single group, an already-seen object, the common sync case) but skips slightly too much; hoist a statement out of a loop or a `try`; replace a copy by a reference or a fresh container by a shared default; short-circuit a loop early; replace a general mechanism (ContextVar, MRO lookup, `inspect.signature`, `getattr_static`) by a cheaper approximation (a plain attribute, `__dict__`, `__code__.co_varnames`, a thread-local or module global); avoid a second pass by merging two loops; drop a 'redundant' check, re-validation, `sorted`, `list(...)` or `copy`; build a message or repr lazily or eagerly instead of the other way round. 5-40 changed lines each; each change should come with a short comment or docstring line that a real commit would carry (the motivation), and must not mention that it breaks anything. Spread the three over different functions and clauses of the property."""

ROBUST = """For this round produce THREE changes (`a`, `b`, `c`), and make each of them a well-meant HARDENING / LENIENCY / CONVENIENCE change of the kind that arrives as 'make icontract more robust' or 'be friendlier to users' -- one that happens to break the property. Ideas: wrap something in `try/except` and fall back (to a default value, to skipping the step, to a simpler message, to `repr()`), so that an error that should surface is absorbed or replaced; accept more inputs than before (duck-typing instead of an exact test, `callable()` instead of `isfunction`, truthiness instead of `is None`, a missing argument filled with `None` instead of a TypeError, awaitables accepted where coroutines were required, subclasses / proxies / partials treated like the real thing); tolerate an inconsistent state instead of raising (`dict.get` with a default, `getattr(..., None)`, `setdefault`, ignoring a duplicate, de-duplicating, clamping an index); add a guard against a rare crash that also skips legitimate work (`if not x: return`, `hasattr` checks, early exit for empty input); reset or clean up state 'defensively' (clearing the in-progress marker, re-creating a list, copying 'to be safe' -- or not copying to 'keep identity'); make behaviour depend on an environment variable, `__debug__`, `sys.flags` or the interpreter version 'for compatibility'; log / warn instead of raise; retry once. 5-40 changed lines each; each change should come with the short comment or docstring line a real commit would carry (the motivation), and must not mention that it breaks anything. Spread the three over different functions and clauses of the property."""

FEATURE = """For this round produce THREE changes (`a`, `b`, `c`), and make each of them a small well-meant FEATURE, EXTENSION or 'FIX' of something else, of the kind that arrives as a pull request from a user -- one that happens to break the property for inputs its author did not think of. Ideas: support a new kind of decorated object or condition (functools.partial, bound methods, callable objects, classmethod/staticmethod objects given directly, generators / async generators, `typing.Protocol` or dataclass-generated methods, slots classes, descriptors other than property) by adding a branch that slightly changes what the existing kinds get; add an optional parameter, environment switch or module-level setting (a global default error, a global enable flag, a per-class opt-out, a 'strict' mode, a maximum message length) whose default path is not exactly the old behaviour; make messages 'nicer' (extra context, truncation, de-duplication of values, different ordering, showing `self`, hiding long reprs, i18n-style templates); make inheritance 'smarter' (skip contracts that are identical, merge equal snapshots by name, let a subclass opt out, propagate invariants to nested classes, treat `__init_subclass__`/mixins specially); add convenience aliases or reserved argument names (`_ARGS`, `_KWARGS`, `result`, `OLD`, `self`-like names such as `this`/`cls`) that shadow or reinterpret user parameters; 'fix' an annoyance (allow a condition to return None as 'no opinion', allow error= to be a string, re-raise user exceptions wrapped in ViolationError, evaluate postconditions also when the body raises, check invariants also on private methods or on `__repr__`, un-suspend checks inside conditions) in a way that changes a documented verdict; adapt to a newer Python (use `inspect.get_annotations`, `functools.cache`, `match`, `ExceptionGroup`, `contextvars.Context.run`, `asyncio.TaskGroup`, positional-only syntax) with a subtle difference. 5-40 changed lines each; each change should come with the short comment or docstring line a real pull request would carry (the motivation), and must not mention that it breaks anything. Spread the three over different functions and clauses of the property."""

for line in open("/verif/properties.jsonl"):
    rec = json.loads(line)
    pid = rec["id"]
    wt = prefix + pid[1:]
    if style in ("small", "small2"):
        st = SMALL if style == "small" else SMALL2
    elif style == "opt":
        st = OPT
    elif style == "robust":
        st = ROBUST
    elif style == "feature":
        st = FEATURE
    elif style == "regress":
        hashes = FIXES.get(pid, [])
        relevant = ("The ones most relevant to this property: %s. " % ", ".join(hashes)) if hashes else "Pick whichever of them touches this property's mechanism (if none does, both changes are free). "
        st = REGRESS.format(relevant=relevant)
    else:
        st = REFACTOR if style == "refactor" else QUIET
    text = TEMPLATE.format(wt=wt, out=out, pid=pid, record=json.dumps(rec, indent=1), style=st)
    if style in ("small", "small2"):
        text = text.replace("Produce TWO independent changes (call them `a`, `b`)", "Produce FOUR independent changes (call them `a`, `b`, `c`, `d`)").replace("`{out}/{pid}/a/`, `.../b/`:".format(out=out, pid=pid), "`{out}/{pid}/a/`, `.../b/`, `.../c/`, `.../d/`:".format(out=out, pid=pid)).replace("a brief description of the two changes", "a brief description of the four changes")
    if style in ("opt", "robust", "feature"):
        text = text.replace("Produce TWO independent changes (call them `a`, `b`)", "Produce THREE independent changes (call them `a`, `b`, `c`)").replace("`{out}/{pid}/a/`, `.../b/`:".format(out=out, pid=pid), "`{out}/{pid}/a/`, `.../b/`, `.../c/`:".format(out=out, pid=pid)).replace("a brief description of the two changes", "a brief description of the three changes")
    open(os.path.join(out, "prompt_%s.txt" % pid), "w").write(text)
print("wrote 20 prompts to", out)
