#!/venv/bin/python
"""Run the checks against every seeded change, in memory (the patch is applied to a copy of the sources held in
a dict; /repo is never touched).

usage: tools/seedcheck.py [seed-id ...] [--props=C01,C02] [-v] [--update]
Prints, per seeded change, which properties' checks report a violation (and under which rule).
--update writes the detection matrix to seeded/matrix.json and `detected_by` into each meta.json.
"""
import json
import os
import sys
from multiprocessing import Pool

HERE = os.path.dirname(os.path.dirname(os.path.abspath(__file__)))
sys.path.insert(0, HERE)
import check  # noqa: E402
from sa import model as sa_model  # noqa: E402
from sa.audit import runner  # noqa: E402


def one(args):
    s, props = args
    d = os.path.join(HERE, "seeded", s)
    meta = json.load(open(os.path.join(d, "meta.json")))
    files = runner.apply_unified_diff(runner.current_sources(), open(os.path.join(d, "patch.diff")).read())
    if files is None:
        return s, meta, None, ["PATCH-FAILED"]
    overlay = runner.overlay_of(files)
    hits, errs = [], []
    for p in props:
        try:
            run, mod = check.analyse(p, "quick", None, overlay, None)
            for e in run.errors:
                errs.append("%s:ANALYSIS-ERROR(%s)" % (p, e[:70]))
            vac = run.vacuous()
            if vac and not run.violations():
                errs.append("%s:ANALYSIS-ERROR(%s)" % (p, vac[0][:60]))
            for o in run.violations():
                hits.append((p, o.rule, o.construct, o.detail))
        except sa_model.AnalysisError as err:
            errs.append("%s:ANALYSIS-ERROR(%s)" % (p, str(err)[:80]))
        except Exception as err:  # pylint: disable=broad-except
            errs.append("%s:CRASH(%r)" % (p, err))
    return s, meta, hits, errs


def main():
    args = [a for a in sys.argv[1:] if not a.startswith("-")]
    verbose = "-v" in sys.argv
    update = "--update" in sys.argv
    props = check.PROPS
    for a in sys.argv[1:]:
        if a.startswith("--props"):
            props = a.split("=", 1)[1].split(",")
    seeds = sorted(x for x in os.listdir(os.path.join(HERE, "seeded")) if os.path.isdir(os.path.join(HERE, "seeded", x)))
    if args:
        seeds = [s for s in seeds if s in args]
    with Pool(16) as pool:
        results = pool.map(one, [(s, props) for s in seeds])
    missed, matrix = [], {}
    for s, meta, hits, errs in results:
        if hits is None:
            print("%s %s" % (s, errs))
            continue
        target = meta.get("property", s[:3])
        own = [h for h in hits if h[0] == target]
        rules = sorted(set(h[1] for h in hits))
        status = "DETECTED" if own else ("detected-elsewhere" if hits else "MISSED")
        if not own:
            missed.append(s)
        matrix[s] = {"property": target, "detected_by": sorted(set(h[0] for h in hits)), "rules": rules}
        print("%-6s %-18s %-58s %s %s" % (s, status, meta.get("title", "")[:58], ",".join(rules)[:150], " ".join(errs)[:200]))
        if verbose:
            for h in hits:
                print("      %s %s: %s" % (h[1], h[2], h[3][:160]))
        if update:
            meta["detected_by"] = matrix[s]["detected_by"]
            meta["detected_by_rules"] = rules
            json.dump(meta, open(os.path.join(HERE, "seeded", s, "meta.json"), "w"), indent=1)
    print("not detected by the own property's check: %s" % " ".join(missed))
    if update and not args:
        json.dump(matrix, open(os.path.join(HERE, "seeded", "matrix.json"), "w"), indent=1, sort_keys=True)


if __name__ == "__main__":
    main()
