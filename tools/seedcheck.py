#!/venv/bin/python
"""Run the checks against every seeded change (applied to a scratch copy of the package, never to /repo).

usage: tools/seedcheck.py [seed-id ...] [--props C01,C02] [-v]
Prints, per seeded change, which properties' checks report a violation (and under which rule).
"""
import json
import os
import shutil
import subprocess
import sys
import tempfile

HERE = os.path.dirname(os.path.dirname(os.path.abspath(__file__)))
sys.path.insert(0, HERE)
import check  # noqa: E402
from sa import model as sa_model  # noqa: E402


def main():
    args = [a for a in sys.argv[1:] if not a.startswith("-")]
    verbose = "-v" in sys.argv
    props = check.PROPS
    for a in sys.argv[1:]:
        if a.startswith("--props"):
            props = a.split("=", 1)[1].split(",")
    seeds = sorted(os.listdir(os.path.join(HERE, "seeded")))
    if args:
        seeds = [s for s in seeds if s in args]
    available = [p for p in props if os.path.exists(os.path.join(HERE, "sa", "rules", p.lower() + ".py"))]
    missed = []
    for s in seeds:
        d = os.path.join(HERE, "seeded", s)
        meta = json.load(open(os.path.join(d, "meta.json")))
        tmp = tempfile.mkdtemp(prefix="seed_")
        try:
            shutil.copytree(os.path.join(sa_model.REPO, "icontract"), os.path.join(tmp, "icontract"))
            r = subprocess.run(["patch", "-s", "-p1", "-d", tmp, "-i", os.path.join(d, "patch.diff")], capture_output=True, text=True)
            if r.returncode != 0:
                print("%s PATCH-FAILED %s" % (s, r.stdout + r.stderr))
                continue
            hits = []
            errs = []
            for p in available:
                try:
                    run, mod = check.analyse(p, "quick", tmp, None, None)
                    for e in run.errors:
                        errs.append("%s:ANALYSIS-ERROR(%s)" % (p, e[:70]))
                    vac = run.vacuous()
                    if vac and not run.violations():
                        errs.append("%s:ANALYSIS-ERROR(%s)" % (p, vac[0][:60]))
                    for o in run.violations():
                        hits.append((p, o.rule, o.construct, o.detail))
                except sa_model.AnalysisError as err:
                    errs.append("%s:ANALYSIS-ERROR(%s)" % (p, str(err)[:80]))
                except Exception as err:  # pylint: disable=broad-except
                    errs.append("%s:CRASH(%r)" % (p, err))
            target = meta.get("property", s[:3])
            own = [h for h in hits if h[0] == target]
            rules = sorted(set(h[1] for h in hits))
            status = "DETECTED" if own else ("detected-elsewhere" if hits else "MISSED")
            if not hits:
                missed.append(s)
            print("%-5s %-18s %-60s %s %s" % (s, status, meta.get("title", "")[:60], ",".join(rules), " ".join(errs)))
            if verbose:
                for h in hits:
                    print("      %s %s: %s" % (h[1], h[2], h[3][:160]))
        finally:
            shutil.rmtree(tmp, ignore_errors=True)
    print("missed: %s" % " ".join(missed))


if __name__ == "__main__":
    main()
