#!/bin/bash
# usage: reconfirm_seeds.sh <worktree> <seed-id>...   -- re-confirm stored seeded changes against the worktree's HEAD
WT=$1; shift
cd $WT || exit 2
for ID in "$@"; do
  D=/verif/seeded/$ID
  git checkout -q -- . ; git clean -fdq
  /venv/bin/python $D/demo.py >/dev/null 2>&1; RC1=$?
  if ! git apply $D/patch.diff 2>/dev/null; then echo "$ID APPLY-FAILED"; continue; fi
  R=$(/venv/bin/python -m pytest -q -p no:cacheprovider --timeout=900 --continue-on-collection-errors 2>&1)
  T=$(echo "$R" | tail -1 | sed 's/ in [0-9.]*s.*//')
  F=$(echo "$R" | grep ^FAILED | sed 's/ - .*//' | sort | md5sum | cut -c1-8)
  /venv/bin/python $D/demo.py >/dev/null 2>&1; RC2=$?
  git checkout -q -- . ; git clean -fdq
  echo "$ID demo_clean=$RC1 tests='$T' failset=$F demo_changed=$RC2"
done
