#!/venv/bin/python
"""Copy confirmed candidate changes from a scratch output directory into /verif/seeded/<id>/.
usage: import_seeds.py <outdir> <round-tag> <base-commit-text> Cxx [Cyy ...]"""
import json, os, shutil, sys
out, tag, base = sys.argv[1], sys.argv[2], sys.argv[3]
HERE = os.path.dirname(os.path.dirname(os.path.abspath(__file__)))
for p in sys.argv[4:]:
    lines = {}
    for l in open(os.path.join(out, "confirm_%s.txt" % p)):
        if l.startswith(p + "/"):
            lines[l.split()[0].split("/")[1]] = l.strip()
    for v in sorted(lines):
        res = lines[v]
        ok = "demo_clean=0" in res and "358 passed" in res and "6 failed" in res and "failset=95c1cf41" in res and "demo_changed=1" in res
        if not ok:
            print("NOT CONFIRMED", res)
            continue
        src = os.path.join(out, p, v)
        dst = os.path.join(HERE, "seeded", "%s%s%s" % (p, tag, v))
        os.makedirs(dst, exist_ok=True)
        shutil.copy(os.path.join(src, "patch.diff"), os.path.join(dst, "patch.diff"))
        shutil.copy(os.path.join(src, "demo.py"), os.path.join(dst, "demo.py"))
        try:
            meta = json.load(open(os.path.join(src, "meta.json")))
        except Exception:
            meta = {"property": p, "title": "(meta.json of the author did not parse)"}
        meta["property"] = p
        meta["id"] = "%s%s%s" % (p, tag, v)
        meta["source"] = "independent sub-agent given only the property record and a scratch worktree (round %s)" % tag
        meta["base_commit"] = base
        meta["confirmed"] = {"how": "confirm script in a scratch worktree: demo on clean tree, apply patch, full pinned test suite, demo on changed tree, revert", "result": res, "expect": "demo_clean=0, tests 358 passed / same 6 failures (failset 95c1cf41), demo_changed=1"}
        json.dump(meta, open(os.path.join(dst, "meta.json"), "w"), indent=1)
        print("imported", meta["id"])
