#!/venv/bin/python
"""Run all checks against behaviour-preserving refactorings (in memory): every check must stay silent.

usage: tools/neutralcheck.py [dir-with-<id>/patch.diff ...]   (default: /verif/neutral)
"""
import json
import os
import sys
from multiprocessing import Pool

HERE = os.path.dirname(os.path.dirname(os.path.abspath(__file__)))
sys.path.insert(0, HERE)
import check  # noqa: E402
from sa import model as sa_model  # noqa: E402
from sa.audit import runner  # noqa: E402


def one(args):
    nid, path = args
    files = runner.apply_unified_diff(runner.current_sources(), open(path).read())
    if files is None:
        return nid, None
    overlay = runner.overlay_of(files)
    out = []
    for p in check.PROPS:
        try:
            run, mod = check.analyse(p, "quick", None, overlay, None)
            for o in run.violations():
                out.append("%s VIOLATION %s %s: %s" % (p, o.rule, o.construct, o.detail[:140]))
            for e in run.errors:
                out.append("%s ANALYSIS-ERROR %s" % (p, e[:160]))
            vac = run.vacuous()
            if vac and not run.violations():
                out.append("%s ANALYSIS-ERROR %s" % (p, vac[0][:160]))
        except sa_model.AnalysisError as err:
            out.append("%s ANALYSIS-ERROR %s" % (p, str(err)[:160]))
        except Exception as err:  # pylint: disable=broad-except
            out.append("%s CRASH %r" % (p, err))
    return nid, out


def main():
    roots = [a for a in sys.argv[1:] if not a.startswith("-")] or [os.path.join(HERE, "neutral")]
    items = []
    for r in roots:
        for dirpath, dirs, files in os.walk(r):
            if "patch.diff" in files:
                items.append((os.path.relpath(dirpath, r) if dirpath != r else os.path.basename(r), os.path.join(dirpath, "patch.diff")))
    items.sort()
    with Pool(16) as pool:
        results = pool.map(one, items)
    bad = 0
    for nid, out in results:
        if out is None:
            print("%-10s PATCH-DOES-NOT-APPLY" % nid)
            continue
        if not out:
            print("%-10s silent" % nid)
        else:
            bad += 1
            print("%-10s %d alarm(s)" % (nid, len(out)))
            for l in out[:12]:
                print("      " + l)
    print("neutral variants with alarms: %d of %d" % (bad, len(results)))


if __name__ == "__main__":
    main()
