#!/bin/bash
# usage: confirm_seed.sh <Cxx> <a|b>   -- confirm a candidate change in its scratch worktree /tmp/wt/<Cxx>
# prints one line: <id> demo_clean=<rc> tests=<summary> demo_changed=<rc>
P=$1; V=$2
WT=/tmp/wt/$P; OUT=/tmp/wt-out/$P/$V
cd $WT || exit 2
git checkout -q -- . ; git clean -fdq
/venv/bin/python $OUT/demo.py >/tmp/wt-out/$P/$V.clean.log 2>&1; RC1=$?
git apply $OUT/patch.diff || { echo "$P/$V APPLY-FAILED"; exit 2; }
T=$(/venv/bin/python -m pytest -q -p no:cacheprovider --timeout=900 --continue-on-collection-errors 2>&1 | tail -1)
F=$(/venv/bin/python -m pytest -q -p no:cacheprovider --timeout=900 --continue-on-collection-errors 2>&1 | grep ^FAILED | sed 's/ - .*//' | sort | md5sum | cut -c1-8)
/venv/bin/python $OUT/demo.py >/tmp/wt-out/$P/$V.changed.log 2>&1; RC2=$?
git checkout -q -- . ; git clean -fdq
echo "$P/$V demo_clean=$RC1 tests='$T' failset=$F demo_changed=$RC2"
