#!/venv/bin/python
"""Write the task files for independent sub-agents that produce behaviour-PRESERVING refactorings.

usage: gen_neutral_prompts.py <outdir> <worktree-prefix> [small|medium]
  one file <outdir>/prompt_P<k>.txt per agent; the agent gets ONLY that text and its own scratch worktree.
  small: six edits of one to ten lines each instead of four substantial refactorings.
"""
import os, sys

out, prefix = sys.argv[1], sys.argv[2]
style = sys.argv[3] if len(sys.argv) > 3 else ""
os.makedirs(out, exist_ok=True)
FOCUS = {
    1: "`icontract/_checkers.py`: the helpers `_assert_preconditions(_async)`, `_assert_postconditions(_async)`, `_capture_old(_async)`, `_assert_invariant`, `_create_violation_error`, `not_check`, `select_*_kwargs`, `_assert_no_invalid_kwargs`, `_assert_resolved_kwargs_valid`. Ideas: share code between the sync and async variants through small helpers; turn flag variables into early exits; iterate with any()/all()/next() where equivalent; change internal call style.",
    2: "`icontract/_checkers.py`: `decorate_with_checker` (prelude and both `wrapper` closures), `_unpack_pre_snap_posts`, `kwargs_from_call`, `resolve_kwdefaults`, `find_checker`, `_walk_decorator_stack`, `add_*_to_checker`. Ideas: extract the common parts of the two wrappers into helpers (keep their order of effects), compute things in a different but equivalent place, restructure the try/finally, use a small named tuple or dataclass for a tuple that is passed around.",
    3: "`icontract/_checkers.py`: `add_invariant_checks`, `_decorate_with_invariants` (three wrappers), `_decorate_new_with_invariants`, `_find_self`, `_already_decorated_with_invariants`. Ideas: split `add_invariant_checks` into phases, replace the member classification by a helper returning an enum/str, share the prologue/epilogue of the wrappers, equivalent restructuring of conditions.",
    4: "`icontract/_metaclass.py`: `_collapse_invariants`, `_collapse_preconditions`, `_collapse_snapshots`, `_collapse_postconditions`, `_decorate_namespace_function`, `_decorate_namespace_property`, `_dbc_decorate_namespace`, `DBCMeta.__new__`. Ideas: share the duplicated parts of the function pass and the property pass, restructure loops (for/else, early continue), hoist nothing that changes per-iteration freshness, use helper functions returning tuples, itertools.chain instead of +, explanatory temporaries.",
    5: "`icontract/_recompute.py`: the `Visitor` methods (`visit_Name`, `visit_Attribute`, `visit_Subscript`, `visit_Slice`, `visit_Call`, `visit_IfExp`, `visit_NamedExpr`, `visit_JoinedStr`, `visit_FormattedValue`, displays, comprehensions, `_execute_comprehension`, `_trace_all_with_generator`) and `_translate_all_expression_to_a_module`, `_collect_stored_names`. Ideas: share code between similar visit methods, tables instead of ladders, equivalent restructuring of the placeholder checks, helper methods, building the generated AST in a differently organised but equivalent way.",
    6: "`icontract/_represent.py`: `_representable`, the `Visitor` methods, `is_lambda`, `inspect_decorator`, `find_lambda_condition`, `inspect_lambda_condition`, `collect_variable_lookup`, `repr_values`, `represent_condition`, `generate_message`. Ideas: share code between visit methods, restructure the decorator search loops, build the message parts with a different but equivalent assembly (list + join vs. incremental), dictionary/set operations instead of loops where the ORDER of the result does not change.",
    7: "`icontract/_decorators.py` and `icontract/_types.py`: `require/ensure/snapshot/invariant` `__init__` and `__call__`, `Contract.__init__`, `Snapshot.__init__`, `Invariant.__init__`, `InvariantCheckEvent`. Ideas: share the duplicated validation and location code of the decorators, a common base class or mixin for the decorators (keeping their public attributes), helper functions for signature introspection, equivalent restructuring of the enabled/early-return logic.",
    8: "cross-cutting, anywhere in `icontract/`: modernisations that a maintainer dropping old Python versions would do -- remove dead version branches, `# type:` comments to annotations, `.format` to f-strings in messages (keeping the text byte-identical), `dict()`/`list()` to literals, `super(...)` forms, `isinstance(x, (A, B))` merging, `Optional` handling with walrus, sorted imports, module-level constants for repeated literals, keyword-only markers on internal helpers (updating all call sites).",
}
T = """You are helping to evaluate a static verification tool for the Python library **icontract** (design-by-contract decorators `require`, `ensure`, `snapshot`, `invariant`, contract inheritance through the `DBC`/`DBCMeta` metaclass, and an AST re-evaluator that builds violation messages). The tool must stay SILENT on changes that do not change behaviour. Your job is to write such changes.

You have your own scratch git worktree of the library at `{wt}`. Work ONLY inside `{wt}` and `{out}/P{k}`. Never modify, and do not read, anything under `/repo` or `/verif` or other `/tmp/wt*` directories.

## Your task

Produce FOUR independent, strictly BEHAVIOUR-PRESERVING refactorings (`a`, `b`, `c`, `d`), each applied alone to a clean tree. Focus area for you: {focus}

Requirements for each refactoring:

1. It is a refactoring a maintainer could really commit: it should look like an improvement (less duplication, clearer control flow, better names, more idiomatic Python). Make them SUBSTANTIAL: 30-120 changed lines each, and each of a DIFFERENT KIND (e.g. helper extraction; control-flow restructuring; data-structure or iteration idiom change; renaming plus moving code).
2. It must not change any observable behaviour of the library for ANY input: same results, same exceptions (types and messages) raised at the same points, same order and number of calls into user code (conditions, captures, error factories, `__repr__`, `__bool__`, descriptors), same contents and ORDER of every list/dict the library stores on functions and classes (`__preconditions__`, `__postconditions__`, `__postcondition_snapshots__`, `__invariants__*`), same violation messages byte for byte, same behaviour under `python -O`, same treatment of the re-entrancy marker (`_IN_PROGRESS`) on every path including exceptional ones. Private names (leading underscore) may be added, renamed or removed; public names, public attributes and signatures of public functions must stay. If you are not sure that something is strictly equivalent, do not do it.
3. The test suite must give exactly the baseline. Run it with
   `cd {wt} && /venv/bin/python -m pytest -q -p no:cacheprovider --timeout=900 --continue-on-collection-errors 2>&1 | tail -8`
   The unmodified tree gives `6 failed, 358 passed, 3 skipped` (pre-existing failures: tests/test_globals.py::TestSlow::test_slow_set, two `test_abstract_method_not_implemented`, three in tests/test_mypy_decorators.py).
4. Beyond the tests, convince yourself of the equivalence with an ad-hoc differential probe (a script exercising the touched code on many inputs, run before and after, outputs compared; also under `python -O` where relevant). Keep the probe out of the patch.

For each refactoring write two files into `{out}/P{k}/a/` ... `d/`:
* `patch.diff` -- `git -C {wt} diff` with only that refactoring applied relative to HEAD (`git apply patch.diff` must work on a clean tree);
* `meta.json` -- `{{"title": "...", "kind": "...", "files_touched": [...], "why_equivalent": "<the argument, incl. anything subtle you checked>"}}`.

After saving each patch run `git -C {wt} checkout -- .` and leave the worktree clean at the end. Your final answer: a short table of the four refactorings (functions, kind, size) and the test/probe results you observed, plus any caveat about equivalence you are aware of.
"""
if style == "small":
    T = T.replace("Produce FOUR independent, strictly BEHAVIOUR-PRESERVING refactorings (`a`, `b`, `c`, `d`), each applied alone to a clean tree.", "Produce SIX independent, strictly BEHAVIOUR-PRESERVING SMALL edits (`a` ... `f`), each applied alone to a clean tree.")
    T = T.replace("Make them SUBSTANTIAL: 30-120 changed lines each, and each of a DIFFERENT KIND (e.g. helper extraction; control-flow restructuring; data-structure or iteration idiom change; renaming plus moving code).", "Keep them SMALL: one to ten changed lines each -- the kind of touch-up that goes into an ordinary maintenance commit -- and each of a DIFFERENT KIND. Examples of kinds: an equivalent operator or test (`not x is None` -> `x is not None`, `len(xs) == 0` -> `not xs` where xs is known to be a list, De Morgan, swapping the arms of an if/else with the test negated); a renamed local variable or a temporary introduced / removed; `for` + append turned into a comprehension or back; an early `continue`/`return` instead of nesting; keyword arguments instead of positional ones in an internal call (or back); two independent statements swapped; `x = x + [y]`-free equivalent list building where no aliasing is involved; a tuple instead of a list for a literal that is only iterated; `isinstance(x, (A, B))` for two tests; a conditional expression for a four-line if/else; an added `assert` or type annotation or comment; a constant hoisted to module level. Prefer edits INSIDE the functions of your focus area that decide behaviour (the tests, loops, raises, returns), not in docstrings only.")
    T = T.replace("`{out}/P{k}/a/` ... `d/`", "`{out}/P{k}/a/` ... `f/`")
    T = T.replace("a short table of the four refactorings", "a short table of the six edits")
if style == "medium":
    T = T.replace("Produce FOUR independent, strictly BEHAVIOUR-PRESERVING refactorings (`a`, `b`, `c`, `d`), each applied alone to a clean tree.", "Produce FIVE independent, strictly BEHAVIOUR-PRESERVING refactorings (`a` ... `e`), each applied alone to a clean tree.")
    T = T.replace("Make them SUBSTANTIAL: 30-120 changed lines each, and each of a DIFFERENT KIND (e.g. helper extraction; control-flow restructuring; data-structure or iteration idiom change; renaming plus moving code).", "Make them MEDIUM-SIZED: 10-40 changed lines each, confined to ONE function (or one function plus a new small helper), and each of a DIFFERENT KIND. Kinds to choose from: a nested if/else ladder flattened into guard clauses (or the reverse); a flag variable replaced by for/else, by an early return, or by any()/next(); a loop with append turned into a comprehension or generator expression (or back) where the laziness cannot be observed; a repeated expression bound to a well-named local (where it is free of side effects) or a pointless local inlined; a small private helper extracted and called from one or two places (keep the order of effects); two adjacent loops over the same sequence fused, or one split, where their bodies are independent; try/finally rewritten with a context manager defined in the same module; a dict/tuple lookup instead of an if/elif chain over constants; positional arguments turned into keyword arguments throughout a function; `x = []` + conditional appends turned into list concatenation of conditional pieces; string building by `.format` turned into f-strings or `''.join` with byte-identical output; a type-comment style changed to annotations. Prefer the code that DECIDES behaviour (tests, loops, raises, returns, stores) over cosmetics.")
    T = T.replace("`{out}/P{k}/a/` ... `d/`", "`{out}/P{k}/a/` ... `e/`")
    T = T.replace("a short table of the four refactorings", "a short table of the five refactorings")
for k, focus in FOCUS.items():
    wt = "%s%d" % (prefix, k)
    if style in ("small", "medium"):
        focus = focus.split(" Ideas:")[0]
    open(os.path.join(out, "prompt_P%d.txt" % k), "w").write(T.format(wt=wt, out=out, k=k, focus=focus))
print("wrote", len(FOCUS), "prompts")
