#!/bin/bash
# usage: confirm_neutral.sh <id> <worktree>  -- the refactoring must keep the pinned suite exactly as it is
ID=$1; WT=$2
cd $WT || exit 2
git checkout -q -- . ; git clean -fdq
git apply /verif/neutral/$ID/patch.diff || { echo "$ID APPLY-FAILED"; exit 2; }
R=$(/venv/bin/python -m pytest -q -p no:cacheprovider --timeout=900 --continue-on-collection-errors 2>&1)
T=$(echo "$R" | tail -1); F=$(echo "$R" | grep ^FAILED | sed 's/ - .*//' | sort | md5sum | cut -c1-8)
git checkout -q -- . ; git clean -fdq
echo "$ID tests='$T' failset=$F"
