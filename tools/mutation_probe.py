#!/venv/bin/python
"""Mechanical single-point mutants of the library as one more test of the checkers (not a check itself).

usage: tools/mutation_probe.py <scratch-dir> [--limit N] [--modules _checkers,_metaclass,...]

Stage 1 runs the pinned suite (minus its six always-failing tests, stop at first failure) on every mutant in scratch
copies of /repo under <scratch-dir> (outside /repo and /verif; removed at the end) and keeps the survivors.
Stage 2 analyses every survivor in memory with all twenty checks and prints, per survivor, the rules that report it.
A survivor that no check reports is either equivalent / outside the twenty properties or a weakness of the checkers:
the list is for reading, nothing here decides anything about /repo.
"""
import ast
import copy
import json
import os
import shutil
import subprocess
import sys
from multiprocessing import Pool

HERE = os.path.dirname(os.path.dirname(os.path.abspath(__file__)))
sys.path.insert(0, HERE)
import check  # noqa: E402
from sa import model as sa_model  # noqa: E402
from sa.audit import runner  # noqa: E402

BASELINE_FAIL = [
    "tests/test_globals.py::TestSlow::test_slow_set",
    "tests/test_inheritance_postcondition.py::TestInvalid::test_abstract_method_not_implemented",
    "tests/test_inheritance_precondition.py::TestInvalid::test_abstract_method_not_implemented",
    "tests/test_mypy_decorators.py::TestMypyDecorators::test_class_type_when_decorated_with_invariant",
    "tests/test_mypy_decorators.py::TestMypyDecorators::test_functions",
    "tests/test_mypy_decorators.py::TestMypyDecorators::test_that_mypy_complains_when_decorating_non_type_with_invariant",
]

CMP = {ast.Is: ast.IsNot, ast.IsNot: ast.Is, ast.Eq: ast.NotEq, ast.NotEq: ast.Eq, ast.In: ast.NotIn, ast.NotIn: ast.In, ast.Lt: ast.LtE, ast.LtE: ast.Lt, ast.Gt: ast.GtE, ast.GtE: ast.Gt}


def sites(tree):
    """[(kind, index of the node in ast.walk order, description)]"""
    out = []
    for i, n in enumerate(ast.walk(tree)):
        if isinstance(n, ast.Compare) and len(n.ops) == 1 and type(n.ops[0]) in CMP:
            out.append(("cmp", i))
        elif isinstance(n, ast.BoolOp):
            out.append(("bool", i))
            if len(n.values) >= 2:
                out.append(("drop-last-operand", i))
        elif isinstance(n, ast.UnaryOp) and isinstance(n.op, ast.Not):
            out.append(("not", i))
        elif isinstance(n, (ast.If, ast.While)) and not (isinstance(n.test, ast.UnaryOp) and isinstance(n.test.op, ast.Not)):
            out.append(("negate", i))
        elif isinstance(n, ast.Constant) and isinstance(n.value, bool):
            out.append(("flip", i))
        elif isinstance(n, ast.Constant) and isinstance(n.value, int) and not isinstance(n.value, bool):
            out.append(("inc", i))
        elif isinstance(n, ast.Break):
            out.append(("break->continue", i))
        elif isinstance(n, ast.Continue):
            out.append(("continue->pass", i))
        elif isinstance(n, (ast.FunctionDef, ast.AsyncFunctionDef, ast.For, ast.While, ast.If, ast.With, ast.Try)):
            pass
        if hasattr(n, "body") and isinstance(getattr(n, "body"), list):
            for fld in ("body", "orelse", "finalbody"):
                for j, st in enumerate(getattr(n, fld, []) or []):
                    if isinstance(st, (ast.Expr, ast.Assign, ast.AugAssign, ast.Raise)) and not (isinstance(st, ast.Expr) and isinstance(st.value, ast.Constant)):
                        out.append(("delete:%s:%d" % (fld, j), i))
    return out


def mutate(src, kind, idx):
    tree = ast.parse(src)
    n = list(ast.walk(tree))[idx]
    where = getattr(n, "lineno", 0)
    if kind == "cmp":
        n.ops[0] = CMP[type(n.ops[0])]()
    elif kind == "bool":
        n.op = ast.Or() if isinstance(n.op, ast.And) else ast.And()
    elif kind == "drop-last-operand":
        n.values = n.values[:-1]
        if len(n.values) == 1:
            # a BoolOp needs two operands: ``a and a`` stands for ``a``
            n.values = [n.values[0], copy.deepcopy(n.values[0])]
    elif kind == "not":
        n.op = ast.UAdd()  # placeholder, replaced below
        return None, where
    elif kind == "negate":
        n.test = ast.UnaryOp(op=ast.Not(), operand=n.test)
    elif kind == "flip":
        n.value = not n.value
    elif kind == "inc":
        n.value = n.value + 1
    elif kind == "break->continue":
        new = ast.Continue()
        return _replace_stmt(tree, n, new), where
    elif kind == "continue->pass":
        return _replace_stmt(tree, n, ast.Pass()), where
    elif kind.startswith("delete:"):
        _, fld, j = kind.split(":")
        lst = getattr(n, fld)
        where = lst[int(j)].lineno
        lst[int(j)] = ast.copy_location(ast.Pass(), lst[int(j)])
    ast.fix_missing_locations(tree)
    return ast.unparse(tree) + "\n", where


def _replace_stmt(tree, old, new):
    for p in ast.walk(tree):
        for fld in ("body", "orelse", "finalbody"):
            lst = getattr(p, fld, None)
            if isinstance(lst, list):
                for j, st in enumerate(lst):
                    if st is old:
                        lst[j] = ast.copy_location(new, old)
                        ast.fix_missing_locations(tree)
                        return ast.unparse(tree) + "\n"
    return None


def mutate_not(src, idx):
    tree = ast.parse(src)

    class T(ast.NodeTransformer):
        def __init__(self):
            self.target = list(ast.walk(tree))[idx]

        def visit_UnaryOp(self, node):
            self.generic_visit(node)
            if node is self.target:
                return node.operand
            return node

    where = getattr(list(ast.walk(tree))[idx], "lineno", 0)
    tree = T().visit(tree)
    ast.fix_missing_locations(tree)
    return ast.unparse(tree) + "\n", where


def enclosing(src, lineno):
    tree = ast.parse(src)
    best = "<module>"
    for n in ast.walk(tree):
        if isinstance(n, (ast.FunctionDef, ast.AsyncFunctionDef, ast.ClassDef)) and n.lineno <= lineno <= (n.end_lineno or n.lineno):
            best = n.name if best == "<module>" else best + "." + n.name
    return best


def stage1(job):
    wdir, mod, kind, idx, text = job
    path = os.path.join(wdir, "icontract", mod + ".py")
    orig = open(path, encoding="utf-8").read()
    try:
        open(path, "w", encoding="utf-8").write(text)
        cmd = ["/venv/bin/python", "-m", "pytest", "-q", "-x", "-p", "no:cacheprovider", "--timeout=900", "--continue-on-collection-errors"] + ["--deselect=" + t for t in BASELINE_FAIL]
        r = subprocess.run(cmd, cwd=wdir, stdout=subprocess.PIPE, stderr=subprocess.STDOUT, timeout=600, env=dict(os.environ, PYTHONDONTWRITEBYTECODE="1"))
        tail = r.stdout.decode("utf-8", "replace").strip().splitlines()[-1:] or [""]
        return (mod, kind, idx, r.returncode == 0, tail[0])
    except subprocess.TimeoutExpired:
        return (mod, kind, idx, False, "timeout")
    finally:
        open(path, "w", encoding="utf-8").write(orig)


def stage2(job):
    mod, kind, idx, text = job
    files = runner.current_sources()
    files["icontract/%s.py" % mod] = text
    overlay = runner.overlay_of(files)
    out = []
    for p in check.PROPS:
        try:
            run, _ = check.analyse(p, "quick", None, overlay, None)
            for o in run.violations():
                out.append("%s" % o.rule)
            for e in run.errors:
                out.append("%s:ANALYSIS-ERROR" % p)
            vac = run.vacuous()
            if vac and not run.violations():
                out.append("%s:ANALYSIS-ERROR" % p)
        except sa_model.AnalysisError:
            out.append("%s:ANALYSIS-ERROR" % p)
        except Exception as err:  # pylint: disable=broad-except
            out.append("%s:CRASH %r" % (p, err))
    return (mod, kind, idx, sorted(set(out)))


def main():
    scratch = sys.argv[1]
    assert not os.path.abspath(scratch).startswith(("/repo", "/verif"))
    limit = None
    mods = ["_checkers", "_metaclass", "_decorators", "_types", "_represent", "_recompute", "_globals"]
    for a in sys.argv[2:]:
        if a.startswith("--limit="):
            limit = int(a.split("=")[1])
        if a.startswith("--modules="):
            mods = a.split("=")[1].split(",")
    srcs = runner.current_sources()
    mutants = []
    for mod in mods:
        src = srcs["icontract/%s.py" % mod]
        tree = ast.parse(src)
        for kind, idx in sites(tree):
            try:
                text, where = mutate_not(src, idx) if kind == "not" else mutate(src, kind, idx)
            except Exception:  # pylint: disable=broad-except
                continue
            if text is None or text == ast.unparse(tree) + "\n":
                continue
            try:
                compile(text, mod, "exec")
            except SyntaxError:
                continue
            mutants.append((mod, kind, idx, text, where))
    if limit:
        step = max(1, len(mutants) // limit)
        mutants = mutants[::step][:limit]
    print("mutants: %d" % len(mutants), flush=True)
    n_workers = 16
    wdirs = []
    for k in range(n_workers):
        w = os.path.join(scratch, "w%02d" % k)
        if os.path.exists(w):
            shutil.rmtree(w)
        shutil.copytree(sa_model.REPO, w, ignore=shutil.ignore_patterns(".git", "__pycache__", "docs", "benchmarks", "*.egg-info"))
        wdirs.append(w)
    # one worker directory per process: partition the jobs statically
    parts = [[] for _ in range(n_workers)]
    for i, (mod, kind, idx, text, where) in enumerate(mutants):
        parts[i % n_workers].append((wdirs[i % n_workers], mod, kind, idx, text))
    with Pool(n_workers) as pool:
        res = pool.map(_run_part, parts)
    for w in wdirs:
        shutil.rmtree(w, ignore_errors=True)
    alive = set()
    for part in res:
        for mod, kind, idx, ok, tail in part:
            if ok:
                alive.add((mod, kind, idx))
    print("survivors of the pinned suite: %d" % len(alive), flush=True)
    jobs = [(mod, kind, idx, text) for (mod, kind, idx, text, where) in mutants if (mod, kind, idx) in alive]
    where_of = {(mod, kind, idx): where for (mod, kind, idx, text, where) in mutants}
    with Pool(n_workers) as pool:
        res2 = pool.map(stage2, jobs)
    rows = []
    for mod, kind, idx, rules in res2:
        ln = where_of[(mod, kind, idx)]
        fn = enclosing(srcs["icontract/%s.py" % mod], ln)
        line = srcs["icontract/%s.py" % mod].splitlines()[ln - 1].strip() if ln else ""
        rows.append({"module": mod, "kind": kind, "line": ln, "function": fn, "source": line, "rules": rules})
    rows.sort(key=lambda r: (bool(r["rules"]), r["module"], r["line"]))
    json.dump(rows, open(os.path.join(scratch, "survivors.json"), "w"), indent=1)
    silent = [r for r in rows if not r["rules"]]
    print("survivors reported by some check: %d; by none: %d" % (len(rows) - len(silent), len(silent)))
    for r in silent:
        print("  %-12s %-5d %-45s %-22s %s" % (r["module"], r["line"], r["function"][:45], r["kind"], r["source"][:110]))


def _run_part(part):
    return [stage1(j) for j in part]


if __name__ == "__main__":
    main()
