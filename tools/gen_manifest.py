#!/venv/bin/python
"""Generate /verif/MANIFEST.json from the rule modules' META (run after changing a module's META)."""
import importlib
import json
import os
import sys

HERE = os.path.dirname(os.path.dirname(os.path.abspath(__file__)))
sys.path.insert(0, HERE)

TECH = {
    "C01": "must-pass-through gate (dominance + guard necessity) on the CFG of both checker wrappers; N/T/E verdict typestate and iterate-all dataflow on the precondition helpers",
    "C02": "T-gate with guard necessity/sufficiency; return/argument provenance (value terms); exception-edge discipline; verdict typestate on the postcondition helpers",
    "C03": "decision table of member selection (predicate abstraction, 162 rows); phase order by dominance; marker typestate of the constructor wrapper",
    "C04": "sequence-provenance analysis of the merged lists; decision tables of the base loop and of the weaken rule",
    "C05": "decision table over inspect.Parameter kinds; write-order and value-identity dataflow in the resolver; shape analysis of the selecting comprehensions",
    "C06": "operator-table extraction by path enumeration vs. the ast operator classes (exhaustiveness); stored-vs-returned value identity; lookup-precedence dataflow",
    "C07": "control-dependence (laziness) tables of the re-evaluator loops; decision table of message assembly; regex-AST structure check",
    "C08": "dominance/guard analysis of the capture phase; iterate-all and storage provenance of the capture helpers; definition-time decision tables",
    "C09": "decision tables (7 kinds of `error`) of dispatch and of the three decorators' validation, sibling cross-check; raised-value identity",
    "C10": "typestate (U/A/F/H/Hb/R) of the in-progress marker over the exception-edge CFG of five wrapper regions",
    "C11": "marker typestate on all exits incl. exception/cancellation edges; enumerated except-handler discipline; finally-body check",
    "C12": "alias/effect analysis: no in-place mutation of context-variable values; no call-time store to shared state in the wrappers' call-graph closure",
    "C13": "sync/async sibling cross-check (normalised statement-wise equivalence); coroutine dispatch/rejection decision tables; rule-instance parity",
    "C14": "argument/result identity dataflow; update_wrapper dominance; decision table of require/ensure.__call__; colour and constructor-choice guards",
    "C15": "decision tables of the decorators with enabled=False; abstract evaluation of SLOW; who-may-read __debug__; assert purity lint",
    "C16": "phase-order chains by dominance; append-at-end and inherited-before-own provenance; first-failure verdict typestate",
    "C17": "ownership analysis (Fresh/Owned/Borrowed) of every in-place list mutation, interprocedural via parameter-mutation summaries",
    "C18": "live-read dataflow; writer/reader agreement of dunder names; loop analysis of the checker lookup; T-gate of the registration hook",
    "C19": "decision tables (membership atoms) of the validators and decorators; T-gates that the wrappers raise their results first",
    "C20": "order-taint of message loops; a_repr provenance of interpolated values; filter decision table; effect analysis for run-dependent sources and kept state",
}


def main():
    props = [json.loads(l) for l in open(os.path.join(HERE, "properties.jsonl"))]
    checks = []
    for p in props:
        pid = p["id"]
        mod = importlib.import_module("sa.rules.%s" % pid.lower())
        meta = getattr(mod, "META", {})
        text = (
            "Static analysis of the current source of /repo/icontract: " + meta.get("explanation", "") + ". "
            "Decides the structural clauses listed in DESIGN.md section 5/%s on every path / table row of the analysed functions "
            "(exhaustive over the code's paths, not over run-time values); it does not execute the library." % pid
        )
        note = "Trusted: CPython's ast parser and the language semantics the rules encode; " + "; ".join(meta.get("trusted_base", [])) + ". Not decided: " + "; ".join(meta.get("not_decided", [])) + "."
        checks.append(
            {
                "property_id": pid,
                "quick_cmd": "/venv/bin/python check.py %s --tier quick" % pid,
                "thorough_cmd": "/venv/bin/python check.py %s --tier thorough" % pid,
                "evidence_file": "/verif/evidence/%s.json" % pid,
                "replay_cmd_template": "/venv/bin/python check.py %s --replay {path}" % pid,
                "engine": "sa",
                "level_claimed": {"category": "other", "text": text, "design_ref": "DESIGN.md section 5/%s" % pid},
                "level_note": note,
                "technique": "static analysis: " + TECH[pid],
            }
        )
    manifest = {
        "version": 1,
        "setup_cmd": "/venv/bin/python -c \"import ast, sys; assert sys.version_info >= (3, 9); sys.path.insert(0, '/verif'); import check\"",
        "hooks": {
            "guard": "ICONTRACT_VERIF",
            "enable": "none needed: the checks read the source of /repo/icontract and never import or run it; no hook or instrumentation was added to the repository",
            "baseline_off_cmd": "cd /repo && /venv/bin/python -m pytest -ra -q -p no:cacheprovider --timeout=900 --continue-on-collection-errors",
            "source_commits": [],
            "add_only": True,
        },
        "engines": [
            {
                "name": "sa",
                "path": "/verif/sa",
                "serves_properties": [p["id"] for p in props],
                "kind_free_text": "pure-stdlib static analyser written for this repository: program model, exception-edge CFG, reaching definitions and value terms, repo-specific event labelling, typestate product, guard necessity/sufficiency, decision-table extraction (predicate abstraction), list provenance/ownership, sibling cross-check",
            }
        ],
        "checks": checks,
        "not_applicable": [],
        "notes": "All 20 properties are claimed for the structural clauses listed per property in DESIGN.md section 5 and nothing more; section 9 lists what stays undecided. Thirty-two genuine defects of the pinned tree (D1-D32) were repaired by unguarded 'fix:' commits in /repo (known_findings.json lists them as fixed; they suppress nothing); one genuine defect that the pinned tests do not allow to repair (F1, C07: speculative visit of the element and filter expressions of a comprehension) is listed there as known and is reported by the C07 check as KNOWN-FINDING lines. Exit codes: 0 held, 1 VIOLATION, 2 ANALYSIS-ERROR.",
    }
    with open(os.path.join(HERE, "MANIFEST.json"), "w") as fid:
        json.dump(manifest, fid, indent=1)
        fid.write("\n")
    print("wrote MANIFEST.json with %d checks" % len(checks))


if __name__ == "__main__":
    main()
