#!/bin/bash
# usage: confirm_seed2.sh <Cxx> <variant> <worktree> <outdir>
P=$1; V=$2; WT=$3; OUT=$4/$P/$V
cd $WT || exit 2
git checkout -q -- . ; git clean -fdq
/venv/bin/python $OUT/demo.py >$OUT/../$V.clean.log 2>&1; RC1=$?
git apply $OUT/patch.diff || { echo "$P/$V APPLY-FAILED"; exit 2; }
R=$(/venv/bin/python -m pytest -q -p no:cacheprovider --timeout=900 --continue-on-collection-errors 2>&1)
T=$(echo "$R" | tail -1)
F=$(echo "$R" | grep ^FAILED | sed 's/ - .*//' | sort | md5sum | cut -c1-8)
/venv/bin/python $OUT/demo.py >$OUT/../$V.changed.log 2>&1; RC2=$?
git checkout -q -- . ; git clean -fdq
echo "$P/$V demo_clean=$RC1 tests='$T' failset=$F demo_changed=$RC2"
