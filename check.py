#!/venv/bin/python
"""Decide one property of /verif/properties.jsonl on the current source of /repo by static analysis.

usage: check.py <Cnn> [--tier quick|thorough] [--only RULE] [--root DIR] [--no-evidence]

exit 0  every obligation discharged (KNOWN-FINDING lines allowed)
exit 1  at least one line ``VIOLATION property=<id> replay=<path>``
exit 2  ``ANALYSIS-ERROR`` -- an anchor vanished, an idiom is not recognised, or the checker itself failed
"""
import argparse
import importlib
import os
import sys
import time
import traceback

HERE = os.path.dirname(os.path.abspath(__file__))
sys.path.insert(0, HERE)

from sa import model as sa_model  # noqa: E402
from sa import report  # noqa: E402
from sa.flow import clear_flows  # noqa: E402

PROPS = ["C%02d" % i for i in range(1, 21)]


def analyse(prop, tier="quick", root=None, overlay=None, only=None):
    """Run the rules of ``prop``; returns the Run (raises AnalysisError)."""
    clear_flows()
    mdl = sa_model.Model(root=root, overlay=overlay)
    run = report.Run(prop, tier, mdl)
    mod = importlib.import_module("sa.rules.%s" % prop.lower())
    mod.run(run, mdl)
    if only:
        run.obligations = [o for o in run.obligations if o.rule == only or o.rule.startswith(only)]
    return run, mod


def main(argv=None):
    ap = argparse.ArgumentParser()
    ap.add_argument("prop")
    ap.add_argument("--tier", default=os.environ.get("VERIF_TIER", "quick"), choices=["quick", "thorough"])
    ap.add_argument("--only", default=None)
    ap.add_argument("--root", default=None)
    ap.add_argument("--no-evidence", action="store_true")
    ap.add_argument("--rev", default=None, help="analyse the sources of a git revision of the repository instead of the working tree (diagnostics only)")
    ap.add_argument("--replay", default=None, help="replay file written by an earlier run (re-runs its rule)")
    ap.add_argument("--verbose", "-v", action="store_true")
    args = ap.parse_args(argv)
    prop = args.prop.upper()
    if prop not in PROPS:
        print("ANALYSIS-ERROR property=%s unknown property" % prop)
        return 2
    if args.replay:
        import json

        with open(args.replay) as fid:
            args.only = json.load(fid)["finding"]["rule"]
    t0 = time.time()
    try:
        overlay = None
        if args.rev:
            import subprocess

            overlay = {}
            for name in sa_model.MODULES:
                overlay[name + ".py"] = subprocess.check_output(
                    ["git", "-C", args.root or sa_model.REPO, "show", "%s:icontract/%s.py" % (args.rev, name)], text=True
                )
            args.no_evidence = True
        run, mod = analyse(prop, args.tier, args.root, overlay, args.only)
        vac = [] if args.only else run.vacuous()
        if vac and not run.violations() and not run.errors:
            raise sa_model.AnalysisError("instance count below the confirmed minimum: " + "; ".join(vac))
        if run.errors and not run.violations():
            raise sa_model.AnalysisError("; ".join(run.errors))
        audit = None
        if args.tier == "thorough" and not args.only:
            from sa.audit import runner as audit_runner

            audit = audit_runner.audit_property(prop, root=args.root)
    except sa_model.AnalysisError as err:
        print("ANALYSIS-ERROR property=%s %s" % (prop, err))
        return 2
    except Exception:  # pylint: disable=broad-except
        traceback.print_exc()
        print("ANALYSIS-ERROR property=%s the checker failed (see the traceback above)" % prop)
        return 2

    # findings listed in known_findings.json (status "known") are reported as KNOWN-FINDING lines, never as violations
    reported_known = run.known_hits()
    new, seen_keys = [], set()
    for o in run.violations():
        if o.key() in seen_keys:
            continue
        seen_keys.add(o.key())
        new.append(o)
    wall = time.time() - t0
    if not args.no_evidence:
        report.write_evidence(run, getattr(mod, "META", {}), new, reported_known, wall, audit)

    n_ok = sum(1 for o in run.obligations if o.status == "ok")
    print(
        "%s tier=%s: %d obligations (%d rules) on %d functions / %d CFG nodes, %d discharged, %d violation(s) [%.2fs]"
        % (prop, args.tier, len(run.obligations), len(set(o.rule for o in run.obligations)), len(run.functions), run.cfg_nodes, n_ok, len(new), wall)
    )
    if args.verbose:
        for o in run.obligations:
            print("  %-9s %-28s %-60s %s" % (o.status, o.rule, o.construct[:60], (o.detail or "")[:120]))
    for e in run.errors:
        print("ANALYSIS-NOTE property=%s a rule could not decide: %s" % (prop, e))
    for k in reported_known:
        print("KNOWN-FINDING: property=%s %s" % (prop, k.get("what", k["key"])))
    if audit is not None:
        print(
            "audit: %d breaking variants, %d detected, %d missed; %d neutral variants, %d silent"
            % (audit["breaking"], audit["detected"], audit["breaking"] - audit["detected"], audit["neutral"], audit["neutral_silent"])
        )
        for m in audit.get("missed", []):
            print("AUDIT-MISS %s" % m)
        for m in audit.get("neutral_alarms", []):
            print("AUDIT-FALSE-ALARM %s" % m)
    for o in new:
        path = report.write_replay(prop, o)
        print("VIOLATION property=%s replay=%s" % (prop, path))
        print("  rule      : %s" % o.rule)
        print("  construct : %s" % o.construct)
        if o.loc:
            print("  location  : %s" % o.loc)
        if o.stmt:
            print("  statement : %s" % o.stmt)
        print("  finding   : %s" % o.detail)
        if o.witness:
            print("  witness   : %s" % " -> ".join(str(w) for w in o.witness))
    return 1 if new else 0


if __name__ == "__main__":
    try:
        sys.exit(main())
    except BrokenPipeError:
        sys.exit(1)
