"""Throwaway feasibility probe (NOT framework code): exception-edge CFG + marker typestate."""
import ast, sys, collections, itertools

class N:
    _ids = itertools.count()
    def __init__(self, kind, node=None, label=""):
        self.id = next(N._ids); self.kind = kind; self.ast = node; self.label = label; self.succ = []
    def edge(self, lab, tgt):
        if tgt is not None: self.succ.append((lab, tgt))
    def __repr__(self):
        ln = getattr(self.ast, "lineno", "?")
        return f"<{self.id}:{self.kind}@{ln} {self.label}>"

def may_raise(node):
    for n in ast.walk(node):
        if isinstance(n, (ast.Call, ast.Await, ast.Subscript, ast.BinOp, ast.Raise, ast.Assert, ast.Attribute)):
            return True
        if isinstance(n, ast.Compare) and not all(isinstance(o, (ast.Is, ast.IsNot)) for o in n.ops):
            return True
        if isinstance(n, ast.UnaryOp) and isinstance(n.op, ast.Not):
            return True
    return False

class Ctx:
    def __init__(self, ret, exc, brk=None, cont=None):
        self.ret, self.exc, self.brk, self.cont = ret, exc, brk, cont
    def replace(self, **kw):
        c = Ctx(self.ret, self.exc, self.brk, self.cont)
        for k, v in kw.items(): setattr(c, k, v)
        return c

def build_block(stmts, k, ctx):
    """Return entry node of stmts with normal continuation k."""
    entry = k
    for st in reversed(stmts):
        entry = build_stmt(st, entry, ctx)
    return entry

def build_stmt(st, k, ctx):
    if isinstance(st, ast.If):
        n = N("branch", st.test, ast.unparse(st.test)[:60])
        n.edge("T", build_block(st.body, k, ctx)); n.edge("F", build_block(st.orelse, k, ctx) if st.orelse else k)
        if may_raise(st.test): n.edge("exc", ctx.exc)
        return n
    if isinstance(st, (ast.For, ast.AsyncFor)):
        it = N("iter", st.iter, ast.unparse(st.iter)[:40]); head = N("fornext", st, ast.unparse(st.target))
        it.edge("n", head); it.edge("exc", ctx.exc)
        after = build_block(st.orelse, k, ctx) if st.orelse else k
        body = build_block(st.body, head, ctx.replace(brk=k, cont=head))
        head.edge("iter", body); head.edge("done", after); head.edge("exc", ctx.exc)
        return it
    if isinstance(st, ast.While):
        head = N("branch", st.test, ast.unparse(st.test)[:40])
        body = build_block(st.body, head, ctx.replace(brk=k, cont=head))
        head.edge("T", body); head.edge("F", k); head.edge("exc", ctx.exc)
        return head
    if isinstance(st, ast.Try):
        # finally duplicated per continuation
        def fin(cont):
            if not st.finalbody or cont is None: return cont
            return build_block(st.finalbody, cont, ctx)
        k_n, k_exc, k_ret = fin(k), fin(ctx.exc), fin(ctx.ret)
        k_brk, k_cont = fin(ctx.brk), fin(ctx.cont)
        inner = Ctx(k_ret, k_exc, k_brk, k_cont)
        if st.handlers:
            disp = N("dispatch", st, "except-dispatch")
            catch_all = False
            for h in st.handlers:
                hn = build_block(h.body, k_n, inner)
                disp.edge("handler:" + (ast.unparse(h.type) if h.type else "*"), hn)
                if h.type is None or ast.unparse(h.type) == "BaseException": catch_all = True
            if not catch_all: disp.edge("unmatched", k_exc)
            body_ctx = inner.replace(exc=disp)
        else:
            body_ctx = inner
        after_body = build_block(st.orelse, k_n, inner) if st.orelse else k_n
        return build_block(st.body, after_body, body_ctx)
    if isinstance(st, ast.Return):
        n = N("return", st, ast.unparse(st)[:60]); n.edge("ret", ctx.ret)
        if st.value is not None and may_raise(st.value): n.edge("exc", ctx.exc)
        return n
    if isinstance(st, ast.Raise):
        n = N("raise", st, ast.unparse(st)[:60]); n.edge("exc", ctx.exc); return n
    if isinstance(st, ast.Break):
        n = N("break", st); n.edge("n", ctx.brk); return n
    if isinstance(st, ast.Continue):
        n = N("continue", st); n.edge("n", ctx.cont); return n
    if isinstance(st, (ast.FunctionDef, ast.AsyncFunctionDef, ast.ClassDef)):
        n = N("def", st, st.name); n.edge("n", k); return n
    n = N("stmt", st, ast.unparse(st).split("\n")[0][:70]); n.edge("n", k)
    if may_raise(st): n.edge("exc", ctx.exc)
    return n

def build_cfg(fn):
    ret, exc = N("EXIT_RETURN"), N("EXIT_RAISE")
    entry = N("ENTRY"); entry.edge("n", build_block(fn.body, ret, Ctx(ret, exc)))
    return entry, ret, exc

# ---------------------------------------------------------------- marker typestate
def find_wrappers(tree):
    out = []
    for f in [n for n in tree.body if isinstance(n, ast.FunctionDef)]:
        for n in ast.walk(f):
            if n is not f and isinstance(n, (ast.FunctionDef, ast.AsyncFunctionDef)) and n.name == "wrapper":
                out.append((f, n))
    return out

def classify(node, fn_param, ctxvar="_IN_PROGRESS"):
    """Return list of marker/body events for a CFG node (very rough, spike only)."""
    ev = []
    a = node.ast
    if a is None: return ev
    src = ast.unparse(a) if not isinstance(a, (ast.For, ast.AsyncFor)) else ""
    for c in ast.walk(a) if not isinstance(a, (ast.For, ast.AsyncFor, ast.Try, ast.FunctionDef, ast.AsyncFunctionDef)) else []:
        if isinstance(c, ast.Call):
            f = c.func
            if isinstance(f, ast.Attribute) and f.attr == "add": ev.append("ACQUIRE")
            if isinstance(f, ast.Attribute) and f.attr in ("discard", "remove"): ev.append("RELEASE")
            if isinstance(f, ast.Attribute) and f.attr == "set" and ast.unparse(f.value) == ctxvar:
                arg = c.args[0]
                if isinstance(arg, ast.BinOp) and isinstance(arg.op, ast.BitOr): ev.append("ACQUIRE")
                elif isinstance(arg, ast.Name) and INIT_GUARD.get(id(a)): ev.append("INIT")
                elif isinstance(arg, ast.Name): ev.append("RESTORE")
                else: ev.append("CTXSET?")
            if isinstance(f, ast.Name) and f.id == fn_param and c.args and isinstance(c.args[0], ast.Starred): ev.append("BODY")
            if isinstance(f, ast.Name) and f.id.startswith(("_assert_pre", "_assert_post", "_capture_old", "_assert_invariant")): ev.append("CONTRACT")
    return ev

INIT_GUARD = {}
def mark_init_guards(fn):
    """`if S is None: S = set(); CTX.set(S)` -> the set() is lazy initialisation, not a release (spike: syntactic)."""
    for n in ast.walk(fn):
        if isinstance(n, ast.If) and isinstance(n.test, ast.Compare) and isinstance(n.test.ops[0], ast.Is) and ast.unparse(n.test.comparators[0]) == "None":
            for st in n.body: INIT_GUARD[id(st)] = True

def membership(test):
    """Return 'in'/'notin' if test is `<id_*> in/not in in_progress`."""
    if isinstance(test, ast.Compare) and len(test.ops) == 1 and isinstance(test.left, ast.Name) and test.left.id.startswith("id_"):
        if isinstance(test.ops[0], ast.In): return "in"
        if isinstance(test.ops[0], ast.NotIn): return "notin"
    return None

def analyse(factory, fn, body_state_expected):
    mark_init_guards(fn)
    entry, ret, exc = build_cfg(fn)
    fn_param = factory.args.args[0].arg
    # collect nodes
    nodes = {}; st = [entry]
    while st:
        n = st.pop()
        if n.id in nodes: continue
        nodes[n.id] = n
        for _, t in n.succ: st.append(t)
    states = collections.defaultdict(set); pred = {}
    work = collections.deque([(entry, "U")]); states[entry.id].add("U")
    findings = []
    def witness(n, s):
        path = []
        cur = (n.id, s)
        while cur in pred:
            path.append(getattr(nodes[cur[0]].ast, "lineno", None)); cur = pred[cur]
        return [p for p in reversed(path) if p]
    while work:
        n, s = work.popleft()
        evs = classify(n, fn_param)
        out_normal = s
        for e in evs:
            if e == "ACQUIRE":
                out_normal = "H" if out_normal in ("A", "R") else "Hb"
            elif e == "RELEASE":   # key-removal idiom: legal only for the owner
                if out_normal != "H": findings.append((f"C10.own-release: key removed in state {out_normal} (not provably acquired by this activation)", n, witness(n, s)))
                out_normal = "R"
            elif e == "RESTORE":   # restore-the-entry-snapshot idiom: always restores what this activation saw
                out_normal = "R" if out_normal in ("H", "Hb", "R", "A") else out_normal
            elif e == "BODY":
                held = out_normal in ("H", "Hb")
                if out_normal != "F" and held != body_state_expected:
                    findings.append((f"C10.body-{'unheld' if not body_state_expected else 'held'}: body call on the checked path with marker held={held}", n, witness(n, s)))
            elif e == "CONTRACT":
                if out_normal == "Hb": findings.append(("C10.test-first: contracts evaluated in an activation that never tested for re-entry", n, witness(n, s)))
                elif out_normal != "H": findings.append((f"C10.held-for-contracts: contract evaluation in state {out_normal}", n, witness(n, s)))
        for lab, t in n.succ:
            s2 = s if lab == "exc" and "ACQUIRE" in evs else out_normal   # failed acquire leaves state
            if n.kind == "branch":
                m = membership(n.ast)
                if m and s in ("U", "R"):
                    s2 = {"in": {"T": "F", "F": "A"}, "notin": {"T": "A", "F": "F"}}[m].get(lab, s)
            if t.kind in ("EXIT_RETURN", "EXIT_RAISE"):
                if s2 in ("H", "Hb"): findings.append((f"C11.release-on-all-exits: exit via {t.kind} with marker held", n, witness(n, s) ))
                continue
            if s2 not in states[t.id]:
                states[t.id].add(s2); pred[(t.id, s2)] = (n.id, s); work.append((t, s2))
    # dedupe
    seen = set(); res = []
    for msg, n, w in findings:
        key = (msg, getattr(n.ast, "lineno", None))
        if key in seen: continue
        seen.add(key); res.append((msg, n, w))
    return len(nodes), res

if __name__ == "__main__":
    path = sys.argv[1]
    tree = ast.parse(open(path).read())
    for factory, w in find_wrappers(tree):
        kind = "async" if isinstance(w, ast.AsyncFunctionDef) else "sync"
        is_checker = factory.name == "decorate_with_checker"
        if factory.name == "_decorate_new_with_invariants": continue
        nn, res = analyse(factory, w, body_state_expected=not is_checker)
        print(f"{factory.name}::wrapper[{kind}]@{w.lineno}: {nn} cfg nodes, {len(res)} findings")
        for msg, n, wit in res:
            print(f"    {msg}\n      at line {getattr(n.ast,'lineno','?')}: {n.label}\n      witness: {wit[-8:]}")
