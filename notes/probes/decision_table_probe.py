"""Throwaway feasibility probe (NOT framework code): decision-table extraction by predicate abstraction."""
import ast, sys, itertools

def eval3(e, atoms):
    """3-valued evaluation of a condition under an atom valuation {normalised-source: bool}."""
    src = ast.unparse(e)
    if src in atoms: return atoms[src]
    if isinstance(e, ast.BoolOp):
        vals = [eval3(v, atoms) for v in e.values]
        if isinstance(e.op, ast.And):
            if any(v is False for v in vals): return False
            return True if all(v is True for v in vals) else None
        if any(v is True for v in vals): return True
        return False if all(v is False for v in vals) else None
    if isinstance(e, ast.UnaryOp) and isinstance(e.op, ast.Not):
        v = eval3(e.operand, atoms); return None if v is None else (not v)
    if isinstance(e, ast.Compare) and len(e.ops) == 1 and isinstance(e.ops[0], (ast.Is, ast.IsNot)):
        flipped = ast.unparse(ast.Compare(e.left, [ast.IsNot() if isinstance(e.ops[0], ast.Is) else ast.Is()], e.comparators))
        if flipped in atoms: return not atoms[flipped]
    return None

def outcomes(stmts, atoms, marks):
    """Set of outcomes reachable from a loop-free statement list; `marks` = {label: predicate(stmt)}."""
    out = set()
    def walk(stmts, acc):
        for i, st in enumerate(stmts):
            for label, pred in marks.items():
                if not isinstance(st, (ast.If, ast.Try)) and pred(st): acc = acc | {label}
            if isinstance(st, ast.If):
                v = eval3(st.test, atoms)
                rest = stmts[i + 1:]
                if v is not False: walk(st.body + rest, acc)
                if v is not True: walk(st.orelse + rest, acc)
                return
            if isinstance(st, ast.Try):
                rest = stmts[i + 1:]
                walk(st.body + st.orelse + st.finalbody + rest, acc)   # normal path
                for h in st.handlers: walk(h.body + st.finalbody + rest, acc | {"handler:" + (ast.unparse(h.type) if h.type else "*")})
                return
            if isinstance(st, ast.Raise):
                exc = st.exc
                name = ast.unparse(exc.func) if isinstance(exc, ast.Call) else ast.unparse(exc) if exc else "reraise"
                out.add(frozenset(acc | {"raise " + name})); return
            if isinstance(st, ast.Return):
                out.add(frozenset(acc | {"return " + (ast.unparse(st.value) if st.value else "None")})); return
        out.add(frozenset(acc | {"falls-through"}))
    walk(stmts, frozenset())
    return out

ROWS = {  # error kind -> atom valuation (consistent)
    "None":          {"error is None": True},
    "function":      {"inspect.isfunction(error)": True},
    "method":        {"inspect.ismethod(error)": True},
    "exc class":     {"isinstance(error, type)": True, "issubclass(error, BaseException)": True},
    "other class":   {"isinstance(error, type)": True, "issubclass(error, BaseException)": False},
    "exc instance":  {"isinstance(error, BaseException)": True},
    "other":         {},
}
BASE = ["error is None", "isinstance(error, type)", "issubclass(error, BaseException)", "inspect.isfunction(error)",
        "inspect.ismethod(error)", "isinstance(error, BaseException)"]

def row_atoms(kind, subst=lambda s: s, extra=None):
    a = {subst(k): False for k in BASE}
    a.update({subst(k): v for k, v in ROWS[kind].items()})
    a.update(extra or {})
    return a

if __name__ == "__main__":
    repo = sys.argv[1]
    dec = ast.parse(open(repo + "/icontract/_decorators.py").read())
    chk = ast.parse(open(repo + "/icontract/_checkers.py").read())
    constructs = lambda st: any(isinstance(n, ast.Call) and ast.unparse(n.func) in ("Contract", "Invariant") for n in ast.walk(st))
    print("== C09.validate (decoration time)")
    for cls in [n for n in dec.body if isinstance(n, ast.ClassDef) and n.name in ("require", "ensure", "invariant")]:
        init = next(f for f in cls.body if isinstance(f, ast.FunctionDef) and f.name == "__init__")
        table = {}
        for kind in ROWS:
            atoms = row_atoms(kind, extra={"enabled": True, "inspect.iscoroutinefunction(condition)": False,
                                           "self._invariant.mandatory_args and self._invariant.mandatory_args != ['self']": False})
            outs = outcomes(init.body, atoms, {"constructs": constructs})
            verdicts = {"ValueError" if any(o.startswith("raise ValueError") for o in path) else
                        ("constructs" if "constructs" in path else "?") for path in outs}
            table[kind] = sorted(verdicts)
        print(f"  {cls.name:10s}", table)
    print("== C09.dispatch (violation time)")
    fn = next(f for f in chk.body if isinstance(f, ast.FunctionDef) and f.name == "_create_violation_error")
    sub = lambda s: s.replace("(error", "(contract.error").replace("error is None", "contract.error is None")
    for kind in ROWS:
        atoms = row_atoms(kind, subst=sub, extra={"not isinstance(exception, BaseException)": False})
        outs = outcomes(fn.body, atoms, {
            "ViolationError(msg)": lambda st: "ViolationError(msg)" in ast.unparse(st),
            "factory-call": lambda st: "contract.error(**error_kwargs)" in ast.unparse(st),
            "instantiate(msg)": lambda st: "contract.error(msg)" in ast.unparse(st),
            "same-object": lambda st: ast.unparse(st) == "exception = contract.error",
        })
        print(f"  {kind:13s}", sorted(sorted(o for o in path if not o.startswith(("falls", "handler"))) for path in outs if not any(x.startswith("handler") for x in path)))
