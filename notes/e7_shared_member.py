import icontract
class A(icontract.DBC):
    @icontract.require(lambda x: x > 0)
    @icontract.ensure(lambda result: result > 0)
    def f(self, x): return x
    @property
    @icontract.ensure(lambda result: result > 0)
    def p(self): return 1
    @p.setter
    @icontract.require(lambda value: value > 0)
    def p(self, value): pass
print("before: A.f pre groups", len(A.f.__preconditions__), "post", len(A.f.__postconditions__), "A.p.fset pre", len(A.p.fset.__preconditions__))
class B(A):
    f = A.f            # re-export / alias of the inherited method
class C(A):
    @A.p.getter
    def p(self): return 2
print("after : A.f pre groups", len(A.f.__preconditions__), "post", len(A.f.__postconditions__), "A.p.fset pre", len(A.p.fset.__preconditions__))
