import icontract, sys, asyncio, contextvars, threading

# --- C06: `or` nested in call
def ident(v): return v
@icontract.require(lambda a, b: ident(a or b) == 5)
def f(a, b): pass
try: f(0, 0)
except icontract.ViolationError as e: print("C06 or-in-call:\n", e)

# --- C07: short circuit
@icontract.require(lambda xs: xs and xs[0] > 0)
def g(xs): pass
try: g([])
except BaseException as e: print("C07 and-guard:", type(e).__name__, str(e).splitlines()[0])
@icontract.require(lambda x: x is not None and x.y > 0)
def g2(x): pass
try: g2(None)
except BaseException as e: print("C07 none-guard:", type(e).__name__, str(e).splitlines()[0])
@icontract.require(lambda n: 0 < n < 10 // n)
def g3(n): pass
try: g3(0)
except BaseException as e: print("C07 chain:", type(e).__name__, str(e).splitlines()[0])
@icontract.require(lambda xs: xs and xs[0] > 0, error=ValueError)
def g4(xs): pass
try: g4([])
except BaseException as e: print("C07 and-guard error=type:", type(e).__name__, str(e).splitlines()[0])

# --- C12: asyncio tasks sharing in-progress set
async def main():
    hits = []
    async def cond(x):
        hits.append(x)
        await asyncio.sleep(0.01)
        return x > 0
    @icontract.require(lambda x: cond(x), error=ValueError)
    async def af(x):
        return x
    await af(1)   # parent runs contracted code first -> creates the set in parent's context
    hits.clear()
    r = await asyncio.gather(af(1), af(-1), return_exceptions=True)
    print("C12 tasks after parent call:", r, "conditions evaluated for", hits)
asyncio.run(main())

# --- C17: leak through on_setattr list
@icontract.invariant(lambda self: True)
class A(icontract.DBC):
    pass
before = list(A.__invariants_on_setattr__)
@icontract.invariant(lambda self: self.x > 0, check_on=icontract.InvariantCheckEvent.SETATTR)
class B(A):
    def __init__(self): self.x = 1
print("C17 A.on_setattr before/after:", len(before), len(A.__invariants_on_setattr__), "same list:", A.__invariants_on_setattr__ is B.__invariants_on_setattr__)
@icontract.invariant(lambda self: True, check_on=icontract.InvariantCheckEvent.SETATTR)
class C(A):
    def __init__(self): self.y = 1
try:
    C(); print("C17 sibling C() ok; C.on_setattr len", len(C.__invariants_on_setattr__))
except BaseException as e: print("C17 sibling C():", type(e).__name__, str(e)[:100])

# plain inheritance (no DBC)
@icontract.invariant(lambda self: True)
class P: pass
@icontract.invariant(lambda self: False)
class Q(P): pass
print("C17 plain: P invariants", len(P.__invariants__))
