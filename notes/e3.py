import icontract, functools, asyncio, warnings

# --- D9 C04: multiple inheritance, one base without preconditions
class A(icontract.DBC):
    @icontract.require(lambda x: x > 0)
    def f(self, x): return x
class A2(icontract.DBC):
    def f(self, x): return x
class C(A, A2):
    def f(self, x): return x
try:
    C().f(-1); print("D9: C(A,A2).f(-1) accepted (OK per property)")
except icontract.ViolationError: print("D9: C(A,A2).f(-1) REJECTED although A2.f accepts everything")
class C2(A2, A):
    def f(self, x): return x
try:
    C2().f(-1); print("D9: C2(A2,A).f(-1) accepted")
except icontract.ViolationError: print("D9: C2(A2,A).f(-1) REJECTED")

# --- D10: snapshot over require-only
try:
    @icontract.snapshot(lambda x: x)
    @icontract.require(lambda x: x > 0)
    def s(x): pass
    print("D10: snapshot over require-only silently accepted")
except ValueError as e: print("D10: rejected", e)

# --- D11: foreign decorator between contracts
trace = []
def foreign(fn):
    @functools.wraps(fn)
    def w(*a, **k):
        trace.append("foreign")
        return fn(*a, **k)
    return w
@icontract.require(lambda x: x > 0)
@foreign
@icontract.require(lambda x: x < 10)
def h(x): return x
h(1); print("D11: foreign decorator ran:", trace, "; type chain:", h.__name__, hasattr(h, "__preconditions__"), len(h.__preconditions__[0]))

# --- D12: invariant lambda returning coroutine
async def acheck(): return False
warnings.simplefilter("ignore")
@icontract.invariant(lambda self: acheck())
class I:
    def m(self): return 1
try:
    I().m(); print("D12: coroutine-returning invariant taken as truthy")
except ValueError as e: print("D12: rejected:", e)

# --- D13: subclass adding __init__ to invariant class without __init__
class Base0:
    pass
class Sub0(Base0):
    def __init__(self, x): self.x = x
Sub0(1)
@icontract.invariant(lambda self: True)
class Base:
    pass
class Sub(Base):
    def __init__(self, x): self.x = x
try:
    Sub(1); print("D13: Sub(1) ok")
except TypeError as e: print("D13: Sub(1) TypeError:", e)
@icontract.invariant(lambda self: self.x > 0)
class BaseD(icontract.DBC):
    pass
try:
    class SubD(BaseD):
        def __init__(self, x): self.x = x
    SubD(1); print("D13b: SubD(1) ok")
except BaseException as e: print("D13b:", type(e).__name__, str(e)[:200])
