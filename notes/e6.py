import icontract
def check(v): return v is not None and False
def show(v): return repr(v)
@icontract.require(lambda input: show(input) == "x")
def f(input=None): pass
try: f()
except icontract.ViolationError as e: print("D16:", str(e).split("\n",1)[1])
