import icontract, sys, asyncio, contextvars
sys.setrecursionlimit(300)

# --- C10: condition re-entering twice
calls = []
@icontract.require(lambda x: (f(x) or True) and (f(x) or True))
def f(x):
    calls.append(x)
    return x
try:
    f(1); print("C10 twice-reentry: terminated, body calls", len(calls))
except RecursionError as e:
    print("C10 twice-reentry: RecursionError")

# --- C10: recursion from body is checked?
log = []
@icontract.require(lambda n: log.append(n) is None)
def fact(n):
    return 1 if n <= 0 else n * fact(n-1)
fact(4); print("C10 body recursion: precondition evaluated for n =", log, "(expect [4,3,2,1,0])")

# --- C03: subclass constructor calls base constructor first
ev = []
@icontract.invariant(lambda self: ev.append(("inv", type(self).__name__, sorted(vars(self)))) is None)
class A(icontract.DBC):
    def __init__(self):
        self.a = 1
    def pub(self):
        return 1
class B(A):
    def __init__(self):
        super().__init__()
        ev.append("after-super")
        self.pub()
        ev.append("after-pub")
        self.b = 2
B(); print("C03 nested ctor:", ev)

# --- C05: kw-only after *args with surplus positionals
seen = {}
@icontract.require(lambda b: seen.setdefault("b", b) is not None)
def g(a, *args, b=1):
    seen["body_b"] = b
g(1, 2, 3); print("C05 kwonly:", seen)
seen = {}
@icontract.require(lambda a: seen.setdefault("a", a) is not None)
def h(a, /, **kw):
    seen["body_a"] = a
h(1, a=2); print("C05 posonly:", seen)
