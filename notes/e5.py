import icontract
class A(icontract.DBC):
    @icontract.snapshot(lambda lst: lst[:])
    @icontract.ensure(lambda OLD, lst: len(lst) == len(OLD.lst) + 1)
    def f(self, lst): lst.append(1)
class B(A): pass
class C(A): pass
try:
    class D(B, C):
        def f(self, lst): lst.append(2)
    D().f([]); print("D15: diamond ok")
except ValueError as e: print("D15: diamond rejected:", str(e)[:80])
