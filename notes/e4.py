import icontract
from icontract import InvariantCheckEvent as E

@icontract.invariant(lambda self: self.x > 0, check_on=E.SETATTR)
@icontract.invariant(lambda self: self.x > 0)
class A(icontract.DBC):
    def __init__(self): self.x = 1
    def a_break(self): object.__setattr__(self, "x", -1)
class B(A):
    def b_break(self): object.__setattr__(self, "x", -1)
    def a_break(self): object.__setattr__(self, "x", -1)
for cls, m in ((A, "a_break"), (B, "b_break"), (B, "a_break")):
    try:
        getattr(cls(), m)(); print("D14:", cls.__name__, m, "NOT checked")
    except icontract.ViolationError: print("D14:", cls.__name__, m, "checked")

# reverse: CALL last; subclass __setattr__ override
@icontract.invariant(lambda self: self.x > 0)
@icontract.invariant(lambda self: self.x > 0, check_on=E.SETATTR)
class A2(icontract.DBC):
    def __init__(self): self.x = 1
class B2(A2):
    def __setattr__(self, k, v): object.__setattr__(self, k, v)
try:
    b = B2(); b.x = -1; print("D14: B2 overridden __setattr__ NOT checked")
except icontract.ViolationError: print("D14: B2 __setattr__ checked")
